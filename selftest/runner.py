"""Self-test of the checkers, both directions.

Each variant is a small edit of the *current* /repo/gcmpy applied to a scratch copy (made with
tempfile.mkdtemp(), outside /repo and /verif, removed in a finally): M-variants break exactly one rule
instance while the package still byte-compiles (the check must exit 1 and, where given, name the expected
obligation); R-twins are behaviour-preserving rewrites (the check must exit 0); U-twins are correct
rewrites the rules are documented not to recognise (exit 2 or 0 allowed, never a VIOLATION).
A variant whose edit site cannot be located on the current tree is skipped and counted, never a failure.
The self-test only feeds the evidence; it never changes a check's exit code.

CLI:  /venv/bin/python -m selftest.runner [C01 C02 ...] [-v] [--repo DIR]
"""
from __future__ import annotations

import contextlib
import io
import os
import shutil
import sys
import tempfile
import warnings
from concurrent.futures import ProcessPoolExecutor

HERE = os.path.dirname(os.path.abspath(__file__))
VERIF = os.path.dirname(HERE)
if VERIF not in sys.path:
    sys.path.insert(0, VERIF)


def _load_variants():
    """Hand-written variants plus one M-variant per confirmed seeded change under /verif/seeded (applied as a patch)."""
    import json
    from selftest import variants
    V = {k: list(v) for k, v in variants.VARIANTS.items()}
    root = os.path.join(VERIF, "seeded")
    if os.path.isdir(root):
        for d in sorted(os.listdir(root)):
            mp = os.path.join(root, d, "meta.json")
            if not os.path.exists(mp):
                continue
            meta = json.load(open(mp))
            det = meta.get("detected_by")
            if not det:
                continue  # recorded as not detected (see DESIGN.md 10.6): not an expectation of the self-test
            V.setdefault(meta["property"], []).append({"id": "seeded:" + d, "kind": "M", "patch": os.path.join(root, d, "patch.diff"),
                                                       "expect": det[0] if det else ""})
    # independently written, independently confirmed behaviour-preserving refactorings (/verif/twins): kind T -
    # the check must never report a VIOLATION on them (UNDECIDED = exit 2 is tolerated and counted)
    troot = os.path.join(VERIF, "twins")
    if os.path.isdir(troot):
        props = {}
        with open(os.path.join(VERIF, "properties.jsonl")) as fh:
            for line in fh:
                pj = json.loads(line)
                props[pj["id"]] = set(pj["anchors"]["files"])
        for d in sorted(os.listdir(troot)):
            pp = os.path.join(troot, d, "patch.diff")
            if not os.path.exists(pp):
                continue
            touched = {l[6:].strip() for l in open(pp) if l.startswith("+++ b/")}
            for pid, files in props.items():
                if touched & files:
                    V.setdefault(pid, []).append({"id": "twin:" + d, "kind": "T", "patch": pp})
    return V


def _apply(scratch: str, edits) -> str:
    """Apply [(relpath, old, new)] in scratch; returns '' or a skip reason."""
    for rel, old, new in edits:
        p = os.path.join(scratch, rel)
        if not os.path.exists(p):
            return f"file {rel} missing"
        s = open(p).read()
        if s.count(old) != 1:
            return f"edit site not found exactly once in {rel} ({s.count(old)} matches)"
        s = s.replace(old, new)
        try:
            with warnings.catch_warnings():
                warnings.simplefilter("ignore")
                compile(s, rel, "exec")
        except SyntaxError as e:
            return f"variant does not compile: {e}"
        open(p, "w").write(s)
    return ""


def run_variant(args):
    prop, v, repo = args
    import check as check_mod
    tmp = tempfile.mkdtemp(prefix="gcmverif_st_")
    try:
        shutil.copytree(os.path.join(repo, "gcmpy"), os.path.join(tmp, "gcmpy"),
                        ignore=shutil.ignore_patterns("__pycache__"))
        if "patch" in v:
            import subprocess
            r = subprocess.run(["git", "apply", "--include=*/gcmpy/*", "--unsafe-paths", "--directory", tmp, v["patch"]], capture_output=True, text=True, cwd=tmp)
            skip = "" if r.returncode == 0 else "seeded patch does not apply to the current tree"
        else:
            edits = v["edits"] if "edits" in v else [(v["file"], v["old"], v["new"])]
            skip = _apply(tmp, edits)
        if skip:
            return {"id": v["id"], "kind": v["kind"], "outcome": "skipped", "detail": skip}
        buf = io.StringIO()
        with contextlib.redirect_stdout(buf):
            code, results = check_mod.run_property(prop, tmp, "quick", write=False, quiet=True,
                                                   known_path=v.get("known_path"))
        viol = sorted({r.obligation for r in results if r.status == "VIOLATED" and not r.known})
        known = sum(1 for r in results if r.status == "VIOLATED" and r.known)
        und = sorted({r.obligation for r in results if r.status == "UNDECIDED"})
        kind = v["kind"]
        if kind == "M":
            ok = code == 1 and (not v.get("expect") or v["expect"] in viol)
        elif kind == "R":
            ok = code == 0 and (v.get("known", None) is None or known == v["known"])
        elif kind == "T":
            ok = code in (0, 2) and not viol
        else:  # U
            ok = code in (0, 2)
        return {"id": v["id"], "kind": kind, "outcome": "ok" if ok else "FAIL", "exit": code,
                "violated": viol, "undecided": und, "known": known, "expect": v.get("expect", "")}
    except Exception as e:  # pragma: no cover
        return {"id": v["id"], "kind": v["kind"], "outcome": "error", "detail": f"{type(e).__name__}: {e}"}
    finally:
        shutil.rmtree(tmp, ignore_errors=True)


def run_for(prop: str, repo: str = "/repo", verbose: bool = False, jobs: int = 16) -> dict:
    vs = _load_variants().get(prop, [])
    if not vs:
        return {"variants": 0}
    with ProcessPoolExecutor(max_workers=min(jobs, len(vs))) as ex:
        res = list(ex.map(run_variant, [(prop, v, repo) for v in vs]))
    tally = {"variants": len(vs)}
    for kind, name in (("M", "mutants"), ("R", "twins"), ("U", "undecided_twins"), ("T", "independent_refactorings")):
        rk = [r for r in res if r["kind"] == kind]
        tally[name] = {"total": len(rk), "as_expected": sum(1 for r in rk if r["outcome"] == "ok"),
                       "skipped": sum(1 for r in rk if r["outcome"] == "skipped"),
                       "failed": [r["id"] for r in rk if r["outcome"] in ("FAIL", "error")]}
    tally["results"] = res
    if verbose:
        for r in res:
            print(f"  {prop} {r['kind']} {r['outcome']:7s} {r['id']:45s} exit={r.get('exit','-')} viol={r.get('violated','')} "
                  f"und={r.get('undecided','')} {r.get('detail','')}")
    return tally


def main(argv=None):
    import argparse
    ap = argparse.ArgumentParser()
    ap.add_argument("props", nargs="*")
    ap.add_argument("--repo", default="/repo")
    ap.add_argument("-v", action="store_true")
    a = ap.parse_args(argv)
    allv = _load_variants()
    props = [p.upper() for p in a.props] or sorted(allv)
    bad = 0
    for p in props:
        t = run_for(p, a.repo, verbose=a.v)
        if not t.get("variants"):
            print(f"{p}: no variants")
            continue
        m, r, u, tw = t["mutants"], t["twins"], t["undecided_twins"], t["independent_refactorings"]
        n_und = sum(1 for x in t["results"] if x["kind"] == "T" and x.get("exit") == 2)
        print(f"{p}: mutants {m['as_expected']}/{m['total']} detected (skipped {m['skipped']}), twins {r['as_expected']}/{r['total']} silent, "
              f"undecided-twins {u['as_expected']}/{u['total']}, independent refactorings {tw['as_expected']}/{tw['total']} not accused ({n_und} undecided)  "
              f"failed={m['failed'] + r['failed'] + u['failed'] + tw['failed']}")
        bad += len(m["failed"]) + len(r["failed"]) + len(u["failed"]) + len(tw["failed"])
    return 1 if bad else 0


if __name__ == "__main__":
    sys.exit(main())
