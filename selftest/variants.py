"""Self-test corpus: per property a list of variants of the current /repo/gcmpy.

kind 'M' = mutant (one rule instance broken; still compiles; the existing suite does not look at it) -> the
check must exit 1 (and name `expect` when given); 'R' = behaviour-preserving twin -> exit 0; 'U' = correct
rewrite documented as not recognised -> exit 0 or 2, never a VIOLATION line.
Edits are (file, old, new) text replacements that must match exactly once on the current tree; a variant
whose site is gone is skipped and counted.
"""

def M(id, file, old, new, expect=""):
    return {"id": id, "kind": "M", "file": file, "old": old, "new": new, "expect": expect}


def R(id, file, old, new, **kw):
    d = {"id": id, "kind": "R", "file": file, "old": old, "new": new}
    d.update(kw)
    return d


def U(id, file, old, new):
    return {"id": id, "kind": "U", "file": file, "old": old, "new": new}


def ME(id, edits, expect=""):
    return {"id": id, "kind": "M", "edits": edits, "expect": expect}


def RE(id, edits, **kw):
    d = {"id": id, "kind": "R", "edits": edits}
    d.update(kw)
    return d


VARIANTS = {}

# ------------------------------------------------------------------------------------------- C18
BP = "gcmpy/tools/bond_percolate.py"
VARIANTS["C18"] = [
    M("inverted-comparison", BP, "random.random() > phi", "random.random() < phi", "C18.2"),
    M("one-minus-phi", BP, "random.random() > phi", "random.random() > 1 - phi", "C18.2"),
    M("phi-on-left-wrong", BP, "random.random() > phi", "phi > random.random()", "C18.2"),
    M("draw-hoisted", BP, "    es: list = [e for e in G.edges() if random.random() > phi]",
      "    r = random.random()\n    es: list = [e for e in G.edges() if r > phi]", "C18.3"),
    M("reverse-dropped", BP, "key=len, reverse=True)", "key=len)", "C18.4"),
    M("edges-denominator", BP, "/ G.order()", "/ G.number_of_edges()", "C18.4"),
    M("mutates-input", BP, "G.remove_edges_from(es)", "g.remove_edges_from(es)", "C18.1"),
    M("no-copy", BP, "G: nx.Graph = g.copy()", "G: nx.Graph = g", "C18.1"),
    M("edges-sliced", BP, "for e in G.edges() if", "for e in list(G.edges())[1:] if", "C18.3"),
    M("second-largest", BP, "len(Gcc[0])", "len(Gcc[1])", "C18.4"),
    M("removes-slice", BP, "G.remove_edges_from(es)", "G.remove_edges_from(es[1:])", "C18.5"),
    R("phi-on-left", BP, "random.random() > phi", "phi < random.random()"),
    R("one-minus-phi-ok", BP, "random.random() > phi", "random.random() < 1 - phi"),
    R("max-key-len", BP, "    Gcc: list = sorted(nx.connected_components(G), key=len, reverse=True)\n    return float(len(Gcc[0])) / G.order()",
      "    largest = max(nx.connected_components(G), key=len)\n    return len(largest) / G.number_of_nodes()"),
    R("not-le", BP, "random.random() > phi", "not (random.random() <= phi)"),
    R("inline-es", BP, "    es: list = [e for e in G.edges() if random.random() > phi]\n    G.remove_edges_from(es)",
      "    G.remove_edges_from([e for e in G.edges() if random.random() > phi])"),
]

# ------------------------------------------------------------------------------------------- C20
DS = "gcmpy/tools/draw_set.py"
MC = "gcmpy/tools/markov_chain_monte_carlo_rewiring.py"
VARIANTS["C20"] = [
    M("guard-off-by-one", DS, "if position != len(self._edges):", "if position != len(self._edges) - 1:", "C20.4"),
    M("guard-removed", DS, "        if position != len(self._edges):\n            self._edges[position] = last_item\n            self._edge_hashmap[last_item] = position",
      "        self._edges[position] = last_item\n        self._edge_hashmap[last_item] = position", "C20.4"),
    M("map-update-dropped", DS, "            self._edges[position] = last_item\n            self._edge_hashmap[last_item] = position",
      "            self._edges[position] = last_item", "C20.4"),
    M("add-no-membership", DS, "        if e in self._edge_hashmap:\n            return\n", "", "C20.2"),
    M("add-index-off", DS, "self._edge_hashmap[e] = len(self._edges) - 1", "self._edge_hashmap[e] = len(self._edges)", "C20.2"),
    M("pop-list-before-lookup", DS, "        position = self._edge_hashmap.pop(e)\n        last_item = self._edges.pop()",
      "        last_item = self._edges.pop()\n        position = self._edge_hashmap.pop(e)", "C20.3"),
    M("swallow-keyerror", DS, "        position = self._edge_hashmap.pop(e)\n",
      "        try:\n            position = self._edge_hashmap.pop(e)\n        except KeyError:\n            return\n", "C20.3"),
    M("pop-default", DS, "self._edge_hashmap.pop(e)", "self._edge_hashmap.pop(e, 0)", "C20.3"),
    M("external-write", MC, "        EdgeSet = DrawSet()\n", "        EdgeSet = DrawSet()\n        EdgeSet._edges.append((0, 0))\n", "C20.1"),
    M("class-level-list", DS, "class DrawSet(object):\n", "class DrawSet(object):\n    _edges: list = []\n", "C20.1"),
    M("draw-first", DS, "return random.choice(self._edges)", "return self._edges[0]", "C20.5"),
    M("contains-negated", DS, "return e in self._edge_hashmap", "return e not in self._edge_hashmap", "C20.5"),
    M("len-minus-one", DS, "return len(self._edges)\n", "return len(self._edges) - 1\n", "C20.5"),
    M("swap-wrong-key", DS, "self._edge_hashmap[last_item] = position", "self._edge_hashmap[e] = position", "C20.4"),
    M("add-wrong-key", DS, "self._edge_hashmap[e] = len(self._edges) - 1", "self._edge_hashmap[len(self._edges) - 1] = e", "C20.2"),
    R("contains-on-list", DS, "return e in self._edge_hashmap\n", "return e in self._edges\n"),
    R("guard-less-than", DS, "if position != len(self._edges):", "if position < len(self._edges):"),
    R("add-if-not-in", DS, "        if e in self._edge_hashmap:\n            return\n        self._edges.append(e)\n        self._edge_hashmap[e] = len(self._edges) - 1",
      "        if e not in self._edge_hashmap:\n            self._edge_hashmap[e] = len(self._edges)\n            self._edges.append(e)"),
    R("guard-before-pop", DS, "        last_item = self._edges.pop()\n        if position != len(self._edges):",
      "        is_last = position == len(self._edges) - 1\n        last_item = self._edges.pop()\n        if not is_last:"),
    R("len-of-map", DS, "return len(self._edges)\n", "return len(self._edge_hashmap)\n"),
    U("local-aliases", DS, "        position = self._edge_hashmap.pop(e)\n        last_item = self._edges.pop()\n        if position != len(self._edges):\n            self._edges[position] = last_item",
      "        edges = self._edges\n        position = self._edge_hashmap.pop(e)\n        last_item = edges.pop()\n        if position != len(edges):\n            edges[position] = last_item"),
]

# ------------------------------------------------------------------------------------------- C03
GF = "gcmpy/gcm_algorithm/gcm_algorithm_fast.py"
GC = "gcmpy/gcm_algorithm/gcm_algorithm_custom_motifs.py"
GA = "gcmpy/gcm_algorithm/gcm_algorithm.py"
SH = "        for k_list in stubs:\n            random.shuffle(k_list)\n"
VARIANTS["C03"] = [
    M("fast-shuffle-removed", GF, SH, "", "C03.1"),
    M("custom-shuffle-removed", GC, SH, "", "C03.1"),
    M("fast-only-first", GF, "for k_list in stubs:\n            random.shuffle", "for k_list in stubs[:1]:\n            random.shuffle", "C03.1"),
    M("custom-shuffle-copy", GC, "random.shuffle(k_list)", "random.shuffle(list(k_list))", "C03.2"),
    M("fast-shuffle-slice-copy", GF, "random.shuffle(k_list)", "random.shuffle(k_list[:])", "C03.2"),
    M("fast-sort-after", GF, SH, SH + "        for k_list in stubs:\n            k_list.sort()\n", "C03.3"),
    M("fast-seed", GF, "        stubs = [", "        random.seed(0)\n        stubs = [", "C03.3"),
    M("fast-conditional-shuffle", GF, "            random.shuffle(k_list)\n", "            if len(k_list) > 2:\n                random.shuffle(k_list)\n", "C03.1"),
    M("fast-break-after-first", GF, "            random.shuffle(k_list)\n", "            random.shuffle(k_list)\n            break\n", "C03.1"),
    M("custom-shuffle-after-partition", GC, SH + "\n        # create list for edges and add joint degree sequence\n        EdgeList = LightWeightEdgeList()\n        EdgeList.joint_degrees = jds\n\n        # split the stub lists into partitions of equal\n        # size to the number of that topology required to\n        # construct the motif\n        partitions: list[list] = []\n        for i, k_list in enumerate(stubs):\n            partitions.append(self.partition(k_list, self._motif_sizes[i]))\n",
      "        EdgeList = LightWeightEdgeList()\n        EdgeList.joint_degrees = jds\n        partitions: list[list] = []\n        for i, k_list in enumerate(stubs):\n            partitions.append(self.partition(k_list, self._motif_sizes[i]))\n" + SH, "C03.1"),
    M("fast-shuffle-first-list-always", GF, "for k_list in stubs:\n            random.shuffle(k_list)", "for k_list in stubs:\n            random.shuffle(stubs[0])", "C03.2"),
    M("seed-in-base-init", GA, "        self._motif_sizes: list = []  #", "        import random\n        random.seed(1)\n        self._motif_sizes: list = []  #", "C03.3"),
    R("fast-index-loop", GF, "        for k_list in stubs:\n            random.shuffle(k_list)", "        for i in range(len(stubs)):\n            random.shuffle(stubs[i])"),
    R("fast-renamed-var", GF, "        for k_list in stubs:\n            random.shuffle(k_list)", "        for stub_list in stubs:\n            random.shuffle(stub_list)"),
]
