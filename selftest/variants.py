"""Self-test corpus: per property a list of variants of the current /repo/gcmpy.

kind 'M' = mutant (one rule instance broken; still compiles; the existing suite does not look at it) -> the
check must exit 1 (and name `expect` when given); 'R' = behaviour-preserving twin -> exit 0; 'U' = correct
rewrite documented as not recognised -> exit 0 or 2, never a VIOLATION line.
Edits are (file, old, new) text replacements that must match exactly once on the current tree; a variant
whose site is gone is skipped and counted.
"""

def M(id, file, old, new, expect=""):
    return {"id": id, "kind": "M", "file": file, "old": old, "new": new, "expect": expect}


def R(id, file, old, new, **kw):
    d = {"id": id, "kind": "R", "file": file, "old": old, "new": new}
    d.update(kw)
    return d


def U(id, file, old, new):
    return {"id": id, "kind": "U", "file": file, "old": old, "new": new}


def ME(id, edits, expect=""):
    return {"id": id, "kind": "M", "edits": edits, "expect": expect}


def RE(id, edits, **kw):
    d = {"id": id, "kind": "R", "edits": edits}
    d.update(kw)
    return d


VARIANTS = {}

# ------------------------------------------------------------------------------------------- C18
BP = "gcmpy/tools/bond_percolate.py"
VARIANTS["C18"] = [
    M("inverted-comparison", BP, "random.random() > phi", "random.random() < phi", "C18.2"),
    M("one-minus-phi", BP, "random.random() > phi", "random.random() > 1 - phi", "C18.2"),
    M("phi-on-left-wrong", BP, "random.random() > phi", "phi > random.random()", "C18.2"),
    M("draw-hoisted", BP, "    es: list = [e for e in G.edges() if random.random() > phi]",
      "    r = random.random()\n    es: list = [e for e in G.edges() if r > phi]", "C18.3"),
    M("reverse-dropped", BP, "key=len, reverse=True)", "key=len)", "C18.4"),
    M("edges-denominator", BP, "/ G.order()", "/ G.number_of_edges()", "C18.4"),
    M("mutates-input", BP, "G.remove_edges_from(es)", "g.remove_edges_from(es)", "C18.1"),
    M("no-copy", BP, "G: nx.Graph = g.copy()", "G: nx.Graph = g", "C18.1"),
    M("edges-sliced", BP, "for e in G.edges() if", "for e in list(G.edges())[1:] if", "C18.3"),
    M("second-largest", BP, "len(Gcc[0])", "len(Gcc[1])", "C18.4"),
    M("removes-slice", BP, "G.remove_edges_from(es)", "G.remove_edges_from(es[1:])", "C18.5"),
    R("phi-on-left", BP, "random.random() > phi", "phi < random.random()"),
    R("one-minus-phi-ok", BP, "random.random() > phi", "random.random() < 1 - phi"),
    R("max-key-len", BP, "    Gcc: list = sorted(nx.connected_components(G), key=len, reverse=True)\n    return float(len(Gcc[0])) / G.order()",
      "    largest = max(nx.connected_components(G), key=len)\n    return len(largest) / G.number_of_nodes()"),
    R("not-le", BP, "random.random() > phi", "not (random.random() <= phi)"),
    R("inline-es", BP, "    es: list = [e for e in G.edges() if random.random() > phi]\n    G.remove_edges_from(es)",
      "    G.remove_edges_from([e for e in G.edges() if random.random() > phi])"),
]
