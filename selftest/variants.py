"""Self-test corpus: per property a list of variants of the current /repo/gcmpy.

kind 'M' = mutant (one rule instance broken; still compiles; the existing suite does not look at it) -> the
check must exit 1 (and name `expect` when given); 'R' = behaviour-preserving twin -> exit 0; 'U' = correct
rewrite documented as not recognised -> exit 0 or 2, never a VIOLATION line.
Edits are (file, old, new) text replacements that must match exactly once on the current tree; a variant
whose site is gone is skipped and counted.
"""

def M(id, file, old, new, expect=""):
    return {"id": id, "kind": "M", "file": file, "old": old, "new": new, "expect": expect}


def R(id, file, old, new, **kw):
    d = {"id": id, "kind": "R", "file": file, "old": old, "new": new}
    d.update(kw)
    return d


def U(id, file, old, new):
    return {"id": id, "kind": "U", "file": file, "old": old, "new": new}


def ME(id, edits, expect=""):
    return {"id": id, "kind": "M", "edits": edits, "expect": expect}


def RE(id, edits, **kw):
    d = {"id": id, "kind": "R", "edits": edits}
    d.update(kw)
    return d


VARIANTS = {}

# ------------------------------------------------------------------------------------------- C18
BP = "gcmpy/tools/bond_percolate.py"
VARIANTS["C18"] = [
    M("inverted-comparison", BP, "random.random() > phi", "random.random() < phi", "C18.2"),
    M("one-minus-phi", BP, "random.random() > phi", "random.random() > 1 - phi", "C18.2"),
    M("phi-on-left-wrong", BP, "random.random() > phi", "phi > random.random()", "C18.2"),
    M("draw-hoisted", BP, "    es: list = [e for e in G.edges() if random.random() > phi]",
      "    r = random.random()\n    es: list = [e for e in G.edges() if r > phi]", "C18.3"),
    M("reverse-dropped", BP, "key=len, reverse=True)", "key=len)", "C18.4"),
    M("edges-denominator", BP, "/ G.order()", "/ G.number_of_edges()", "C18.4"),
    M("mutates-input", BP, "G.remove_edges_from(es)", "g.remove_edges_from(es)", "C18.1"),
    M("no-copy", BP, "G: nx.Graph = g.copy()", "G: nx.Graph = g", "C18.1"),
    M("edges-sliced", BP, "for e in G.edges() if", "for e in list(G.edges())[1:] if", "C18.3"),
    M("second-largest", BP, "len(Gcc[0])", "len(Gcc[1])", "C18.4"),
    M("removes-slice", BP, "G.remove_edges_from(es)", "G.remove_edges_from(es[1:])", "C18.5"),
    R("phi-on-left", BP, "random.random() > phi", "phi < random.random()"),
    R("one-minus-phi-ok", BP, "random.random() > phi", "random.random() < 1 - phi"),
    R("max-key-len", BP, "    Gcc: list = sorted(nx.connected_components(G), key=len, reverse=True)\n    return float(len(Gcc[0])) / G.order()",
      "    largest = max(nx.connected_components(G), key=len)\n    return len(largest) / G.number_of_nodes()"),
    R("not-le", BP, "random.random() > phi", "not (random.random() <= phi)"),
    R("inline-es", BP, "    es: list = [e for e in G.edges() if random.random() > phi]\n    G.remove_edges_from(es)",
      "    G.remove_edges_from([e for e in G.edges() if random.random() > phi])"),
]

# ------------------------------------------------------------------------------------------- C20
DS = "gcmpy/tools/draw_set.py"
MC = "gcmpy/tools/markov_chain_monte_carlo_rewiring.py"
VARIANTS["C20"] = [
    M("guard-off-by-one", DS, "if position != len(self._edges):", "if position != len(self._edges) - 1:", "C20.4"),
    M("guard-removed", DS, "        if position != len(self._edges):\n            self._edges[position] = last_item\n            self._edge_hashmap[last_item] = position",
      "        self._edges[position] = last_item\n        self._edge_hashmap[last_item] = position", "C20.4"),
    M("map-update-dropped", DS, "            self._edges[position] = last_item\n            self._edge_hashmap[last_item] = position",
      "            self._edges[position] = last_item", "C20.4"),
    M("add-no-membership", DS, "        if e in self._edge_hashmap:\n            return\n", "", "C20.2"),
    M("add-index-off", DS, "self._edge_hashmap[e] = len(self._edges) - 1", "self._edge_hashmap[e] = len(self._edges)", "C20.2"),
    M("pop-list-before-lookup", DS, "        position = self._edge_hashmap.pop(e)\n        last_item = self._edges.pop()",
      "        last_item = self._edges.pop()\n        position = self._edge_hashmap.pop(e)", "C20.3"),
    M("swallow-keyerror", DS, "        position = self._edge_hashmap.pop(e)\n",
      "        try:\n            position = self._edge_hashmap.pop(e)\n        except KeyError:\n            return\n", "C20.3"),
    M("pop-default", DS, "self._edge_hashmap.pop(e)", "self._edge_hashmap.pop(e, 0)", "C20.3"),
    M("external-write", MC, "        EdgeSet = DrawSet()\n", "        EdgeSet = DrawSet()\n        EdgeSet._edges.append((0, 0))\n", "C20.1"),
    # audited the class attribute is shadowed by the instance attribute bound in __init__ (independent differential audit: equivalent): must not be accused
    R("class-level-list", DS, "class DrawSet(object):\n", "class DrawSet(object):\n    _edges: list = []\n"),
    M("draw-first", DS, "return random.choice(self._edges)", "return self._edges[0]", "C20.5"),
    M("contains-negated", DS, "return e in self._edge_hashmap", "return e not in self._edge_hashmap", "C20.5"),
    M("len-minus-one", DS, "return len(self._edges)\n", "return len(self._edges) - 1\n", "C20.5"),
    M("swap-wrong-key", DS, "self._edge_hashmap[last_item] = position", "self._edge_hashmap[e] = position", "C20.4"),
    M("add-wrong-key", DS, "self._edge_hashmap[e] = len(self._edges) - 1", "self._edge_hashmap[len(self._edges) - 1] = e", "C20.2"),
    R("contains-on-list", DS, "return e in self._edge_hashmap\n", "return e in self._edges\n"),
    R("guard-less-than", DS, "if position != len(self._edges):", "if position < len(self._edges):"),
    R("add-if-not-in", DS, "        if e in self._edge_hashmap:\n            return\n        self._edges.append(e)\n        self._edge_hashmap[e] = len(self._edges) - 1",
      "        if e not in self._edge_hashmap:\n            self._edge_hashmap[e] = len(self._edges)\n            self._edges.append(e)"),
    R("guard-before-pop", DS, "        last_item = self._edges.pop()\n        if position != len(self._edges):",
      "        is_last = position == len(self._edges) - 1\n        last_item = self._edges.pop()\n        if not is_last:"),
    R("len-of-map", DS, "return len(self._edges)\n", "return len(self._edge_hashmap)\n"),
    U("local-aliases", DS, "        position = self._edge_hashmap.pop(e)\n        last_item = self._edges.pop()\n        if position != len(self._edges):\n            self._edges[position] = last_item",
      "        edges = self._edges\n        position = self._edge_hashmap.pop(e)\n        last_item = edges.pop()\n        if position != len(edges):\n            edges[position] = last_item"),
]

# ------------------------------------------------------------------------------------------- C03
GF = "gcmpy/gcm_algorithm/gcm_algorithm_fast.py"
GC = "gcmpy/gcm_algorithm/gcm_algorithm_custom_motifs.py"
GA = "gcmpy/gcm_algorithm/gcm_algorithm.py"
SH = "        for k_list in stubs:\n            random.shuffle(k_list)\n"
VARIANTS["C03"] = [
    M("fast-shuffle-removed", GF, SH, "", "C03.1"),
    M("custom-shuffle-removed", GC, SH, "", "C03.1"),
    M("fast-only-first", GF, "for k_list in stubs:\n            random.shuffle", "for k_list in stubs[:1]:\n            random.shuffle", "C03.1"),
    M("custom-shuffle-copy", GC, "random.shuffle(k_list)", "random.shuffle(list(k_list))", "C03.2"),
    M("fast-shuffle-slice-copy", GF, "random.shuffle(k_list)", "random.shuffle(k_list[:])", "C03.2"),
    M("fast-sort-after", GF, SH, SH + "        for k_list in stubs:\n            k_list.sort()\n", "C03.3"),
    M("fast-seed", GF, "        stubs = [", "        random.seed(0)\n        stubs = [", "C03.3"),
    # audited the undirected graph distribution is unchanged (independent differential audit): must not be accused
    U("fast-conditional-shuffle", GF, "            random.shuffle(k_list)\n", "            if len(k_list) > 2:\n                random.shuffle(k_list)\n"),
    M("fast-break-after-first", GF, "            random.shuffle(k_list)\n", "            random.shuffle(k_list)\n            break\n", "C03.1"),
    M("custom-shuffle-after-partition", GC, SH + "\n        # create list for edges and add joint degree sequence\n        EdgeList = LightWeightEdgeList()\n        EdgeList.joint_degrees = jds\n\n        # split the stub lists into partitions of equal\n        # size to the number of that topology required to\n        # construct the motif\n        partitions: list[list] = []\n        for i, k_list in enumerate(stubs):\n            partitions.append(self.partition(k_list, self._motif_sizes[i]))\n",
      "        EdgeList = LightWeightEdgeList()\n        EdgeList.joint_degrees = jds\n        partitions: list[list] = []\n        for i, k_list in enumerate(stubs):\n            partitions.append(self.partition(k_list, self._motif_sizes[i]))\n" + SH, "C03.1"),
    M("fast-shuffle-first-list-always", GF, "for k_list in stubs:\n            random.shuffle(k_list)", "for k_list in stubs:\n            random.shuffle(stubs[0])", "C03.2"),
    M("seed-in-base-init", GA, "        self._motif_sizes: list = []  #", "        import random\n        random.seed(1)\n        self._motif_sizes: list = []  #", "C03.3"),
    R("fast-index-loop", GF, "        for k_list in stubs:\n            random.shuffle(k_list)", "        for i in range(len(stubs)):\n            random.shuffle(stubs[i])"),
    R("fast-renamed-var", GF, "        for k_list in stubs:\n            random.shuffle(k_list)", "        for stub_list in stubs:\n            random.shuffle(stub_list)"),
]

# ------------------------------------------------------------------------------------------- C01
GN = "gcmpy/gcm_algorithm/gcm_algorithm_network.py"
GFA = "gcmpy/gcm_algorithm/gcm_algorithm_factory.py"
GM = "gcmpy/gcm_algorithm/gcm_algorithm_main.py"
MCL = "gcmpy/motif_generators/clique_motif.py"
MCY = "gcmpy/motif_generators/cycle_motif.py"
MDI = "gcmpy/motif_generators/diamond_motif.py"
VARIANTS["C01"] = [
    M("fast-grouper-sliced", GF, "grouper(k_list, self._motif_sizes[k])", "grouper(k_list[1:], self._motif_sizes[k])", "C01.3"),
    # audited equivalent on handshake-consistent sequences (independent differential audit): must not be accused
    R("fast-grouper-truncate", GF, "grouper(k_list, self._motif_sizes[k])", "grouper(k_list, self._motif_sizes[k], truncate=True)"),
    # audited equivalent on handshake-consistent sequences (independent differential audit): must not be accused
    R("fast-grouper-fill", GF, "grouper(k_list, self._motif_sizes[k])", "grouper(k_list, self._motif_sizes[k], fillvalue=0)"),
    M("fast-size-index-0", GF, "self._motif_sizes[k])", "self._motif_sizes[0])", "C01.4"),
    M("fast-builder-index", GF, "self._build_functions[k](", "self._build_functions[k - 1](", "C01.4"),
    M("fast-enumerate-from-1", GF, "for r in map(enumerate, zip(*jds))", "for r in map(lambda c: enumerate(c, 1), zip(*jds))", "C01.1"),
    M("fast-consume-sliced", GF, "for k, k_list in enumerate(stubs):", "for k, k_list in enumerate(stubs[:-1]):", "C01.3"),
    M("fast-jds-sorted", GF, "EdgeList.joint_degrees = jds", "EdgeList.joint_degrees = sorted(jds)", "C01.6"),
    M("fast-jds-mutated", GF, "EdgeList.joint_degrees = jds", "EdgeList.joint_degrees = jds\n        jds.sort()", "C01.6"),
    M("fast-chunk-sliced", GF, "self._build_functions[k](list(vertices))", "self._build_functions[k](list(vertices)[1:])", "C01.5"),
    M("fast-edges-sliced", GF, "EdgeList.edge_list.extend(es)", "EdgeList.edge_list.extend(es[:-1])", "C01.5"),
    M("fast-stub-pop", GF, "        gen = self.infinite_sequence()\n", "        gen = self.infinite_sequence()\n        stubs[0].pop()\n", "C01.2"),
    M("fast-continue-first", GF, "            for vertices in grouper(", "            if k == 0:\n                continue\n            for vertices in grouper(", ""),
    M("network-swapped-keys", GN, "params[GCMAlgorithmNames.MOTIF_SIZES] = self._motif_sizes\n        params[GCMAlgorithmNames.BUILD_FUNCTIONS] = self._build_functions",
      "params[GCMAlgorithmNames.MOTIF_SIZES] = self._build_functions\n        params[GCMAlgorithmNames.BUILD_FUNCTIONS] = self._motif_sizes", "C01.7"),
    M("network-jds-reversed", GN, ".random_clustered_graph(jds)", ".random_clustered_graph(jds[::-1])", "C01.7"),
    M("factory-network-is-fast", GFA, "return GCMAlgorithmNetwork(params)", "return GCMAlgorithmFast(params)", "C01.8"),
    M("factory-arm-dropped", GFA, "        elif type == GCMAlgorithmTypes.MOTIFS:\n            return GCMAlgorithmCustomMotifs(params)\n", "", "C01.8"),
    M("custom-partition-step", GC, "range(0, len(lst), n)", "range(0, len(lst), n + 1)", "C01.3"),
    M("custom-partition-start", GC, "range(0, len(lst), n)", "range(n, len(lst), n)", "C01.3"),
    M("custom-partition-width", GC, "lst[i : i + n]", "lst[i : i + n - 1]", "C01.3"),
    M("custom-size-wrong-index", GC, "self.partition(k_list, self._motif_sizes[i])", "self.partition(k_list, self._motif_sizes[0])", "C01.4"),
    M("custom-count-wrong-size", GC, "num_motifs = (0.0 + len(stubs[kk])) / self._motif_sizes[kk]", "num_motifs = (0.0 + len(stubs[kk])) / self._motif_sizes[j]", "C01.3"),
    M("custom-count-minus-one", GC, "for k in range(int(num_motifs)):", "for k in range(int(num_motifs) - 1):", "C01.3"),
    M("custom-orbit-sliced", GC, "for index in motif_indexes:", "for index in motif_indexes[:1]:", "C01.3"),
    M("custom-pop-wrong-partition", GC, "partitions[index].pop()", "partitions[kk].pop()", "C01.4"),
    M("custom-builder-index", GC, "self._build_functions[j](vertices)", "self._build_functions[0](vertices)", "C01.4"),
    M("custom-names-index", GC, "EdgeList.topologies.extend(self._edge_names[j]())", "EdgeList.topologies.extend(self._edge_names[kk]())", "C01.4"),
    M("custom-jds-reversed", GC, "EdgeList.joint_degrees = jds", "EdgeList.joint_degrees = list(reversed(jds))", "C01.6"),
    M("clique-triples", MCL, "combinations(vertices, 2)", "combinations(vertices, 3)", "C01.9"),
    M("clique-sliced", MCL, "combinations(vertices, 2)", "combinations(vertices[1:], 2)", "C01.9"),
    M("cycle-closing-wrong", MCY, "(vertices[0], vertices[-1])", "(vertices[0], vertices[1])", "C01.9"),
    M("diamond-chord-wrong", MDI, "edges.append((n1, n3))", "edges.append((n1, n2))", "C01.9"),
    R("fast-jds-copy", GF, "EdgeList.joint_degrees = jds", "EdgeList.joint_degrees = list(jds)"),
    R("fast-size-temp", GF, "            for vertices in grouper(k_list, self._motif_sizes[k]):", "            size = self._motif_sizes[k]\n            for vertices in grouper(k_list, size):"),
    R("fast-nested-stub-construction", GF, "        stubs = [\n            list(chain.from_iterable(starmap(repeat, r)))\n            for r in map(enumerate, zip(*jds))\n        ]",
      "        stubs = [[v for v, d in enumerate(col) for _ in range(d)] for col in zip(*jds)]"),
    R("fast-no-list-wrapper", GF, "self._build_functions[k](list(vertices))", "self._build_functions[k](vertices)"),
    R("custom-count-floordiv", GC, "num_motifs = (0.0 + len(stubs[kk])) / self._motif_sizes[kk]\n            for k in range(int(num_motifs)):",
      "num_motifs = len(stubs[kk]) // self._motif_sizes[kk]\n            for k in range(num_motifs):"),
    R("network-dict-literal", GN, "        params = {}\n        params[GCMAlgorithmNames.MOTIF_SIZES] = self._motif_sizes\n        params[GCMAlgorithmNames.BUILD_FUNCTIONS] = self._build_functions\n        params[GCMAlgorithmNames.EDGE_NAMES] = self._edge_names\n",
      "        params = {\n            GCMAlgorithmNames.MOTIF_SIZES: self._motif_sizes,\n            GCMAlgorithmNames.BUILD_FUNCTIONS: self._build_functions,\n            GCMAlgorithmNames.EDGE_NAMES: self._edge_names,\n        }\n"),
    U("factory-dict-dispatch", GFA, "        if type == GCMAlgorithmTypes.FAST:\n            return GCMAlgorithmFast(params)\n        elif type == GCMAlgorithmTypes.NETWORK:\n            return GCMAlgorithmNetwork(params)\n        elif type == GCMAlgorithmTypes.MOTIFS:\n            return GCMAlgorithmCustomMotifs(params)\n        else:\n            raise (\"Error: unknown algorithm in GCMAlgorithmFactory: resolve_algorithm\")",
      "        table = {GCMAlgorithmTypes.FAST: GCMAlgorithmFast, GCMAlgorithmTypes.NETWORK: GCMAlgorithmNetwork, GCMAlgorithmTypes.MOTIFS: GCMAlgorithmCustomMotifs}\n        return table[type](params)"),
]

# ------------------------------------------------------------------------------------------- C02
EN = "gcmpy/network/edge_list_to_network.py"
VARIANTS["C02"] = [
    M("fast-id-short", GF, "EdgeList.motif_id.extend([id] * len(es))", "EdgeList.motif_id.extend([id] * (len(es) - 1))", "C02.1"),
    M("fast-names-by-vertices", GF, "[self._edge_names[k]] * len(es)", "[self._edge_names[k]] * len(vertices)", "C02.1"),
    M("fast-id-per-edge", GF, "                id = next(gen)\n                EdgeList.motif_id.extend([id] * len(es))",
      "                EdgeList.motif_id.extend([next(gen) for _ in es])", "C02.3"),
    M("fast-gen-in-loop", GF, "        gen = self.infinite_sequence()\n\n        # for each topology list ...\n        for k, k_list in enumerate(stubs):\n",
      "        # for each topology list ...\n        for k, k_list in enumerate(stubs):\n            gen = self.infinite_sequence()\n", "C02.3"),
    # audited ids are only relabelled (a gap per topology), distinct per instance as C02 demands (independent differential audit): must not be accused
    R("fast-id-outside-chunk-loop", GF, "            for vertices in grouper(k_list, self._motif_sizes[k]):", "            id = next(gen)\n            for vertices in grouper(k_list, self._motif_sizes[k]):"),
    M("fast-id-constant", GF, "EdgeList.motif_id.extend([id] * len(es))", "EdgeList.motif_id.extend([k] * len(es))", "C02.3"),
    M("counter-stuck", GA, "            num += 1\n", "            num += 0\n", "C02.4"),
    M("counter-wraps", GA, "            num += 1\n", "            num = (num + 1) % 1000\n", "C02.4"),
    M("counter-not-advanced", GA, "            yield num\n            num += 1\n", "            yield num\n", "C02.4"),
    M("revert-D1", GC, "                id = next(gen)\n\n                if len(es) == 2 and not isinstance(es[0], (tuple, list)):\n                    # if 2-clique tuple annoyingly unpacks ... so re-pack it\n                    EdgeList.edge_list.extend([es])\n                    EdgeList.topologies.extend([self._edge_names[j]()])\n                    EdgeList.motif_id.extend([id])\n\n                else:\n                    EdgeList.edge_list.extend(es)\n                    EdgeList.topologies.extend(self._edge_names[j]())\n                    EdgeList.motif_id.extend([id] * len(es))",
      "                id = next(gen)\n                EdgeList.motif_id.extend([id] * len(es))\n\n                if len(es) == 2 and not isinstance(es[0], (tuple, list)):\n                    EdgeList.edge_list.extend([es])\n                    EdgeList.topologies.extend([self._edge_names[j]()])\n\n                else:\n                    EdgeList.edge_list.extend(es)\n                    EdgeList.topologies.extend(self._edge_names[j]())", "C02.1"),
    M("revert-D2", GC, "if len(es) == 2 and not isinstance(es[0], (tuple, list)):", "if len(es) == 2:", "C02.2"),
    M("custom-repack-no-id", GC, "                    EdgeList.motif_id.extend([id])\n", "", "C02.1"),
    M("custom-literal-name", GC, "EdgeList.topologies.extend([self._edge_names[j]()])", "EdgeList.topologies.extend([\"2-clique\"])", "C02.5"),
    # audited not observable (the converter pairs the columns): equivalent by an independent differential audit; must not be accused
    U("outside-column-write", GN, "        return EdgeListToNetwork.convert(CEdgeList)", "        CEdgeList.motif_id.append(0)\n        return EdgeListToNetwork.convert(CEdgeList)"),
    M("converter-keys-by-name", EN, "            topologies[e] = name\n            motif_ids[e] = motif_id", "            topologies[e] = name\n            motif_ids[name] = motif_id", "C02.6"),
    R("fast-n-temp", GF, "                EdgeList.edge_list.extend(es)\n\n                # add the edge names to a list\n                EdgeList.topologies.extend([self._edge_names[k]] * len(es))",
      "                n_es = len(es)\n                EdgeList.edge_list.extend(es)\n                EdgeList.topologies.extend([self._edge_names[k]] * n_es)"),
    R("fast-order-permuted", GF, "                EdgeList.edge_list.extend(es)\n\n                # add the edge names to a list\n                EdgeList.topologies.extend([self._edge_names[k]] * len(es))\n\n                # record the motif id\n                id = next(gen)\n                EdgeList.motif_id.extend([id] * len(es))",
      "                id = next(gen)\n                EdgeList.motif_id.extend([id] * len(es))\n                EdgeList.topologies.extend(len(es) * [self._edge_names[k]])\n                EdgeList.edge_list.extend(es)"),
    R("counter-plain-assign", GA, "            num += 1\n", "            num = num + 1\n"),
    R("custom-int-kind-test", GC, "if len(es) == 2 and not isinstance(es[0], (tuple, list)):", "if len(es) == 2 and isinstance(es[0], int):"),
]

# ------------------------------------------------------------------------------------------- C04
NE = "gcmpy/network/network_to_edge_list.py"
VARIANTS["C04"] = [
    M("revert-D3", EN, "        model.G.add_nodes_from(range(len(edgelist.joint_degrees)))\n", "", "C04.1"),
    M("nodes-one-short", EN, "range(len(edgelist.joint_degrees))", "range(len(edgelist.joint_degrees) - 1)", "C04.1"),
    M("nodes-after-annotation", EN, "        model.G.add_nodes_from(range(len(edgelist.joint_degrees)))\n        model.G.add_edges_from(edgelist.edge_list)\n",
      "        model.G.add_edges_from(edgelist.edge_list)\n", "C04.1"),
    M("writer-swapped", EN, "        nx.set_edge_attributes(model.G, topologies, NetworkNames.TOPOLOGY)\n        nx.set_edge_attributes(model.G, motif_ids, NetworkNames.MOTIF_IDS)",
      "        nx.set_edge_attributes(model.G, topologies, NetworkNames.MOTIF_IDS)\n        nx.set_edge_attributes(model.G, motif_ids, NetworkNames.TOPOLOGY)", "C04.2"),
    ME("both-swapped", [(EN, "        nx.set_edge_attributes(model.G, topologies, NetworkNames.TOPOLOGY)\n        nx.set_edge_attributes(model.G, motif_ids, NetworkNames.MOTIF_IDS)",
      "        nx.set_edge_attributes(model.G, topologies, NetworkNames.MOTIF_IDS)\n        nx.set_edge_attributes(model.G, motif_ids, NetworkNames.TOPOLOGY)"),
      (NE, "network.G.edges[e][NetworkNames.TOPOLOGY] for e", "network.G.edges[e][NetworkNames.MOTIF_IDS] for e"),
      (NE, "network.G.edges[e][NetworkNames.MOTIF_IDS] for e in network.G.edges()\n        ]\n        return", "network.G.edges[e][NetworkNames.TOPOLOGY] for e in network.G.edges()\n        ]\n        return")], "C04.2"),
    M("writer-zip-order", EN, "for e, name, motif_id in zip(", "for e, motif_id, name in zip(", "C04.2"),
    M("writer-enumerate-from-1", EN, "for n, jd in enumerate(edgelist.joint_degrees):", "for n, jd in enumerate(edgelist.joint_degrees, 1):", "C04.2"),
    M("reader-range-short", NE, "for n in range(len(network.G.nodes()))", "for n in range(len(network.G.nodes()) - 1)", "C04.6"),
    M("reader-range-from-1", NE, "for n in range(len(network.G.nodes()))", "for n in range(1, len(network.G.nodes()))", "C04.6"),
    M("reader-one-sorted", NE, "network.G.edges[e][NetworkNames.TOPOLOGY] for e in network.G.edges()", "network.G.edges[e][NetworkNames.TOPOLOGY] for e in sorted(network.G.edges())", "C04.4"),
    M("reader-swapped-key", NE, "network.G.edges[e][NetworkNames.TOPOLOGY] for e", "network.G.edges[e][NetworkNames.MOTIF_IDS] for e", "C04.3"),
    M("edges-sliced", EN, "model.G.add_edges_from(edgelist.edge_list)", "model.G.add_edges_from(edgelist.edge_list[1:])", "C04.5"),
    M("literal-key", EN, "nx.set_node_attributes(model.G, joint_degrees, NetworkNames.JOINT_DEGREE)", "nx.set_node_attributes(model.G, joint_degrees, \"joint_degree\")", "C04.2"),
    R("dict-comprehension", EN, "        joint_degrees = {}\n        for n, jd in enumerate(edgelist.joint_degrees):\n            joint_degrees[n] = jd\n",
      "        joint_degrees = {n: jd for n, jd in enumerate(edgelist.joint_degrees)}\n"),
    R("node-loop", EN, "        model.G.add_nodes_from(range(len(edgelist.joint_degrees)))\n", "        for v in range(len(edgelist.joint_degrees)):\n            model.G.add_node(v)\n"),
    R("order-call", NE, "for n in range(len(network.G.nodes()))", "for n in range(network.G.order())"),
    R("dict-zip", EN, "        nx.set_edge_attributes(model.G, topologies, NetworkNames.TOPOLOGY)", "        nx.set_edge_attributes(model.G, dict(zip(edgelist.edge_list, edgelist.topologies)), NetworkNames.TOPOLOGY)"),
]

# ------------------------------------------------------------------------------------------- C13
JE = "gcmpy/tools/joint_excess_joint_degree.py"
JD_ = "gcmpy/tools/joint_excess_degree.py"
VARIANTS["C13"] = [
    M("revert-D13", JE, "        self._num_edges = {}\n        for e in self._G.edges():", "        # self._num_edges = {}\n        for e in self._G.edges():", "C13.1"),
    M("half-to-one", JE, "ejk[key1] = ejk.get(key1, 0) + (0.5 / (self._num_edges[name]))", "ejk[key1] = ejk.get(key1, 0) + (1.0 / (self._num_edges[name]))", "C13.2"),
    M("mirror-dropped", JE, "                    ejk[key2] = ejk.get(key2, 0) + (0.5 / (self._num_edges[name]))\n", "", "C13.2"),
    M("selfpair-half", JE, "ejk[key1] = ejk.get(key1, 0) + (1.0 / (self._num_edges[name]))", "ejk[key1] = ejk.get(key1, 0) + (0.5 / (self._num_edges[name]))", "C13.2"),
    M("v-not-decremented", JE, "                v_joint_degree[i] -= 1\n", "", "C13.2"),
    M("filter-inverted", JE, "if self._G.edges[e][NetworkNames.TOPOLOGY] == name:", "if self._G.edges[e][NetworkNames.TOPOLOGY] != name:", "C13.2"),
    M("call-index-shift", JE, "self.get_ejk(i, topology)", "self.get_ejk(i + 1, topology)", "C13.3"),
    M("overall-no-excess", JD_, "u_excess_degree = u_degree - 1", "u_excess_degree = u_degree", "C13.6"),
    M("overall-wrong-divisor", JD_, "num_edges = len(G.edges())", "num_edges = len(G.nodes())", "C13.6"),
    M("count-by-two", JE, "self._num_edges[topology] = self._num_edges.get(topology, 0) + 1", "self._num_edges[topology] = self._num_edges.get(topology, 0) + 2", "C13.4"),
    M("wrong-position-decrement", JE, "                u_joint_degree[i] -= 1\n", "                u_joint_degree[0] -= 1\n", "C13.2"),
    M("excess-keys-wrong-guard", JE, "                if jd[i] > 0:", "                if jd[i] >= 0:", "C13.5"),
    M("divisor-other-topology", JE, "ejk[key1] = ejk.get(key1, 0) + (1.0 / (self._num_edges[name]))", "ejk[key1] = ejk.get(key1, 0) + (1.0 / (len(self._G.edges())))", "C13.2"),
    R("reset-in-get-ejks", JE, "        self.count_edge_types()\n", "        self._num_edges = {}\n        self.count_edge_types()\n"),
    R("unpack-in-loop-header", JE, "        for e in self._G.edges():\n            if self._G.edges[e][NetworkNames.TOPOLOGY] == name:\n                u, v = e\n",
      "        for u, v in self._G.edges():\n            e = (u, v)\n            if self._G.edges[u, v][NetworkNames.TOPOLOGY] == name:\n"),
    R("inverse-hoisted", JE, "                key1 = u_joint_excess_degree + v_joint_excess_degree", "                w = 1.0 / self._num_edges[name]\n                key1 = u_joint_excess_degree + v_joint_excess_degree"),
    R("no-special-case", JE, "                if key1 == key2:\n                    ejk[key1] = ejk.get(key1, 0) + (1.0 / (self._num_edges[name]))\n                else:\n                    ejk[key1] = ejk.get(key1, 0) + (0.5 / (self._num_edges[name]))\n                    ejk[key2] = ejk.get(key2, 0) + (0.5 / (self._num_edges[name]))",
      "                ejk[key1] = ejk.get(key1, 0) + (0.5 / (self._num_edges[name]))\n                ejk[key2] = ejk.get(key2, 0) + (0.5 / (self._num_edges[name]))"),
]

# ------------------------------------------------------------------------------------------- C14
JFE = "gcmpy/tools/joint_degree_from_excess.py"
JFJ = "gcmpy/tools/joint_excess_from_jdd.py"
JFK = "gcmpy/tools/joint_excess_from_ejk.py"
JMX = "gcmpy/tools/joint_excess_joint_degree_matrices.py"
JNW = "gcmpy/tools/joint_degree_distribution_from_network.py"
AVG = "gcmpy/tools/average_joint_degree_from_jdd.py"
VARIANTS["C14"] = [
    M("revert-D14", JFE, "choesn_topology = keys[0]", "choesn_topology = \"2-clique\"", "C14.4"),
    M("forward-missing-plus-one", JFJ, "(_joint_degree[index] + 1) * jdd[joint_degree]", "_joint_degree[index] * jdd[joint_degree]", "C14.2"),
    M("forward-wrong-average", JFJ, ") / averages[index]", ") / averages[0]", "C14.2"),
    M("invert-plus-two", JFE, "top = qk[joint_excess] / (joint_excess[i] + 1)", "top = qk[joint_excess] / (joint_excess[i] + 2)", "C14.3"),
    M("invert-no-increment", JFE, "            joint_degree[i] += 1\n", "", "C14.3"),
    M("rowsum-right-key", JFK, "q[left_key] = q.get(left_key, 0.0) + ejk[left_key + right_key]", "q[right_key] = q.get(right_key, 0.0) + ejk[left_key + right_key]", ""),
    M("rowsum-no-accumulate", JFK, "q[left_key] = q.get(left_key, 0.0) + ejk[left_key + right_key]", "q[left_key] = ejk[left_key + right_key]", "C14.6"),
    M("halves-off", JMX, "C = A[len(A) // 2 :]", "C = A[len(A) // 2 + 1 :]", "C14.7"),
    M("total-in-loop", JFE, "        total = sum(P.values())\n        for k in P:\n            P[k] /= total", "        for k in P:\n            total = sum(P.values())\n            P[k] /= total", "C14.5"),
    M("hist-n-minus-1", JNW, "(1.0 / num_vertices)", "(1.0 / (num_vertices - 1))", "C14.8"),
    M("mean-wrong-index", AVG, "joint_degree[index] * jdd[joint_degree]", "joint_degree[0] * jdd[joint_degree]", "C14.1"),
    M("obs-wrong-index", JFE, "JointDegreeFromExcess.invert_single(qks[key], i)", "JointDegreeFromExcess.invert_single(qks[key], 0)", "C14.3"),
    M("scale-inverted", JFE, "scale_factor = base_value / p_obs[topology][common_key]", "scale_factor = p_obs[topology][common_key] / base_value", "C14.5"),
    M("no-renormalise", JFE, "        for k in P:\n            P[k] /= total\n", "", "C14.5"),
    R("ref-next-iter", JFE, "choesn_topology = keys[0]", "choesn_topology = next(iter(p_obs))"),
    R("mean-keys-direct", AVG, "        joint_degrees = list(jdd.keys())\n", "        joint_degrees = list(jdd)\n"),
    R("invert-bottom-loop", JFE, "        bottom = sum(\n            [(qk[joint_excess] / (joint_excess[i] + 1)) for joint_excess in qk]\n        )",
      "        bottom = 0.0\n        for je in qk:\n            bottom += qk[je] / (je[i] + 1)"),
    R("forward-k-before-decrement", JFJ, "                if _joint_degree[index] > 0:\n                    _joint_degree[index] -= 1\n                    q[tuple(_joint_degree)] = (\n                        (_joint_degree[index] + 1) * jdd[joint_degree] + 0.0\n                    ) / averages[index]",
      "                if joint_degree[index] > 0:\n                    _joint_degree[index] -= 1\n                    q[tuple(_joint_degree)] = joint_degree[index] * jdd[joint_degree] / averages[index]"),
]

# ------------------------------------------------------------------------------------------- C16
CE = "gcmpy/message_passing/equations/clique_equation.py"
CC = "gcmpy/message_passing/equations/chordless_cycle_equation.py"
NC = "gcmpy/message_passing/number_connected_graphs.py"
VARIANTS["C16"] = [
    M("symmetric-shortcut", CE, "for comb in itertools.combinations(Hs, kappa):", "for comb in [Hs[:kappa]]:", "C16.1"),
    M("omega-minus-m", CE, "pow(1 - phi, omega(tau, kappa) + m)", "pow(1 - phi, omega(tau, kappa) - m)", "C16.1"),
    M("omega-wrong", CE, "return summation - 0.5 * r * (r - 1)", "return summation - 0.5 * r * (r + 1)", "C16.1"),
    M("kappa-range-short", CE, "for kappa in range(tau):", "for kappa in range(tau - 1):", "C16.1"),
    M("m-range-short", CE, "range(int(0.5 * kappa * (kappa - 1)) + 1)", "range(int(0.5 * kappa * (kappa - 1)))", "C16.1"),
    M("Q-args-swapped-offset", CE, "Q(kappa + 1, int(0.5 * kappa * (kappa + 1)) - m)", "Q(kappa + 1, int(0.5 * kappa * (kappa + 1)) - m - 1)", "C16.1"),
    M("cycle-i-plus-1", CC, "(i + 1) * pow(phi * u, i)", "2 * pow(phi * u, i)", "C16.2"),
    M("cycle-range", CC, "for i in range(1, n - 1)", "for i in range(1, n - 2)", "C16.2"),
    M("cycle-last-term", CC, "+ phi * pow(phi * u, n - 1)", "+ phi * pow(phi * u, n)", "C16.2"),
    M("Q-outer-bound", NC, "for m in range(0, n - 1):", "for m in range(0, n):", "C16.3"),
    M("Q-np-square", NC, "np = (n - 1 - m) * (n - 2 - m) // 2", "np = (n - 1 - m) * (n - 1 - m) // 2", "C16.3"),
    M("Q-tree-count", NC, "res = int(pow(n, (n - 2)))", "res = int(pow(n, (n - 1)))", "C16.3"),
    M("Q-lower-bound", NC, "lb = max(0, k - (m + 1) * m // 2)", "lb = max(1, k - (m + 1) * m // 2)", "C16.3"),
    M("binomial-guard", NC, "    if d < 0:\n        return 0", "    if d <= 0:\n        return 0", "C16.3"),
    M("QQ-remove-k", NC, "edges_to_remove = all_edges - k", "edges_to_remove = k", "C16.4"),
    M("connected-negated", NC, "        if nx.is_connected(J):", "        if not nx.is_connected(J):", "C16.4"),
    M("keep-set-wrong", NC, "if n == i or n in ak:", "if n in ak:", "C16.4"),
    M("Q-import-swapped", CE, "from gcmpy.message_passing.number_connected_graphs import Q", "from gcmpy.message_passing.number_connected_graphs import binomial as Q", "C16.1"),
    R("omega-closed-form", CE, "        r = tau - kappa - 1\n        summation = 0.0\n        for v in range(1, r + 1):\n            summation += tau - v\n        return summation - 0.5 * r * (r - 1)",
      "        return (kappa + 1) * (tau - kappa - 1)"),
    R("cycle-sum-as-loop", CC, "    summation = sum(\n        [(i + 1) * pow(phi * u, i) * pow(1 - phi, 2) for i in range(1, n - 1)]\n    )",
      "    summation = 0.0\n    for j in range(1, n - 1):\n        summation += (j + 1) * (phi * u) ** j * (1 - phi) ** 2"),
    R("factor-sum-inline", CE, "            summation += prefactor * sum(factor)", "            e_kappa = sum(factor)\n            summation += e_kappa * prefactor"),
    R("pow-to-starstar", CE, "* pow(phi, int(0.5 * kappa * (kappa + 1)) - m)", "* phi ** (kappa * (kappa + 1) // 2 - m)"),
]

# ------------------------------------------------------------------------------------------- C19
DE = "gcmpy/distributions/exponential.py"
DP = "gcmpy/distributions/poisson.py"
DL = "gcmpy/distributions/power_law.py"
DS_ = "gcmpy/distributions/scale_free_cut_off.py"
VARIANTS["C19"] = [
    ME("revert-D15", [(DP, "from math import factorial\n", ""), (DP, "/ factorial(k)", "/ np.math.factorial(k)")], "C19.1"),
    M("exp-one-plus", DE, "(1 - np.exp(-a))", "(1 + np.exp(-a))", "C19.2"),
    M("exp-sign", DE, "np.exp(-a * k)", "np.exp(a * k)", "C19.2"),
    M("poisson-k-minus-1", DP, "pow(kmean, k)", "pow(kmean, k - 1)", "C19.2"),
    M("poisson-no-exp", DP, "np.exp(-kmean) * pow(kmean, k)", "pow(kmean, k)", "C19.2"),
    M("power-law-no-normaliser", DL, "return pow(k, -alpha) / C", "return pow(k, -alpha)", "C19.2"),
    M("power-law-positive-exponent", DL, "return pow(k, -alpha) / C", "return pow(k, alpha) / C", "C19.2"),
    M("zeta-from-zero-step2", DL, "            k += 1\n", "            k += 2\n", "C19.3"),
    M("zeta-index-from-2", DL, "        k = 1\n", "        k = 2\n", "C19.3"),
    # audited within the series-truncation tolerance C19 grants (independent differential audit): must not be accused
    R("zeta-exit-before-add", DL, "            l += term\n            if abs(term) < tol:\n                break\n", "            if abs(term) < tol:\n                break\n            l += term\n"),
    M("zeta-tol-loose", DL, "tol = +1e-06", "tol = +1e-02", "C19.3"),
    M("zeta-term-wrong", DL, "term = 1.0 / k**s", "term = 1.0 / k**(s + 1)", "C19.3"),
    M("polylog-zk-not-advanced", DS_, "            zk *= z\n", "", "C19.3"),
    M("polylog-zk-init", DS_, "        zk = z\n", "        zk = 1.0\n", "C19.3"),
    M("cutoff-sign", DS_, "np.exp(-(k + 0.0) / kappa)", "np.exp((k + 0.0) / kappa)", "C19.2"),
    M("cutoff-normaliser-arg", DS_, "C = polylog(alpha, np.exp(-1.0 / kappa))", "C = polylog(alpha, np.exp(-kappa))", "C19.2"),
    M("normaliser-wrong-arg", DL, "C = zeta(alpha)", "C = zeta(alpha + 1)", "C19.2"),
    R("math-exp", DE, "import numpy as np\n", "import numpy as np\nimport math\n", ),
    R("exp-power", DE, "return (1 - np.exp(-a)) * np.exp(-a * k)", "return (1 - np.exp(-a)) * np.exp(-a) ** k"),
    R("poisson-starstar", DP, "np.exp(-kmean) * pow(kmean, k) / factorial(k)", "kmean**k * np.exp(-kmean) / factorial(k)"),
    R("zeta-term-pow", DL, "term = 1.0 / k**s", "term = pow(k, -s)"),
]

# ------------------------------------------------------------------------------------------- C05
JDP = "gcmpy/joint_degree/joint_degree.py"
VARIANTS["C05"] = [
    M("plus-two", JDP, "                    t[i] += 1\n", "                    t[i] += 2\n", "C05.4"),
    M("minus-one", JDP, "                    t[i] += 1\n", "                    t[i] -= 1\n", "C05.4"),
    M("not-minimal", JDP, "for j in range(self._motif_sizes[i] - ntop % self._motif_sizes[i]):", "for j in range(self._motif_sizes[i]):", "C05.3"),
    M("k-plus-one", JDP, "weights=weights, k=N)", "weights=weights, k=N + 1)", "C05.1"),
    M("weights-dropped", JDP, "jds = random.choices(population=keys, weights=weights, k=N)", "jds = random.choices(population=keys, k=N)", "C05.1"),
    M("wrong-column", JDP, "                    t[i] += 1\n", "                    t[0] += 1\n", "C05.4"),
    M("revert-D4", JDP, "jds[j] = tuple(t)", "jds[j] = t", "C05.6"),
    M("append-row", JDP, "                    jds[j] = tuple(t)\n", "                    jds[j] = tuple(t)\n                    jds.append(tuple(t))\n", "C05.5"),
    M("guard-wrong-size", JDP, "if ntop % self._motif_sizes[i] != 0:", "if ntop % self._motif_sizes[0] != 0:", "C05.3"),
    M("row-range-short", JDP, "j = random.randrange(0, len(jds))", "j = random.randrange(0, len(jds) - 1)", "C05.5"),
    M("no-patch", JDP, "        return self.handshaking_lemma(jds)", "        return jds", "C05.7"),
    M("sample-not-choices", JDP, "jds = random.choices(population=keys, weights=weights, k=N)", "jds = random.sample(keys, k=N)", "C05.1"),
    M("weights-from-keys", JDP, "weights = list(self._jdd.values())", "weights = list(range(len(keys)))", ""),
    M("return-in-loop", JDP, "                    jds[j] = tuple(t)\n        return jds", "                    jds[j] = tuple(t)\n            return jds", "C05.7"),
    R("count-hoisted", JDP, "                for j in range(self._motif_sizes[i] - ntop % self._motif_sizes[i]):", "                missing = self._motif_sizes[i] - ntop % self._motif_sizes[i]\n                for j in range(missing):"),
    R("positional-args", JDP, "random.choices(population=keys, weights=weights, k=N)", "random.choices(keys, weights, k=N)"),
    R("randrange-one-arg", JDP, "random.randrange(0, len(jds))", "random.randrange(len(jds))"),
    U("row-rebuilt", JDP, "                    t = list(jds[j])\n                    t[i] += 1\n                    jds[j] = tuple(t)", "                    jds[j] = tuple(jds[j][:i]) + (jds[j][i] + 1,) + tuple(jds[j][i + 1 :])"),
]

# ------------------------------------------------------------------------------------------- C06
LF = "gcmpy/joint_degree/joint_degree_loaders/joint_degree_function.py"
LM = "gcmpy/joint_degree/joint_degree_loaders/joint_degree_marginal.py"
LMA = "gcmpy/joint_degree/joint_degree_loaders/joint_degree_manual.py"
LE = "gcmpy/joint_degree/joint_degree_loaders/joint_degree_empirical.py"
JF = "gcmpy/joint_degree/joint_degree_factory.py"
VARIANTS["C06"] = [
    M("revert-D5", LF, "        self._jdd = {}\n        # build list of lists", "        # build list of lists", "C06.1"),
    M("freq-n-minus-1", JDP, "self._jdd[k] = v / n_samples", "self._jdd[k] = v / (n_samples - 1)", "C06.3"),
    M("manual-normalises", LMA, "    def create_jdd(self) -> None:\n        return", "    def create_jdd(self) -> None:\n        self.normalise_jdd()", "C06.2"),
    M("marginal-wrong-fp-index", LM, "prod *= self._arr_fp[i](deg)", "prod *= self._arr_fp[0](deg)", "C06.4"),
    M("marginal-no-normalise", LM, "            self._jdd[key] = self.evaluate_prob_of_joint_degree(key)\n        self.normalise_jdd()", "            self._jdd[key] = self.evaluate_prob_of_joint_degree(key)", "C06.4"),
    M("normalise-total-in-loop", JDP, "        summation: float = sum(self._jdd.values())\n        for key in self._jdd:\n            self._jdd[key] /= summation",
      "        for key in self._jdd:\n            summation: float = sum(self._jdd.values())\n            self._jdd[key] /= summation", "C06.4"),
    M("function-box-exclusive", LF, "list(range(kmin, kmax + 1))", "list(range(kmin, kmax))", "C06.6"),
    M("sampling-pks-different-range", LM, "pks = [self._arr_fp[i](k) for k in ks]", "pks = [self._arr_fp[i](k) for k in range(kmin, kmax)]", "C06.5"),
    M("factory-swapped", JF, "        if type == JointDegreeType.MANUAL:\n            return JointDegreeManual(params)\n        elif type == JointDegreeType.EMPIRICAL:\n            return JointDegreeEmpirical(params)",
      "        if type == JointDegreeType.MANUAL:\n            return JointDegreeEmpirical(params)\n        elif type == JointDegreeType.EMPIRICAL:\n            return JointDegreeManual(params)", "C06.7"),
    M("marginal-support-outside", LM, "ks.append([k for k in range(kmin, kmax)])", "ks.append([k for k in range(kmin, kmax + 2)])", "C06.4"),
    M("empirical-sorted", LE, "self.convert_jds_to_jdd(self._empirical_jds)", "self.convert_jds_to_jdd(self._empirical_jds[1:])", "C06.3"),
    M("manual-wrong-key", LMA, "self._jdd = params[JointDegreeNames.JDD]", "self._jdd = params[JointDegreeNames.JDS]", "C06.2"),
    M("mode-inverted", LM, "        if not self._use_sampling:", "        if self._use_sampling:", "C06.4"),
    M("sampling-wrong-fp", LM, "pks = [self._arr_fp[i](k) for k in ks]", "pks = [self._arr_fp[0](k) for k in ks]", "C06.5"),
    M("function-wrong-arg", LF, "self._jdd[jd] = self._fp(jd)", "self._jdd[jd] = self._fp(jd[::-1])", "C06.6"),
    M("motif-sizes-unset", LE, "            self._motif_sizes = params[JointDegreeNames.MOTIF_SIZES]\n", "", "C06.1"),
    R("direct-dict-comprehension", LM, "        self._jdd = dict((key, 0.0) for key in self.generate_all_joint_degrees())\n        for key in self._jdd:\n            self._jdd[key] = self.evaluate_prob_of_joint_degree(key)\n",
      "        self._jdd = {key: self.evaluate_prob_of_joint_degree(key) for key in self.generate_all_joint_degrees()}\n"),
    R("marginal-inclusive", LM, "ks.append([k for k in range(kmin, kmax)])", "ks.append([k for k in range(kmin, kmax + 1)])"),
    R("freq-len-inline", JDP, "            self._jdd[k] = v / n_samples", "            self._jdd[k] = v / len(jds)"),
    R("eval-prod-comprehension", LM, "        prod: float = 1.0\n        for i, deg in enumerate(joint_degree):\n            prod *= self._arr_fp[i](deg)\n        return prod",
      "        prod: float = 1.0\n        for idx in range(len(joint_degree)):\n            prod = prod * self._arr_fp[idx](joint_degree[idx])\n        return prod"),
]

# ------------------------------------------------------------------------------------------- C07
LS = "gcmpy/joint_degree/joint_degree_loaders/joint_degree_split_degree.py"
LD = "gcmpy/joint_degree/joint_degree_loaders/joint_degree_delta.py"
VARIANTS["C07"] = [
    ME("revert-D6", [(LS, "    def create_jdd(self) -> None:\n        self._jdd = {}\n        for k in range(", "    def create_jdd(self) -> None:\n        for k in range("),
                     (LS, "        # get a list of valid joint degrees\n        valid_tuples", "        self._jdd = {}\n\n        # get a list of valid joint degrees\n        valid_tuples")], "C07.1"),
    M("kill-in-resolve-keeps-create", LS, "        # get a list of valid joint degrees\n        valid_tuples", "        self._jdd = {}\n        # get a list of valid joint degrees\n        valid_tuples", "C07.1"),
    M("range-no-plus-1", LS, "range(0, remaining_degree // topology + 1)", "range(0, remaining_degree // topology)", "C07.3"),
    M("row-reversed", LS, "yield row + [i]", "yield [i] + row", "C07.3"),
    M("recursion-wrong-spend", LS, "remaining_degree - i * topology, topology - 1", "remaining_degree - i * (topology - 1), topology - 1", "C07.3"),
    M("exponent-no-i-plus-1", LS, "pow(self._probs[i], (i + 1) * degree)", "pow(self._probs[i], degree)", "C07.4"),
    M("prob-k-dropped", LS, "self._jdd[tuple(jd)] = prob_overall_k * probabilities[i]", "self._jdd[tuple(jd)] = probabilities[i]", "C07.5"),
    M("no-per-k-normalisation", LS, "        for i in range(len(probabilities)):\n            probabilities[i] /= total\n", "", "C07.5"),
    M("delta-last-column", LD, "zeros[0] = k", "zeros[-1] = k", "C07.7"),
    M("delta-condition-inverted", LD, "if k != self._target_k:", "if k == self._target_k:", "C07.7"),
    M("normalise-removed-split", LS, "            self.resolve_degree(k, self._fp(k))\n        self.normalise_jdd()", "            self.resolve_degree(k, self._fp(k))", "C07.6"),
    M("normalise-removed-delta", LD, "        self.normalise_jdd()\n", "", "C07.6"),
    M("fp-wrong-k", LS, "self.resolve_degree(k, self._fp(k))", "self.resolve_degree(k, self._fp(k + 1))", "C07.5"),
    M("base-case-2", LS, "if topology == 1:", "if topology == 2:", "C07.3"),
    M("delta-mass-one", LD, "self._jdd[tuple(zeros)] = self._fp(k)", "self._jdd[tuple(zeros)] = 1.0", "C07.7"),
    M("normalise-inside-loop", LS, "            self.resolve_degree(k, self._fp(k))\n        self.normalise_jdd()", "            self.resolve_degree(k, self._fp(k))\n            self.normalise_jdd()", "C07.6"),
    R("pow-to-starstar", LS, "prod *= pow(self._probs[i], (i + 1) * degree)", "prod *= self._probs[i] ** ((i + 1) * degree)"),
    R("reset-dict-call", LS, "    def create_jdd(self) -> None:\n        self._jdd = {}", "    def create_jdd(self) -> None:\n        self._jdd = dict()"),
    R("probabilities-comprehension", LS, "        probabilities = []\n        for jd in valid_tuples:\n            probabilities.append(self.calc_prob_of_joint_degree(jd))",
      "        probabilities = [self.calc_prob_of_joint_degree(jd) for jd in valid_tuples]"),
]

# ------------------------------------------------------------------------------------------- C08
LC = "gcmpy/joint_degree/joint_degree_loaders/joint_degree_cover.py"
VARIANTS["C08"] = [
    M("revert-D7", LC, "for i in reversed(indxs):", "for i in indxs:", "C08.3"),
    M("revert-D8", LC, "self.convert_jds_to_jdd([tuple(jd) for jd in jds])", "self.convert_jds_to_jdd(jds)", "C08.4"),
    M("column-is-size", LC, "jds[vertex - zero_index][clique_size - 1] += 1", "jds[vertex - zero_index][clique_size - 2] += 1", "C08.2"),
    M("sizes-descending", LC, "sorted(list(set([len(c) for c in self._cover])))", "sorted(list(set([len(c) for c in self._cover])), reverse=True)", "C08.1"),
    M("row-plus-offset", LC, "jds[vertex - zero_index]", "jds[vertex + zero_index]", "C08.2"),
    M("cover-sliced", LC, "        for c in self._cover:\n            clique_size = len(c)", "        for c in self._cover[1:]:\n            clique_size = len(c)", "C08.2"),
    M("zero-test-inverted", LC, "if not any(top)]", "if any(top)]", "C08.5"),
    M("count-by-two", LC, "[clique_size - 1] += 1", "[clique_size - 1] += 2", "C08.2"),
    M("sizes-unsorted", LC, "self._motif_sizes = sorted(list(set([len(c) for c in self._cover])))", "self._motif_sizes = list(set([len(c) for c in self._cover]))", "C08.1"),
    M("members-sliced", LC, "            for vertex in c:", "            for vertex in c[1:]:", "C08.2"),
    R("map-tuple", LC, "self.convert_jds_to_jdd([tuple(jd) for jd in jds])", "self.convert_jds_to_jdd(list(map(tuple, jds)))"),
    R("sorted-reverse-indices", LC, "for i in reversed(indxs):", "for i in sorted(indxs, reverse=True):"),
    R("size-inline", LC, "                jds[vertex - zero_index][clique_size - 1] += 1", "                jds[vertex - zero_index][len(c) - 1] += 1"),
    U("rows-rebuilt", LC, "        for i in reversed(indxs):\n            for jd in jds:\n                del jd[i]\n", "        jds = [[x for i, x in enumerate(jd) if i not in indxs] for jd in jds]\n"),
]

# ------------------------------------------------------------------------------------------- C10
MP = "gcmpy/covers/mpcc.py"
VARIANTS["C10"] = [
    M("reverse-dropped", MP, "sorted(cliques, key=len, reverse=True)", "sorted(cliques, key=len)", "C10.3"),
    M("not-sorted", MP, "    cliques = sorted(cliques, key=len, reverse=True)\n", "", "C10.3"),
    M("removes-from-input", MP, "g.remove_edges_from(list(itertools.combinations(c, 2)))", "G.remove_edges_from(list(itertools.combinations(c, 2)))", "C10.1"),
    M("find-cliques", MP, "nx.enumerate_all_cliques(g)", "nx.find_cliques(g)", "C10.2"),
    M("id-per-edge", MP, "        ID: int = next(clique_ID)\n        for e in itertools.combinations(c, 2):\n            G.edges", "        for e in itertools.combinations(c, 2):\n            ID: int = next(clique_ID)\n            G.edges", "C10.6"),
    M("label-order", MP, "f\"{len(c)}-{c}-{ID}\"", "f\"{ID}-{c}-{len(c)}\"", "C10.6"),
    M("skip-test-removed", MP, "        for e in itertools.combinations(c, 2):\n            if not g.has_edge(e[0], e[1]):\n                skip = True\n                break\n", "", "C10.4"),
    M("limit-ge", MP, "if len(c) > max_size and max_size > 0:", "if len(c) >= max_size and max_size > 0:", "C10.5"),
    M("claim-subset", MP, "g.remove_edges_from(list(itertools.combinations(c, 2)))", "g.remove_edges_from(list(itertools.combinations(c[1:], 2)))", "C10.4"),
    M("no-claim", MP, "            g.remove_edges_from(list(itertools.combinations(c, 2)))\n", "", "C10.4"),
    M("returns-copy", MP, "    return G\n", "    return g\n", "C10.1"),
    M("guard-inverted", MP, "        if not skip:\n            cover.append(c)", "        if skip:\n            cover.append(c)", "C10.4"),
    M("flag-not-reset", MP, "    for c in cliques:\n        if len(c) > max_size and max_size > 0:\n            continue\n\n        skip: bool = False\n", "    skip: bool = False\n    for c in cliques:\n        if len(c) > max_size and max_size > 0:\n            continue\n\n", "C10.4"),
    M("label-subset", MP, "        for e in itertools.combinations(c, 2):\n            G.edges", "        for e in itertools.combinations(c[:-1], 2):\n            G.edges", "C10.6"),
    M("limit-no-positive", MP, "if len(c) > max_size and max_size > 0:", "if len(c) > max_size:", "C10.5"),
    M("counter-in-loop", MP, "    clique_ID: int = itertools.count(0)\n    for c in cover:\n        ID: int = next(clique_ID)", "    for c in cover:\n        clique_ID: int = itertools.count(0)\n        ID: int = next(clique_ID)", "C10.6"),
    R("no-shuffle", MP, "    shuffle(cliques)\n", ""),
    R("sort-in-place", MP, "    cliques = sorted(cliques, key=len, reverse=True)\n", "    cliques.sort(key=len, reverse=True)\n"),
    R("has-edge-star", MP, "if not g.has_edge(e[0], e[1]):", "if not g.has_edge(*e):"),
]

# ------------------------------------------------------------------------------------------- C09
EE = "gcmpy/covers/eecc.py"
NW = "gcmpy/network/network.py"
VARIANTS["C09"] = [
    ME("revert-D9", [(EE, "for nc in combinations(sorted(C[c]), self._m0):", "for nc in sorted(combinations(C[c], self._m0)):")], "C09.4"),
    M("removal-inner-from-i", EE, "            for i in range(max_ord):\n                for j in range(i + 1, max_ord):", "            for i in range(max_ord):\n                for j in range(i + 2, max_ord):", "C09.2"),
    M("removal-deleted", EE, "            for i in range(max_ord):\n                for j in range(i + 1, max_ord):\n                    # assumes edges are ordered i < j\n                    self.remove_edge(cli[i], cli[j])\n", "", "C09.2"),
    # audited a clique of exactly m0 vertices decomposes into itself (independent differential audit: equivalent): must not be accused
    R("guard-ge", EE, "if clique_size > self._m0:", "if clique_size >= self._m0:"),
    M("subsets-m0-minus-1", EE, "combinations(sorted(C[c]), self._m0)", "combinations(sorted(C[c]), self._m0 - 1)", "C09.3"),
    M("break-in-main-loop", EE, "            cli = C[idx]\n            EC.append(cli)\n", "            cli = C[idx]\n            EC.append(cli)\n            if len(EC) > 1000:\n                break\n", "C09.1"),
    M("indxs-dropped", EE, "                indxs.append(c)\n", "", "C09.3"),
    M("sweep-removed", EE, "            C = Ctemp\n            ord = ordtemp\n            r = rtemp\n            for c in range(len(EC)):\n                order = len(EC[c])\n\n                for i in range(order):\n                    for j in range(i + 1, order):\n                        self.remove_edge(EC[c][i], EC[c][j])\n",
      "            C = Ctemp\n            ord = ordtemp\n            r = rtemp\n", "C09.2"),
    M("score0-condition", EE, "            if r[c] == 0:\n                EC.append(C[c])", "            if r[c] <= 0.5:\n                EC.append(C[c])", "C09.5"),
    M("scan-stops-early", EE, "while n <= num_cliques - 1:", "while n < num_cliques - 1:", "C09.6"),
    M("has-edges-ge", NW, "return len(self._G.edges()) > 0", "return len(self._G.edges()) > 1", "C09.1"),
    M("lockstep-broken", EE, "            Ctemp = []\n            ordtemp = []\n            rtemp = []\n            for i in idxs:\n                Ctemp.append(C[i])\n                ordtemp.append(ord[i])\n                rtemp.append(r[i])",
      "            Ctemp = []\n            ordtemp = []\n            rtemp = []\n            for i in idxs:\n                Ctemp.append(C[i])\n                ordtemp.append(ord[0])\n                rtemp.append(r[i])", "C09.2"),
    # behaviour-preserving (maximal cliques are distinct vertex sets and everything is sorted after the de-duplication; confirmed by a differential run)
    R("whole-not-sorted", EE, "            else:\n                C[c] = sorted(C[c])\n", "            else:\n                pass\n"),
    M("max-ord-is-min", EE, "                if ord[idx] > max_ord:", "                if ord[idx] < max_ord:", "C09.5"),
    R("min-to-max-heuristic", EE, "            min_r: float = min(r)", "            min_r: float = max(r)"),
    R("len-cli-bound", EE, "            for i in range(max_ord):\n                for j in range(i + 1, max_ord):", "            for i in range(len(cli)):\n                for j in range(i + 1, len(cli)):"),
]

# ------------------------------------------------------------------------------------------- C11
AP1 = "self.append_proposal_edges(G, u0, e0, (u0, self.get_other_vertex(v0, e1)))"
AP2 = "self.append_proposal_edges(G, v0, e1, (v0, self.get_other_vertex(u0, e0)))"
VARIANTS["C11"] = [
    R("as-is-two-known-findings", MC, "import random\n", "import random\n\n", known=2),
    RE("D11-repaired", [(MC, AP1, "self.append_proposal_edges(G, u0, e1, (u0, self.get_other_vertex(v0, e1)))"),
                        (MC, AP2, "self.append_proposal_edges(G, v0, e0, (v0, self.get_other_vertex(u0, e0)))")], known=0),
    M("D11-third-way", MC, AP1, "self.append_proposal_edges(G, u0, e0s[0], (u0, self.get_other_vertex(v0, e1)))", "C11.4"),
    M("revert-D10", MC, "10 * self._network.G.number_of_edges()", "10 * self._network.G.edges()", "C11.3"),
    M("revert-D12", MC, "                if u0 == v1 or v0 == u1:\n                    # the two motifs share a vertex, the swap would create a self-loop\n                    return False\n", "", "C11.5"),
    M("half-D12", MC, "if u0 == v1 or v0 == u1:", "if u0 == v1:", "C11.5"),
    M("no-copy", MC, "G: nx.Graph = self._network.G.copy()", "G: nx.Graph = self._network.G", "C11.1"),
    M("edgeset-add-dropped", MC, "                    EdgeSet.add(tuple(sorted(e)))\n\n                # remove old edges", "\n                # remove old edges", "C11.9"),
    M("only-e0-removed", MC, "                    G.remove_edge(*e0)\n                    G.remove_edge(*e1)\n", "                    G.remove_edge(*e0)\n", "C11.8"),
    M("partner-other-bucket", MC, "            lst: list = hashmap_e1s[topology]\n\n            try:", "            lst: list = hashmap_e1s[list(hashmap_e1s)[0]]\n\n            try:", "C11.7"),
    M("proposals-not-reset", MC, "        # refresh the list of new edges for this trial\n        self._proposal_edges = []\n", "", "C11.8"),
    M("suitable-negated", MC, "                if self.is_edge_choice_suitable(\n                    G, u0, v0, u_edges_in_motif, v_edges_in_motif\n                ):\n                    break",
      "                if not self.is_edge_choice_suitable(\n                    G, u0, v0, u_edges_in_motif, v_edges_in_motif\n                ):\n                    break", "C11.6"),
    M("swap-negated", MC, "if self.swap_condition(G, u_edges_in_motif, v_edges_in_motif, u0, v0):", "if not self.swap_condition(G, u_edges_in_motif, v_edges_in_motif, u0, v0):", "C11.6"),
    M("annotations-crossed", MC, "        p._topology = G.edges[old_edge][NetworkNames.TOPOLOGY]\n        p._motif_id = G.edges[old_edge][NetworkNames.MOTIF_IDS]",
      "        p._topology = G.edges[old_edge][NetworkNames.MOTIF_IDS]\n        p._motif_id = G.edges[old_edge][NetworkNames.TOPOLOGY]", "C11.4"),
    M("motif-id-test-passes", MC, "                    \"MarkovChainMonteCarlo - paired corners belong to same motif\"\n                )\n                return False", "                    \"MarkovChainMonteCarlo - paired corners belong to same motif\"\n                )", "C11.6"),
    M("exhausted-search-swaps", MC, "            if search_count >= self._search_limit:", "            if search_count > self._search_limit + 1:", "C11.6"),
    M("corner-filter-dropped", MC, "            if G.edges[e][NetworkNames.MOTIF_IDS] == motif_id:\n                es.append((u0, self.get_other_vertex(u0, e)))", "            es.append((u0, self.get_other_vertex(u0, e)))", "C11.10"),
    M("writes-input-attr", MC, "        number_of_edges: int = G.number_of_edges()\n", "        number_of_edges: int = G.number_of_edges()\n        self._network.G.graph[\"rewired\"] = True\n", "C11.1"),
    M("adds-node", MC, "                    G.add_edge(*e)\n", "                    G.add_node(max(G.nodes()) + 1)\n                    G.add_edge(*e)\n", "C11.2"),
    M("edgeset-unsorted-fill", MC, "            EdgeSet.add(tuple(sorted(e)))\n\n        convergence_count", "            EdgeSet.add(tuple(e))\n\n        convergence_count", "C11.9"),
    R("len-edges", MC, "10 * self._network.G.number_of_edges()", "10 * len(self._network.G.edges())"),
]

# ------------------------------------------------------------------------------------------- C12
KV = "gcmpy/tools/joint_excess_joint_degree_keys_view.py"
VARIANTS["C12"] = [
    M("accessor-u0v1-wrong", KV, "    def get_u0v1(self):\n        return self._keys[0] + self._keys[3]", "    def get_u0v1(self):\n        return self._keys[0] + self._keys[2]", "C12.1"),
    M("numerator-uses-u0u1", MC, "            u0v1_key: tuple = key_view.get_u0v1()", "            u0v1_key: tuple = key_view.get_u0u1()", "C12.3"),
    M("handler-continue", MC, "                    f\"MarkovChainMonteCarlo - KeyError during swap condition numerator: {e}\"\n                )\n                return False",
      "                    f\"MarkovChainMonteCarlo - KeyError during swap condition numerator: {e}\"\n                )\n                continue", "C12.4"),
    M("comparison-inverted", MC, "if value > random.random():", "if value < random.random():", "C12.4"),
    M("ratio-inverted", MC, "value: float = (top + 0.0) / bottom", "value: float = (bottom + 0.0) / top", ""),
    M("excess-incremented", MC, "        us_jd: list = [list(G.nodes[u][NetworkNames.JOINT_DEGREE]) for u in us]\n\n        # grab their excess degrees in topology `index`\n        us_excess_jd: list = []\n        for jd in us_jd:\n            jd[index] -= 1",
      "        us_jd: list = [list(G.nodes[u][NetworkNames.JOINT_DEGREE]) for u in us]\n\n        # grab their excess degrees in topology `index`\n        us_excess_jd: list = []\n        for jd in us_jd:\n            jd[index] += 1", "C12.2"),
    M("feed-order-changed", MC, "us: list = [u0, u1, v0, v1]", "us: list = [u0, v0, u1, v1]", "C12.1"),
    M("numerator-other-topology", MC, "self._ejks.ejks[topology][u0v1_key]", "self._ejks.ejks[self._ejks.topology_names[0]][u0v1_key]", "C12.3"),
    M("view-index-constant", MC, "self.get_swapped_joint_excess_degree_key(G, e0, e1, u0, v0, index)", "self.get_swapped_joint_excess_degree_key(G, e0, e1, u0, v0, 0)", "C12.3"),
    M("always-accept", MC, "        if value > random.random():\n            return True\n\n        return False", "        if value > random.random():\n            return True\n\n        return True", "C12.4"),
    M("denominator-wrong-topology", MC, "self._ejks.ejks[right_topology][key_e1]", "self._ejks.ejks[left_topology][key_e1]", "C12.5"),
    M("handler-pass", MC, "                    f\"MarkovChainMonteCarlo - KeyError during swap condition numerator: {e}\"\n                )\n                return False",
      "                    f\"MarkovChainMonteCarlo - KeyError during swap condition numerator: {e}\"\n                )", "C12.4"),
    M("topindex-off", "gcmpy/tools/joint_excess_joint_degree_matrices.py", "            if name == topology:\n                return i", "            if name == topology:\n                return i + 1", "C12.2"),
    M("proposals-edited-after-test", MC, "                # add the new proposal edges for both sides\n", "                self._proposal_edges.reverse()\n                self._proposal_edges.pop()\n", "C12.4"),
    R("zero-test-removed", MC, "            if top == 0.0:\n                return False\n", ""),
    R("value-inline", MC, "        value: float = (top + 0.0) / bottom\n        if value > random.random():", "        if top / bottom > random.random():"),
    R("draw-on-left", MC, "if value > random.random():", "if random.random() < value:"),
]

# ------------------------------------------------------------------------------------------- C15
AE = "gcmpy/message_passing/equations/automated_equation.py"
VARIANTS["C15"] = [
    M("key-without-root", AE, "key: str = f\"{root}-{G.name}\"", "key: str = f\"{G.name}\"", "C15.2"),
    M("cache-stores-phi-terms", AE, "                if nx.is_connected(g_test):\n                    edge_combinations_final.append(len(es))", "                if nx.is_connected(g_test):\n                    edge_combinations_final.append(len(es) * G.nodes[c[0]][\"u\"])", "C15.1"),
    M("interface-factor-p", AE, "interface_edges *= (1 - p)", "interface_edges *= p", "C15.4"),
    M("exponents-swapped", AE, "(pow(p, len(g.edges()) - n_edges) * pow(1 - p, n_edges))", "(pow(p, n_edges) * pow(1 - p, len(g.edges()) - n_edges))", "C15.4"),
    M("get-us-includes-root", AE, "            if n == root:\n                continue\n", "", "C15.4"),
    M("exclusion-update-dropped", AE, "            excluded: set = excluded | {j}\n", "", "C15.5"),
    M("exclusion-in-place", AE, "            excluded: set = excluded | {j}\n", "            excluded.add(j)\n", "C15.5"),
    M("singleton-degree", AE, "prob += pow(1 - p, len(list(G.neighbors(c[0]))))", "prob += pow(1 - p, len(c))", "C15.4"),
    M("interface-not-removed", AE, "                    edges_to_remove.append(e)\n                    interface_edges *= (1 - p)", "                    interface_edges *= (1 - p)", "C15.4"),
    M("isolated-not-removed", AE, "            g.remove_nodes_from([n for n in g.nodes() if len(list(g.neighbors(n))) == 0])\n", "", "C15.4"),
    # audited equivalent for C15 (independent differential audit): the dropped subset / the finer cache key change no value; must not be accused
    R("subset-sizes-short", AE, "for l in range(0, len(G.edges())+1):", "for l in range(0, len(G.edges())):"),
    M("us-on-whole-motif", AE, "us = self.get_us(g, root)", "us = self.get_us(G, root)", "C15.4"),
    # audited equivalent for C15 (independent differential audit): the dropped subset / the finer cache key change no value; must not be accused
    R("phi-passed-to-cache", AE, "            for n_edges in self.get_edge_combinations(g, c):\n                prob += (\n                    (pow(p, len(g.edges()) - n_edges) * pow(1 - p, n_edges))",
      "            for n_edges in self.get_edge_combinations(g, [p] + c)[:]:\n                prob += (\n                    (pow(p, len(g.edges()) - n_edges) * pow(1 - p, n_edges))"),
    M("frontier-without-neighbours", AE, "new_possible: set = (possible | set(G.neighbors(j))) - excluded", "new_possible: set = possible - excluded", "C15.5"),
    M("edge-key-without-component", AE, "key: str = f\"{c}-{G.name}\"", "key: str = f\"{len(c)}-{G.name}\"", "C15.2"),
    M("connected-negated", AE, "                if nx.is_connected(g_test):", "                if not nx.is_connected(g_test):", "C15.4"),
    R("key-tuple", AE, "        key: str = f\"{root}-{G.name}\"\n", "        key = (root, G.name)\n"),
    R("pow-operators", AE, "(pow(p, len(g.edges()) - n_edges) * pow(1 - p, n_edges))", "(p ** (len(g.edges()) - n_edges) * (1 - p) ** n_edges)"),
]

# ------------------------------------------------------------------------------------------- C17
MPG = "gcmpy/message_passing/message_passing.py"
MPX = "gcmpy/message_passing/message_passing_mixin.py"
VARIANTS["C17"] = [
    M("phi-not-set", MPG, "        self._phi = phi\n\n        # initialise the model", "        # initialise the model", "C17.1"),
    M("init-zero", MPG, "                self._H_tau[(k, motif_ID)] = 0.5", "                self._H_tau[(k, motif_ID)] = 0.0", "C17.2"),
    M("final-done-test-removed", MPG, "                if motif_ID in done_motifs:\n                    continue\n\n                prod *= self._H_tau[(i, motif_ID)]", "                prod *= self._H_tau[(i, motif_ID)]", "C17.4"),
    M("calc-done-test-removed", MPG, "                if motif_ID_l in done_motifs:\n                    continue\n\n", "", "C17.4"),
    # audited equivalent (independent differential audit): must not be accused
    R("focal-skip-removed", MPG, "            if j == focal:\n                continue\n", ""),
    M("one-minus-dropped", MPG, "return 1 - ((1.0 * outer_sum) / self._MPM._G.order())", "return (1.0 * outer_sum) / self._MPM._G.order()", "C17.6"),
    M("divide-by-edges", MPG, "/ self._MPM._G.order())", "/ self._MPM._G.number_of_edges())", "C17.6"),
    # audited equivalent (independent differential audit): must not be accused
    R("graph-name-without-focal", MPG, "H = nx.Graph(name=f\"{focal}-{self._MPM.get_motif_ID(label)}\")", "H = nx.Graph(name=f\"{self._MPM.get_motif_ID(label)}\")"),
    M("only-i-updated", MPG, "                self.calculate_H_tau(j, label)\n", "", "C17.3"),
    M("done-not-recorded", MPG, "                prod_j *= self._H_tau[(j, motif_ID_l)]\n                done_motifs.add(motif_ID_l)", "                prod_j *= self._H_tau[(j, motif_ID_l)]", "C17.4"),
    M("own-motif-not-excluded", MPG, "            js_neighbours = set(js_neighbours) - set(vertices_in_motif)\n", "", "C17.4"),
    M("message-wrong-key", MPG, "self._H_tau[(focal, motif_ID)] = self.resolve_equation(focal, label, prods)", "self._H_tau[(motif_ID, focal)] = self.resolve_equation(focal, label, prods)", "C17.5"),
    M("id-parser-first-field", MPX, "return int(label.split('-')[-1])", "return int(label.split('-')[0])", "C17.7"),
    M("stale-H-no-init", MPG, "        self._H_tau: dict = {}\n        for i, j in self._MPM._G.edges():\n            label: str = self._MPM.get_edge_cover_label(i, j)\n            motif_ID: str = self._MPM.get_motif_ID(label)\n\n            for k in self._MPM.get_vertices_in_motif(label):\n                self._H_tau[(k, motif_ID)] = 0.5\n", "", ""),
    M("done-shared-across-members", MPG, "            prod_j = 1\n            done_motifs = set()\n            for l in js_neighbours:", "            prod_j = 1\n            for l in js_neighbours:", ""),
    M("u-attribute-renamed", MPG, "        nx.set_node_attributes(H, prods, \"u\")\n        return self._AE", "        nx.set_node_attributes(H, prods, \"H\")\n        return self._AE", "C17.5"),
    M("evaluator-replaced-per-query", MPG, "        self._phi = phi\n", "        self._phi = phi\n        self._iterations = self._iterations + 1\n", "C17.1"),
    R("h-reset-removed-init-loop-remains", MPG, "        self._H_tau: dict = {}\n        for i, j in self._MPM._G.edges():", "        for i, j in self._MPM._G.edges():"),
    R("order-number-of-nodes", MPG, "/ self._MPM._G.order())", "/ self._MPM._G.number_of_nodes())"),
]

VARIANTS["C02"] += [
    M("seed-name-row-cache", GF, "        gen = self.infinite_sequence()\n\n        # for each topology list ...", "        name_rows: dict = {}\n        gen = self.infinite_sequence()\n\n        # for each topology list ..."
      ) if False else ME("seed-name-row-cache", [(GF, "        gen = self.infinite_sequence()\n", "        gen = self.infinite_sequence()\n        name_rows: dict = {}\n"),
        (GF, "                EdgeList.topologies.extend([self._edge_names[k]] * len(es))\n", "                n_edges = len(es)\n                if n_edges not in name_rows:\n                    name_rows[n_edges] = [self._edge_names[k]] * n_edges\n                EdgeList.topologies.extend(name_rows[n_edges])\n")], "C02.5"),
    RE("memo-keyed-by-topology-too", [(GF, "        gen = self.infinite_sequence()\n", "        gen = self.infinite_sequence()\n        name_rows: dict = {}\n"),
        (GF, "                EdgeList.topologies.extend([self._edge_names[k]] * len(es))\n", "                n_edges = len(es)\n                if (k, n_edges) not in name_rows:\n                    name_rows[(k, n_edges)] = [self._edge_names[k]] * n_edges\n                EdgeList.topologies.extend(name_rows[(k, n_edges)])\n")]),
]

_MP_OLD = "    g: nx.Graph = G.copy()\n    cliques = list(nx.enumerate_all_cliques(g))\n"
_MP_NEW = "    cliques = list(nx.enumerate_all_cliques(G))\n    claimed: set = set()\n"
_MP_OLD2 = "        skip: bool = False\n        for e in itertools.combinations(c, 2):\n            if not g.has_edge(e[0], e[1]):\n                skip = True\n                break\n        if not skip:\n            cover.append(c)\n            g.remove_edges_from(list(itertools.combinations(c, 2)))\n"
VARIANTS["C10"] += [
    ME("seed-claimed-set-mixed-keys", [(MP, _MP_OLD, _MP_NEW), (MP, _MP_OLD2,
        "        edges: list = list(itertools.combinations(c, 2))\n        if any(e in claimed for e in edges):\n            continue\n\n        cover.append(c)\n        claimed.update(tuple(sorted(e)) for e in edges)\n")], "C10.4"),
    RE("claimed-set-consistent-keys", [(MP, _MP_OLD, _MP_NEW), (MP, _MP_OLD2,
        "        edges: list = list(itertools.combinations(c, 2))\n        if any(tuple(sorted(e)) in claimed for e in edges):\n            continue\n\n        cover.append(c)\n        claimed.update(tuple(sorted(e)) for e in edges)\n")]),
]
VARIANTS["C03"] += [
    ME("seed-shared-stub-lists", [(GF, "        stubs = [\n            list(chain.from_iterable(starmap(repeat, r)))\n            for r in map(enumerate, zip(*jds))\n        ]",
        "        expanded: dict = {}\n        for column in zip(*jds):\n            if column not in expanded:\n                expanded[column] = list(chain.from_iterable(starmap(repeat, enumerate(column))))\n        stubs = [expanded[column] for column in zip(*jds)]")], "C03.2"),
]
VARIANTS["C04"] += [
    M("seed-only-zero-degree-nodes", EN, "        model.G.add_nodes_from(range(len(edgelist.joint_degrees)))\n", "        model.G.add_nodes_from(n for n, jd in enumerate(edgelist.joint_degrees) if not any(jd))\n", "C04.1"),
    R("nodes-by-generator", EN, "        model.G.add_nodes_from(range(len(edgelist.joint_degrees)))\n", "        model.G.add_nodes_from(n for n, jd in enumerate(edgelist.joint_degrees))\n"),
]
VARIANTS["C08"] += [
    M("seed-sizes-unsorted-set", LC, "sorted(list(set([len(c) for c in self._cover])))", "list({len(c) for c in self._cover})", "C08.1"),
]
VARIANTS["C09"] += [
    M("seed-early-break-scan", EE, "                            else:\n                                n += 1\n", "                            elif C[n][0] > C[c][i]:\n                                break\n                            else:\n                                n += 1\n", "C09.6"),
]
VARIANTS["C19"] += [
    M("seed-polylog-loop-guard", DS_, "        zk = z\n        while 1:", "        zk = z\n        while zk >= tol:", "C19.3"),
]
VARIANTS["C14"] += [
    M("seed-scale-factor-inlined", JFE, "            scale_factor = base_value / p_obs[topology][common_key]\n            for key in p_obs[topology]:\n                p_obs[topology][key] *= scale_factor",
      "            observation = p_obs[topology]\n            for key in observation:\n                observation[key] *= base_value / observation[common_key]", "C14.5"),
    R("observation-alias", JFE, "            scale_factor = base_value / p_obs[topology][common_key]\n            for key in p_obs[topology]:\n                p_obs[topology][key] *= scale_factor",
      "            observation = p_obs[topology]\n            scale_factor = base_value / observation[common_key]\n            for key in observation:\n                observation[key] *= scale_factor"),
]
VARIANTS["C13"] += [
    M("seed-tuple-assign-self-pair", JE, "                if key1 == key2:\n                    ejk[key1] = ejk.get(key1, 0) + (1.0 / (self._num_edges[name]))\n                else:\n                    ejk[key1] = ejk.get(key1, 0) + (0.5 / (self._num_edges[name]))\n                    ejk[key2] = ejk.get(key2, 0) + (0.5 / (self._num_edges[name]))",
      "                weight = 0.5 / self._num_edges[name]\n                ejk[key1], ejk[key2] = (\n                    ejk.get(key1, 0) + weight,\n                    ejk.get(key2, 0) + weight,\n                )", "C13.2"),
]
VARIANTS["C20"] += [
    M("seed-branchfree-remove", DS, "        last_item = self._edges.pop()\n        if position != len(self._edges):\n            self._edges[position] = last_item\n            self._edge_hashmap[last_item] = position",
      "        last_item = self._edges[-1]\n        self._edges[position] = last_item\n        self._edge_hashmap[last_item] = position\n        self._edges.pop()", "C20.4"),
    R("read-last-then-pop-guarded", DS, "        last_item = self._edges.pop()\n        if position != len(self._edges):\n            self._edges[position] = last_item\n            self._edge_hashmap[last_item] = position",
      "        last_item = self._edges[-1]\n        if position != len(self._edges) - 1:\n            self._edges[position] = last_item\n            self._edge_hashmap[last_item] = position\n        self._edges.pop()"),
]
VARIANTS["C05"] += [
    M("seed-batched-patch", JDP, "                for j in range(self._motif_sizes[i] - ntop % self._motif_sizes[i]):\n                    j = random.randrange(0, len(jds))\n                    t = list(jds[j])\n                    t[i] += 1\n                    jds[j] = tuple(t)",
      "                n_stubs = self._motif_sizes[i] - ntop % self._motif_sizes[i]\n                chosen = random.choices(range(len(jds)), k=n_stubs)\n                jds_plus = {j: jds[j][:i] + (jds[j][i] + 1,) + jds[j][i + 1 :] for j in chosen}\n                for j, t in jds_plus.items():\n                    jds[j] = t", "C05.3"),
]

VARIANTS["C06"] += [
    ME("seed-shared-marginal-cache", [(LM, "    _type: str = JointDegreeType.MARGINAL\n", "    _type: str = JointDegreeType.MARGINAL\n    _marginal_cache: dict = {}\n"),
        (LM, "    def evaluate_prob_of_joint_degree(self, joint_degree: list) -> float:", "    def marginal_prob(self, i: int, deg: int) -> float:\n        key = (i, deg)\n        if key not in self._marginal_cache:\n            self._marginal_cache[key] = self._arr_fp[i](deg)\n        return self._marginal_cache[key]\n\n    def evaluate_prob_of_joint_degree(self, joint_degree: list) -> float:"),
        (LM, "            prod *= self._arr_fp[i](deg)", "            prod *= self.marginal_prob(i, deg)")], "C06.1"),
    RE("helper-method-extracted", [(LM, "    def evaluate_prob_of_joint_degree(self, joint_degree: list) -> float:", "    def marginal_prob(self, i: int, deg: int) -> float:\n        return self._arr_fp[i](deg)\n\n    def evaluate_prob_of_joint_degree(self, joint_degree: list) -> float:"),
        (LM, "            prod *= self._arr_fp[i](deg)", "            prod *= self.marginal_prob(i, deg)")]),
]
