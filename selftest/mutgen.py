"""Mechanical mutation sweep of the CHECKERS (thorough tier, feeds the evidence only).

For one property, every function defined in the property's anchor files is mutated mechanically, one AST edit per
mutant (comparison / arithmetic / boolean operator swaps, small constant and index tweaks, deletion of an effect
statement, swap of the first two call arguments, augmented-assignment operator swaps).  Each mutant is written to a
scratch copy of the package (tempfile, removed afterwards) and the property's quick check is run ON THE MUTATED SOURCE.
Nothing from gcmpy is imported or executed - this measures which mechanical edits of the anchors the static rules
notice.  A surviving mutant (exit 0) is either equivalent / outside the property (listed with its reason in
mutgen_triage.json once examined by hand) or a blind spot of the rules (reported as `open`).

CLI: /venv/bin/python -m selftest.mutgen C05 [--list-survivors] [--jobs 16] [--max 400]
"""
from __future__ import annotations

import ast
import contextlib
import copy
import io
import json
import os
import shutil
import sys
import tempfile
import warnings
from concurrent.futures import ProcessPoolExecutor

HERE = os.path.dirname(os.path.abspath(__file__))
VERIF = os.path.dirname(HERE)
if VERIF not in sys.path:
    sys.path.insert(0, VERIF)

CMP_SWAP = {ast.Lt: ast.LtE, ast.LtE: ast.Lt, ast.Gt: ast.GtE, ast.GtE: ast.Gt, ast.Eq: ast.NotEq, ast.NotEq: ast.Eq,
            ast.In: ast.NotIn, ast.NotIn: ast.In, ast.Is: ast.IsNot, ast.IsNot: ast.Is}
BIN_SWAP = {ast.Add: ast.Sub, ast.Sub: ast.Add, ast.Mult: ast.Div, ast.Div: ast.Mult, ast.FloorDiv: ast.Div, ast.Mod: ast.FloorDiv, ast.Pow: ast.Mult}
AUG_SWAP = {ast.Add: ast.Sub, ast.Sub: ast.Add, ast.Mult: ast.Div, ast.Div: ast.Mult}


def anchor_files(prop):
    with open(os.path.join(VERIF, "properties.jsonl")) as fh:
        for line in fh:
            p = json.loads(line)
            if p["id"] == prop:
                return list(p["anchors"]["files"])
    return []


def sites(tree):
    """Enumerate (kind, path) mutation sites; path = list of (field, index) from the module root."""
    out = []

    def rec(node, path, in_func):
        if isinstance(node, (ast.FunctionDef, ast.AsyncFunctionDef)):
            in_func = True
        if in_func:
            if isinstance(node, ast.Compare) and len(node.ops) == 1 and type(node.ops[0]) in CMP_SWAP:
                out.append(("cmp", path))
            if isinstance(node, ast.BinOp) and type(node.op) in BIN_SWAP:
                out.append(("bin", path))
            if isinstance(node, ast.AugAssign) and type(node.op) in AUG_SWAP:
                out.append(("aug", path))
            if isinstance(node, ast.BoolOp):
                out.append(("bool", path))
            if isinstance(node, ast.UnaryOp) and isinstance(node.op, ast.Not):
                out.append(("not", path))
            if isinstance(node, ast.Constant) and isinstance(node.value, (int, float)) and not isinstance(node.value, bool):
                out.append(("const+", path))
                if node.value != 0:
                    out.append(("const-", path))
            if isinstance(node, ast.Call) and len(node.args) >= 2 and not any(isinstance(a, ast.Starred) for a in node.args[:2]):
                out.append(("swapargs", path))
            if isinstance(node, ast.Expr) and isinstance(node.value, ast.Call) and not (isinstance(node.value.func, ast.Attribute) and node.value.func.attr in ("debug", "info", "warning")):
                out.append(("delstmt", path))
            if isinstance(node, (ast.Continue, ast.Break)):
                out.append(("delstmt", path))
            if isinstance(node, (ast.Assign, ast.AugAssign)) and any(isinstance(t, (ast.Subscript, ast.Attribute)) for t in (node.targets if isinstance(node, ast.Assign) else [node.target])):
                out.append(("delstmt", path))
            if isinstance(node, ast.Return) and isinstance(node.value, ast.Constant) and isinstance(node.value.value, bool):
                out.append(("flipret", path))
        for field, value in ast.iter_fields(node):
            if isinstance(value, list):
                for i, v in enumerate(value):
                    if isinstance(v, ast.AST):
                        # skip docstrings
                        if isinstance(v, ast.Expr) and isinstance(v.value, ast.Constant) and isinstance(v.value.value, str):
                            continue
                        rec(v, path + [(field, i)], in_func)
            elif isinstance(value, ast.AST):
                rec(value, path + [(field, None)], in_func)
    rec(tree, [], False)
    return out


def get(tree, path):
    n = tree
    for field, i in path:
        n = getattr(n, field)
        if i is not None:
            n = n[i]
    return n


def parent_and_slot(tree, path):
    n = tree
    for field, i in path[:-1]:
        n = getattr(n, field)
        if i is not None:
            n = n[i]
    return n, path[-1]


def mutate(tree, kind, path):
    """Returns (mutated tree, description) or None."""
    t = copy.deepcopy(tree)
    n = get(t, path)
    before = ast.unparse(n)[:70]
    if kind == "cmp":
        n.ops[0] = CMP_SWAP[type(n.ops[0])]()
    elif kind == "bin":
        n.op = BIN_SWAP[type(n.op)]()
    elif kind == "aug":
        n.op = AUG_SWAP[type(n.op)]()
    elif kind == "bool":
        n.op = ast.Or() if isinstance(n.op, ast.And) else ast.And()
    elif kind == "not":
        p, (field, i) = parent_and_slot(t, path)
        if i is None:
            setattr(p, field, n.operand)
        else:
            getattr(p, field)[i] = n.operand
    elif kind == "const+":
        n.value = n.value + 1
    elif kind == "const-":
        n.value = n.value - 1
    elif kind == "swapargs":
        n.args[0], n.args[1] = n.args[1], n.args[0]
    elif kind == "delstmt":
        p, (field, i) = parent_and_slot(t, path)
        if i is None:
            return None
        body = getattr(p, field)
        body[i] = ast.Pass()
    elif kind == "flipret":
        n.value = ast.Constant(value=not n.value.value)
    else:
        return None
    ast.fix_missing_locations(t)
    after = ast.unparse(get(t, path))[:70] if kind not in ("not",) else "(not removed)"
    return t, f"{kind}: `{before}` -> `{after}`"


def enclosing_function(tree, path):
    n = tree
    name = []
    for field, i in path:
        n = getattr(n, field)
        if i is not None:
            n = n[i]
        if isinstance(n, (ast.FunctionDef, ast.AsyncFunctionDef, ast.ClassDef)):
            name.append(n.name)
    return ".".join(name)


def props_of_file(rel):
    out = []
    with open(os.path.join(VERIF, "properties.jsonl")) as fh:
        for line in fh:
            p = json.loads(line)
            if rel in p["anchors"]["files"]:
                out.append(p["id"])
    return out


def run_mutant(args):
    prop, repo, rel, src_mut, desc, func, line = args
    import check as check_mod
    tmp = tempfile.mkdtemp(prefix="gcmverif_mut_")
    try:
        shutil.copytree(os.path.join(repo, "gcmpy"), os.path.join(tmp, "gcmpy"), ignore=shutil.ignore_patterns("__pycache__"))
        with open(os.path.join(tmp, rel), "w") as fh:
            fh.write(src_mut)
        # the mutant is judged by the check of every property that lists this file among its anchors
        props = [prop] + [q for q in props_of_file(rel) if q != prop]
        code, viol = 0, []
        for q in props:
            buf = io.StringIO()
            with contextlib.redirect_stdout(buf):
                c, results = check_mod.run_property(q, tmp, "quick", write=False, quiet=True)
            v = sorted({r.obligation for r in results if r.status == "VIOLATED" and not r.known})
            viol += v
            if c == 1:
                code = 1
                break
            if c == 2 and code == 0:
                code = 2
        return {"file": rel, "function": func, "line": line, "mutation": desc, "exit": code, "violated": viol}
    except Exception as e:  # pragma: no cover
        return {"file": rel, "function": func, "line": line, "mutation": desc, "exit": -1, "error": str(e)}
    finally:
        shutil.rmtree(tmp, ignore_errors=True)


def load_triage():
    p = os.path.join(HERE, "mutgen_triage.json")
    if os.path.exists(p):
        return json.load(open(p))
    return {}


def sweep(prop, repo="/repo", jobs=16, max_mutants=600):
    jobs_list = []
    for rel in anchor_files(prop):
        path = os.path.join(repo, rel)
        if not os.path.exists(path):
            continue
        with warnings.catch_warnings():
            warnings.simplefilter("ignore")
            tree = ast.parse(open(path).read())
        for kind, pth in sites(tree):
            m = mutate(tree, kind, pth)
            if m is None:
                continue
            t, desc = m
            try:
                src = ast.unparse(t)
                compile(src, rel, "exec")
            except Exception:
                continue
            node = get(tree, pth)
            jobs_list.append((prop, repo, rel, src, desc, enclosing_function(tree, pth), getattr(node, "lineno", 0)))
    jobs_list = jobs_list[:max_mutants]
    if not jobs_list:
        return {"generated": 0}
    with ProcessPoolExecutor(max_workers=jobs) as ex:
        res = list(ex.map(run_mutant, jobs_list, chunksize=4))
    triage = load_triage().get(prop, {})
    killed = [r for r in res if r["exit"] == 1]
    und = [r for r in res if r["exit"] == 2]
    surv = [r for r in res if r["exit"] == 0]
    for r in surv:
        key = f"{r['function']}|{r['mutation']}"
        r["triage"] = triage.get(key) or triage.get(r["function"] + "|*") or ""
    open_ = [r for r in surv if not r["triage"]]
    return {"generated": len(res), "killed": len(killed), "undecided": len(und), "survived": len(surv),
            "survivors_triaged_equivalent_or_outside_property": len(surv) - len(open_), "survivors_open": len(open_),
            "open": [{k: r[k] for k in ("function", "line", "mutation")} for r in open_][:400],
            "undecided_list": [{k: r[k] for k in ("function", "line", "mutation")} for r in und][:40]}


def main(argv=None):
    import argparse
    ap = argparse.ArgumentParser()
    ap.add_argument("props", nargs="+")
    ap.add_argument("--repo", default="/repo")
    ap.add_argument("--jobs", type=int, default=16)
    ap.add_argument("--max", type=int, default=600)
    ap.add_argument("--list", action="store_true")
    a = ap.parse_args(argv)
    for p in a.props:
        r = sweep(p.upper(), a.repo, a.jobs, a.max)
        print(f"{p}: generated {r.get('generated')} killed {r.get('killed')} undecided {r.get('undecided')} survived {r.get('survived')} "
              f"(triaged {r.get('survivors_triaged_equivalent_or_outside_property')}, open {r.get('survivors_open')})")
        if a.list:
            for x in r.get("open", []):
                print(f"   OPEN {x['function']}:{x['line']}  {x['mutation']}")
            for x in r.get("undecided_list", []):
                print(f"   und  {x['function']}:{x['line']}  {x['mutation']}")
    return 0


if __name__ == "__main__":
    sys.exit(main())
