"""Mechanical sweep of BEHAVIOUR-PRESERVING edits (the counterpart of mutgen): false-alarm hunting.

Every function in the anchor files is rewritten mechanically, one edit per variant, by a transformation that is
behaviour-preserving by construction:

  temp     a pure sub-expression of a simple statement is bound to a fresh local just before the statement
  rename   a local variable is renamed consistently inside its function
  swapif   `if c: A else: B`            ->  `if not c: B else: A`
  nest     `if c: continue` ; REST      ->  `if not c: REST`                       (loop bodies)
  guard    loop body ending in `if c: B` -> `if not c: continue` ; B
  aug      `x += e`                     ->  `x = x + e`                           (name targets)
  flip     `a < b` -> `b > a`, `a == b` -> `b == a`, ...
  notin    `a not in s` -> `not a in s`, `a != b` -> `not a == b`
  early    `if c: ...return` `else: REST` -> `if c: ...return` ; REST             (function bodies)
  rettemp  `return E`                   ->  `result = E` ; `return result`
  splitif  `if a and b: X`              ->  `if a:` `if b: X`                      (no else)
  comp2loop `x = [e for t in it if c]`  ->  `x = []` ; `for t in it:` `if c: x.append(e)`
  loop2comp the reverse (accumulation loops whose body is just the guarded append)
  pow      `a ** b` <-> `pow(a, b)`
  gsize    `G.order()` <-> `G.number_of_nodes()`, `len(G.edges())` <-> `G.number_of_edges()`

Each variant is written to a scratch copy of the package (tempfile, removed afterwards) and judged by the quick
check of every property that lists the edited file.  Nothing from gcmpy is imported or executed.  A VIOLATED verdict
on such a variant is a FALSE ALARM of the rules (to be corrected in the machinery); UNDECIDED is tolerated and
counted.

CLI: /venv/bin/python -m selftest.twingen [C05 ...] [--jobs 16] [--max 400] [--list]
"""
from __future__ import annotations

import ast
import contextlib
import copy
import io
import json
import os
import shutil
import sys
import tempfile
import warnings
from concurrent.futures import ProcessPoolExecutor

HERE = os.path.dirname(os.path.abspath(__file__))
VERIF = os.path.dirname(HERE)
if VERIF not in sys.path:
    sys.path.insert(0, VERIF)

PURE_CALLS = {"len", "int", "float", "abs", "min", "max", "sum", "tuple", "list", "set", "sorted", "range", "str", "pow", "enumerate", "zip", "isinstance", "bool", "dict", "frozenset"}
CMP_FLIP = {ast.Lt: ast.Gt, ast.Gt: ast.Lt, ast.LtE: ast.GtE, ast.GtE: ast.LtE, ast.Eq: ast.Eq, ast.NotEq: ast.NotEq}


def all_props():
    out = []
    with open(os.path.join(VERIF, "properties.jsonl")) as fh:
        for line in fh:
            out.append(json.loads(line))
    return out


def props_of_file(rel):
    return [p["id"] for p in all_props() if rel in p["anchors"]["files"]]


# ----------------------------------------------------------------------------- helpers on trees
def _functions(tree):
    for n in ast.walk(tree):
        if isinstance(n, (ast.FunctionDef, ast.AsyncFunctionDef)):
            yield n


def _own_nodes(fn):
    stack = list(ast.iter_child_nodes(fn))
    while stack:
        n = stack.pop()
        yield n
        if isinstance(n, (ast.FunctionDef, ast.AsyncFunctionDef, ast.ClassDef)):
            continue
        stack.extend(ast.iter_child_nodes(n))


def _blocks(fn):
    """(owner node, field name, list) for every statement list inside fn (not nested defs)."""
    out = [(fn, "body", fn.body)]
    for n in _own_nodes(fn):
        for f in ("body", "orelse", "finalbody"):
            b = getattr(n, f, None)
            if isinstance(b, list) and b and isinstance(b[0], ast.stmt) and not isinstance(n, (ast.FunctionDef, ast.AsyncFunctionDef, ast.ClassDef)):
                out.append((n, f, b))
        if isinstance(n, ast.Try):
            for h in n.handlers:
                out.append((h, "body", h.body))
    return out


def _is_pure(e) -> bool:
    for x in ast.walk(e):
        if isinstance(x, ast.Call):
            if not (isinstance(x.func, ast.Name) and x.func.id in PURE_CALLS):
                return False
        if isinstance(x, (ast.Lambda, ast.ListComp, ast.SetComp, ast.DictComp, ast.GeneratorExp, ast.NamedExpr, ast.Await, ast.Yield, ast.YieldFrom, ast.Starred)):
            return False
    return True


def _stmt_exprs(s):
    """[(owner, field)] expression slots of a simple statement that are evaluated exactly once, in order."""
    if isinstance(s, ast.Expr):
        return [(s, "value")]
    if isinstance(s, ast.Return) and s.value is not None:
        return [(s, "value")]
    if isinstance(s, (ast.Assign, ast.AnnAssign, ast.AugAssign)) and s.value is not None:
        return [(s, "value")]
    if isinstance(s, ast.If):
        return [(s, "test")]
    if isinstance(s, ast.For):
        return [(s, "iter")]
    return []


def _candidates(expr):
    """Sub-expressions (node, parent, field, index) in unconditional single-evaluation position."""
    out = []

    def rec(node, parent, field, idx, top):
        if isinstance(node, (ast.Lambda, ast.ListComp, ast.SetComp, ast.DictComp, ast.GeneratorExp, ast.IfExp, ast.NamedExpr)):
            return
        if isinstance(node, ast.BoolOp):
            # only the first operand is evaluated unconditionally
            rec(node.values[0], node, "values", 0, False)
            return
        if isinstance(node, ast.Compare) and len(node.ops) > 1:
            rec(node.left, node, "left", None, False)
            return
        if not top and isinstance(node, (ast.Attribute, ast.Subscript, ast.BinOp, ast.Compare, ast.Call, ast.UnaryOp)) and isinstance(getattr(node, "ctx", ast.Load()), ast.Load) \
                and _is_pure(node) and not (isinstance(parent, ast.Call) and field == "func"):
            out.append((node, parent, field, idx))
        for f, v in ast.iter_fields(node):
            if isinstance(v, list):
                for i, x in enumerate(v):
                    if isinstance(x, ast.AST):
                        rec(x, node, f, i, False)
            elif isinstance(v, ast.AST):
                rec(v, node, f, None, False)
    rec(expr, None, None, None, True)
    return out


# ----------------------------------------------------------------------------- transformations
def variants_of(tree):
    """Yield (kind, description, lineno, function name, new tree)."""
    # index functions by position so that a deepcopy can be addressed
    fns = list(_functions(tree))
    for fi, fn in enumerate(fns):
        # ---------------- temp
        blocks = _blocks(fn)
        for bi, (owner, field, blk) in enumerate(blocks):
            for si, s in enumerate(blk):
                for (sowner, sfield) in _stmt_exprs(s):
                    expr = getattr(sowner, sfield)
                    others_impure = not _is_pure(expr)
                    if others_impure:
                        # the statement contains an effectful call: moving an evaluation in front of it could reorder effects
                        continue
                    cands = _candidates(expr)
                    for ci, (node, parent, pf, pidx) in enumerate(cands):
                        t2 = copy.deepcopy(tree)
                        fn2 = list(_functions(t2))[fi]
                        o2, f2, blk2 = _blocks(fn2)[bi]
                        s2 = blk2[si]
                        so2, sf2 = _stmt_exprs(s2)[[x[1] for x in _stmt_exprs(s)].index(sfield)]
                        node2, parent2, pf2, pidx2 = _candidates(getattr(so2, sf2))[ci]
                        tmp = f"tmp_{si}_{ci}"
                        if pidx2 is None:
                            setattr(parent2, pf2, ast.Name(id=tmp, ctx=ast.Load()))
                        else:
                            getattr(parent2, pf2)[pidx2] = ast.Name(id=tmp, ctx=ast.Load())
                        blk2.insert(si, ast.Assign(targets=[ast.Name(id=tmp, ctx=ast.Store())], value=node2, lineno=s2.lineno, col_offset=s2.col_offset))
                        ast.fix_missing_locations(t2)
                        yield "temp", f"`{ast.unparse(node)[:50]}` bound to a local before `{ast.unparse(s).splitlines()[0][:50]}`", s.lineno, fn.name, t2
        # ---------------- rename
        params = {a.arg for a in fn.args.posonlyargs + fn.args.args + fn.args.kwonlyargs} | ({fn.args.vararg.arg} if fn.args.vararg else set()) | ({fn.args.kwarg.arg} if fn.args.kwarg else set())
        stores = {}
        for n in _own_nodes(fn):
            if isinstance(n, ast.Name) and isinstance(n.ctx, ast.Store):
                stores.setdefault(n.id, n.lineno)
        declared = {x for n in _own_nodes(fn) if isinstance(n, (ast.Global, ast.Nonlocal)) for x in n.names}
        nested_names = {n.name for n in ast.walk(fn) if isinstance(n, (ast.FunctionDef, ast.ClassDef)) and n is not fn}
        for name, line in sorted(stores.items()):
            if name in params or name in declared or name in nested_names or name.startswith("__"):
                continue
            t2 = copy.deepcopy(tree)
            fn2 = list(_functions(t2))[fi]
            new = name + "_rn"
            for n in ast.walk(fn2):
                if isinstance(n, ast.Name) and n.id == name:
                    n.id = new
            yield "rename", f"local `{name}` renamed to `{new}`", line, fn.name, t2
        # ---------------- structural edits addressed by (block index, statement index)
        for bi, (owner, field, blk) in enumerate(blocks):
            for si, s in enumerate(blk):
                def fresh():
                    t2 = copy.deepcopy(tree)
                    fn2 = list(_functions(t2))[fi]
                    o2, f2, blk2 = _blocks(fn2)[bi]
                    return t2, o2, blk2, blk2[si]
                if isinstance(s, ast.If) and s.orelse:
                    t2, o2, blk2, s2 = fresh()
                    s2.test, s2.body, s2.orelse = ast.UnaryOp(op=ast.Not(), operand=s2.test), s2.orelse, s2.body
                    ast.fix_missing_locations(t2)
                    yield "swapif", f"branches of `if {ast.unparse(s.test)[:50]}` swapped under negation", s.lineno, fn.name, t2
                in_loop = isinstance(owner, (ast.For, ast.While)) and field == "body"
                if in_loop and isinstance(s, ast.If) and not s.orelse and len(s.body) == 1 and isinstance(s.body[0], ast.Continue) and si + 1 < len(blk):
                    t2, o2, blk2, s2 = fresh()
                    rest = blk2[si + 1:]
                    s2.test = ast.UnaryOp(op=ast.Not(), operand=s2.test)
                    s2.body = rest
                    del blk2[si + 1:]
                    ast.fix_missing_locations(t2)
                    yield "nest", f"`if {ast.unparse(s.test)[:50]}: continue` turned into an enclosing negated if", s.lineno, fn.name, t2
                if in_loop and isinstance(s, ast.If) and not s.orelse and si == len(blk) - 1 and not any(isinstance(x, (ast.Continue, ast.Break)) for x in ast.walk(s)):
                    t2, o2, blk2, s2 = fresh()
                    body = s2.body
                    s2.test = ast.UnaryOp(op=ast.Not(), operand=s2.test)
                    s2.body = [ast.Continue()]
                    blk2.extend(body)
                    ast.fix_missing_locations(t2)
                    yield "guard", f"trailing `if {ast.unparse(s.test)[:50]}:` turned into a negated continue-guard", s.lineno, fn.name, t2
                if isinstance(s, ast.AugAssign) and isinstance(s.target, ast.Name):
                    t2, o2, blk2, s2 = fresh()
                    blk2[si] = ast.copy_location(ast.Assign(targets=[ast.Name(id=s2.target.id, ctx=ast.Store())],
                                                            value=ast.BinOp(left=ast.Name(id=s2.target.id, ctx=ast.Load()), op=s2.op, right=s2.value)), s2)
                    ast.fix_missing_locations(t2)
                    yield "aug", f"`{ast.unparse(s)[:50]}` written as plain assignment", s.lineno, fn.name, t2
                if owner is fn and field == "body" and isinstance(s, ast.If) and s.orelse and _always_returns(s.body) and not (len(s.orelse) == 1 and isinstance(s.orelse[0], ast.If) and False):
                    t2, o2, blk2, s2 = fresh()
                    rest = s2.orelse
                    s2.orelse = []
                    blk2[si + 1:si + 1] = rest
                    ast.fix_missing_locations(t2)
                    yield "early", f"`else` after returning `if {ast.unparse(s.test)[:40]}` flattened", s.lineno, fn.name, t2
        # ---------------- more structural edits
        for bi, (owner, field, blk) in enumerate(blocks):
            for si, s in enumerate(blk):
                def fresh():
                    t2 = copy.deepcopy(tree)
                    fn2 = list(_functions(t2))[fi]
                    o2, f2, blk2 = _blocks(fn2)[bi]
                    return t2, o2, blk2, blk2[si]
                if isinstance(s, ast.Return) and s.value is not None and not isinstance(s.value, (ast.Name, ast.Constant)):
                    t2, o2, blk2, s2 = fresh()
                    blk2.insert(si, ast.Assign(targets=[ast.Name(id="result_tw", ctx=ast.Store())], value=s2.value, lineno=s2.lineno, col_offset=s2.col_offset))
                    s2.value = ast.Name(id="result_tw", ctx=ast.Load())
                    ast.fix_missing_locations(t2)
                    yield "rettemp", f"`{ast.unparse(s)[:60]}` through a local", s.lineno, fn.name, t2
                if isinstance(s, ast.If) and not s.orelse and isinstance(s.test, ast.BoolOp) and isinstance(s.test.op, ast.And) and len(s.test.values) == 2:
                    t2, o2, blk2, s2 = fresh()
                    a_, b_ = s2.test.values
                    inner = ast.If(test=b_, body=s2.body, orelse=[])
                    s2.test, s2.body = a_, [inner]
                    ast.fix_missing_locations(t2)
                    yield "splitif", f"`if {ast.unparse(s.test)[:50]}` split into nested ifs", s.lineno, fn.name, t2
                if isinstance(s, (ast.Assign, ast.AnnAssign)) and isinstance(s.value, ast.ListComp) and len(s.value.generators) == 1 and not s.value.generators[0].is_async:
                    tg = s.targets[0] if isinstance(s, ast.Assign) and len(s.targets) == 1 else (s.target if isinstance(s, ast.AnnAssign) else None)
                    if isinstance(tg, ast.Name) and not any(isinstance(x, ast.Name) and x.id == tg.id for x in ast.walk(s.value)):
                        t2, o2, blk2, s2 = fresh()
                        comp = s2.value
                        g = comp.generators[0]
                        body = [ast.Expr(value=ast.Call(func=ast.Attribute(value=ast.Name(id=tg.id, ctx=ast.Load()), attr="append", ctx=ast.Load()), args=[comp.elt], keywords=[]))]
                        for c in reversed(g.ifs):
                            body = [ast.If(test=c, body=body, orelse=[])]
                        blk2[si] = ast.Assign(targets=[ast.Name(id=tg.id, ctx=ast.Store())], value=ast.List(elts=[], ctx=ast.Load()), lineno=s2.lineno, col_offset=s2.col_offset)
                        blk2.insert(si + 1, ast.For(target=g.target, iter=g.iter, body=body, orelse=[], lineno=s2.lineno, col_offset=s2.col_offset))
                        ast.fix_missing_locations(t2)
                        yield "comp2loop", f"`{ast.unparse(s)[:60]}` written out as a loop", s.lineno, fn.name, t2
                # x = [] ; for t in it: [if c:] x.append(e)   (adjacent statements)
                if isinstance(s, (ast.Assign, ast.AnnAssign)) and isinstance(s.value, ast.List) and not s.value.elts and si + 1 < len(blk) and isinstance(blk[si + 1], ast.For) and not blk[si + 1].orelse:
                    tg = s.targets[0] if isinstance(s, ast.Assign) and len(s.targets) == 1 else (s.target if isinstance(s, ast.AnnAssign) else None)
                    lp = blk[si + 1]
                    body, ifs, ok = lp.body, [], isinstance(tg, ast.Name)
                    while ok:
                        if len(body) != 1:
                            ok = False
                        elif isinstance(body[0], ast.If) and not body[0].orelse:
                            ifs.append(body[0].test)
                            body = body[0].body
                        elif isinstance(body[0], ast.Expr) and isinstance(body[0].value, ast.Call) and isinstance(body[0].value.func, ast.Attribute) and body[0].value.func.attr == "append" \
                                and isinstance(body[0].value.func.value, ast.Name) and body[0].value.func.value.id == tg.id and len(body[0].value.args) == 1:
                            break
                        else:
                            ok = False
                    if ok and not any(isinstance(x, ast.Name) and x.id == tg.id for x in ast.walk(body[0].value.args[0])) \
                            and not any(isinstance(x, ast.Name) and x.id == tg.id for c in ifs + [lp.iter] for x in ast.walk(c)):
                        t2, o2, blk2, s2 = fresh()
                        lp2 = blk2[si + 1]
                        b2, ifs2 = lp2.body, []
                        while isinstance(b2[0], ast.If):
                            ifs2.append(b2[0].test)
                            b2 = b2[0].body
                        comp = ast.ListComp(elt=b2[0].value.args[0], generators=[ast.comprehension(target=lp2.target, iter=lp2.iter, ifs=ifs2, is_async=0)])
                        s2.value = comp
                        del blk2[si + 1]
                        ast.fix_missing_locations(t2)
                        yield "loop2comp", f"accumulation into `{tg.id}` written as a comprehension", s.lineno, fn.name, t2
        # ---------------- library synonyms
        own = list(_own_nodes(fn))
        for ni, n in enumerate(own):
            new = None
            desc = None
            if isinstance(n, ast.BinOp) and isinstance(n.op, ast.Pow):
                desc = f"`{ast.unparse(n)[:50]}` written with pow()"
                def mk(n2):
                    return ast.Call(func=ast.Name(id="pow", ctx=ast.Load()), args=[n2.left, n2.right], keywords=[])
            elif isinstance(n, ast.Call) and isinstance(n.func, ast.Name) and n.func.id == "pow" and len(n.args) == 2 and not n.keywords:
                desc = f"`{ast.unparse(n)[:50]}` written with **"
                def mk(n2):
                    return ast.BinOp(left=n2.args[0], op=ast.Pow(), right=n2.args[1])
            elif isinstance(n, ast.Call) and isinstance(n.func, ast.Attribute) and not n.args and n.func.attr in ("order", "number_of_nodes"):
                other = "number_of_nodes" if n.func.attr == "order" else "order"
                desc = f"`{ast.unparse(n)[:50]}` written with .{other}()"
                def mk(n2, other=other):
                    return ast.Call(func=ast.Attribute(value=n2.func.value, attr=other, ctx=ast.Load()), args=[], keywords=[])
            elif isinstance(n, ast.Call) and isinstance(n.func, ast.Name) and n.func.id == "len" and len(n.args) == 1 and isinstance(n.args[0], ast.Call) \
                    and isinstance(n.args[0].func, ast.Attribute) and n.args[0].func.attr in ("edges", "nodes") and not n.args[0].args:
                meth = "number_of_edges" if n.args[0].func.attr == "edges" else "number_of_nodes"
                desc = f"`{ast.unparse(n)[:50]}` written with .{meth}()"
                def mk(n2, meth=meth):
                    return ast.Call(func=ast.Attribute(value=n2.args[0].func.value, attr=meth, ctx=ast.Load()), args=[], keywords=[])
            elif isinstance(n, ast.Call) and isinstance(n.func, ast.Attribute) and not n.args and n.func.attr == "number_of_edges":
                desc = f"`{ast.unparse(n)[:50]}` written with len(.edges())"
                def mk(n2):
                    return ast.Call(func=ast.Name(id="len", ctx=ast.Load()), args=[ast.Call(func=ast.Attribute(value=n2.func.value, attr="edges", ctx=ast.Load()), args=[], keywords=[])], keywords=[])
            if desc is None:
                continue
            t2 = copy.deepcopy(tree)
            fn2 = list(_functions(t2))[fi]
            own2 = list(_own_nodes(fn2))
            n2 = own2[ni]
            par = {id(ch): (p_, f_, i_) for p_ in ast.walk(fn2) for f_, v_ in ast.iter_fields(p_)
                   for i_, ch in (enumerate(v_) if isinstance(v_, list) else [(None, v_)]) if isinstance(ch, ast.AST)}
            if id(n2) not in par:
                continue
            p_, f_, i_ = par[id(n2)]
            newn = mk(n2)
            if i_ is None:
                setattr(p_, f_, newn)
            else:
                getattr(p_, f_)[i_] = newn
            ast.fix_missing_locations(t2)
            yield ("pow" if "pow" in desc or "**" in desc else "gsize"), desc, n.lineno, fn.name, t2
        # ---------------- comparisons
        cmps = [n for n in _own_nodes(fn) if isinstance(n, ast.Compare) and len(n.ops) == 1]
        for ci, c in enumerate(cmps):
            if type(c.ops[0]) in CMP_FLIP and _is_pure(c):
                t2 = copy.deepcopy(tree)
                fn2 = list(_functions(t2))[fi]
                c2 = [n for n in _own_nodes(fn2) if isinstance(n, ast.Compare) and len(n.ops) == 1][ci]
                c2.left, c2.comparators[0] = c2.comparators[0], c2.left
                c2.ops[0] = CMP_FLIP[type(c2.ops[0])]()
                yield "flip", f"`{ast.unparse(c)[:60]}` with operands exchanged", c.lineno, fn.name, t2
            if isinstance(c.ops[0], (ast.NotIn, ast.NotEq)):
                t2 = copy.deepcopy(tree)
                fn2 = list(_functions(t2))[fi]
                par = {id(ch): (p, f, i) for p in ast.walk(fn2) for f, v in ast.iter_fields(p)
                       for i, ch in (enumerate(v) if isinstance(v, list) else [(None, v)]) if isinstance(ch, ast.AST)}
                c2 = [n for n in _own_nodes(fn2) if isinstance(n, ast.Compare) and len(n.ops) == 1][ci]
                p, f, i = par[id(c2)]
                c2.ops[0] = ast.In() if isinstance(c2.ops[0], ast.NotIn) else ast.Eq()
                new = ast.UnaryOp(op=ast.Not(), operand=c2)
                if i is None:
                    setattr(p, f, new)
                else:
                    getattr(p, f)[i] = new
                ast.fix_missing_locations(t2)
                yield "notin", f"`{ast.unparse(c)[:60]}` written with an outer not", c.lineno, fn.name, t2


def _always_returns(stmts) -> bool:
    if not stmts:
        return False
    last = stmts[-1]
    if isinstance(last, (ast.Return, ast.Raise)):
        return True
    if isinstance(last, ast.If) and last.orelse:
        return _always_returns(last.body) and _always_returns(last.orelse)
    return False


# ----------------------------------------------------------------------------- running
def run_variant(args):
    repo, rel, src, kind, desc, func, line = args
    import check as check_mod
    tmp = tempfile.mkdtemp(prefix="gcmverif_tw_")
    try:
        shutil.copytree(os.path.join(repo, "gcmpy"), os.path.join(tmp, "gcmpy"), ignore=shutil.ignore_patterns("__pycache__"))
        with open(os.path.join(tmp, rel), "w") as fh:
            fh.write(src)
        alarms, und = [], []
        for q in props_of_file(rel):
            buf = io.StringIO()
            with contextlib.redirect_stdout(buf):
                c, results = check_mod.run_property(q, tmp, "quick", write=False, quiet=True)
            alarms += sorted({f"{r.obligation}: {r.reason[:140]}" for r in results if r.status == "VIOLATED" and not r.known})
            und += sorted({r.obligation for r in results if r.status == "UNDECIDED"})
        return {"file": rel, "function": func, "line": line, "kind": kind, "edit": desc, "alarms": alarms, "undecided": und}
    except Exception as e:  # pragma: no cover
        return {"file": rel, "function": func, "line": line, "kind": kind, "edit": desc, "alarms": [f"CRASH {type(e).__name__}: {e}"], "undecided": []}
    finally:
        shutil.rmtree(tmp, ignore_errors=True)


def sweep(files, repo="/repo", jobs=16, max_per_file=400, kinds=None):
    jobs_list = []
    for rel in files:
        path = os.path.join(repo, rel)
        if not os.path.exists(path):
            continue
        with warnings.catch_warnings():
            warnings.simplefilter("ignore")
            tree = ast.parse(open(path).read())
        n = 0
        per_kind = {}
        for kind, desc, line, func, t2 in variants_of(tree):
            if kinds and kind not in kinds:
                continue
            per_kind[kind] = per_kind.get(kind, 0) + 1
            if per_kind[kind] > max_per_file:
                continue
            try:
                src = ast.unparse(t2)
                with warnings.catch_warnings():
                    warnings.simplefilter("ignore")
                    compile(src, rel, "exec")
            except Exception:
                continue
            jobs_list.append((repo, rel, src, kind, desc, func, line))
    if not jobs_list:
        return []
    with ProcessPoolExecutor(max_workers=jobs) as ex:
        return list(ex.map(run_variant, jobs_list, chunksize=4))


def main(argv=None):
    import argparse
    ap = argparse.ArgumentParser()
    ap.add_argument("props", nargs="*")
    ap.add_argument("--repo", default="/repo")
    ap.add_argument("--jobs", type=int, default=16)
    ap.add_argument("--max", type=int, default=400)
    ap.add_argument("--kinds", default="")
    ap.add_argument("--list", action="store_true")
    ap.add_argument("--und", action="store_true")
    a = ap.parse_args(argv)
    want = {p.upper() for p in a.props}
    files = []
    for p in all_props():
        if want and p["id"] not in want:
            continue
        for f in p["anchors"]["files"]:
            if f not in files:
                files.append(f)
    res = sweep(files, a.repo, a.jobs, a.max, set(a.kinds.split(",")) if a.kinds else None)
    by_kind = {}
    for r in res:
        k = by_kind.setdefault(r["kind"], [0, 0, 0])
        k[0] += 1
        k[1] += bool(r["alarms"])
        k[2] += bool(r["undecided"]) and not r["alarms"]
    print(f"{len(res)} behaviour-preserving variants over {len(files)} files")
    for k, (n, al, un) in sorted(by_kind.items()):
        print(f"  {k:8s} variants {n:5d}  false alarms {al:4d}  undecided {un:4d}")
    if a.list:
        seen = set()
        for r in res:
            for al in r["alarms"]:
                key = (r["file"], r["function"], r["kind"], al[:60])
                if key in seen:
                    continue
                seen.add(key)
                print(f"  ALARM {r['file']}:{r['line']} {r['function']} [{r['kind']}] {r['edit']}\n        -> {al}")
    if a.und:
        cnt = {}
        for r in res:
            if not r["alarms"]:
                for u in r["undecided"]:
                    cnt[(u, r["kind"])] = cnt.get((u, r["kind"]), 0) + 1
        for (u, k), n in sorted(cnt.items(), key=lambda x: -x[1])[:60]:
            print(f"  und {u} [{k}] x{n}")
    return 1 if any(r["alarms"] for r in res) else 0


if __name__ == "__main__":
    sys.exit(main())
