#!/venv/bin/python
"""check.py <Cnn|all> [--tier quick|thorough] [--repo DIR] [--replay FILE] [--only OBL] [-v]

Static checks of the properties in /verif/properties.jsonl against the source tree of
PeterStAndrews/gcmpy (default /repo).  Exit 0: every obligation holds (listed known findings are
printed as KNOWN-FINDING lines); exit 1 + `VIOLATION property=<id> replay=<path>`: an obligation is
violated; exit 2 + `ANALYSIS-ERROR ...`: nothing violated but something could not be decided.
"""
import argparse
import importlib
import json
import os
import sys
import time
import traceback

HERE = os.path.dirname(os.path.abspath(__file__))
sys.path.insert(0, HERE)
sys.dont_write_bytecode = True

from gcmstatic.pm import Program, AnalysisError  # noqa: E402
from gcmstatic import report  # noqa: E402
from gcmstatic.report import Ctx, HOLDS, VIOLATED, UNDECIDED  # noqa: E402

ALL = [f"C{i:02d}" for i in range(1, 21)]


# Upstream obligations: property -> {owning property: [obligation ids]}.  The behaviour a property speaks about flows through code
# that another property anchors (the stock motif builders and the factory feed both generators; the network generator hands its
# edge list to the converter; every loader goes through the base class's normaliser and the type dispatch; the evaluator's caches
# are keyed by the name the message-passing driver gives the motif graph ...).  A change there breaks the downstream property as
# well, so its check imports exactly those obligations (same rules, same program model) and reports them under its own id.
UPSTREAM = {
    # property: {owning property: [(obligation id, substrings one of which must occur in the instance's function / reason / text)]}
    # the network generator hands its edge list to the converter: vertices that vanish there / a joint-degree annotation that is
    # not carried are a joint degree sequence that is not realised
    "C01": {"C04": [("C04.1", ()), ("C04.2", ("JOINT_DEGREE",))]},
    # a builder that returns bare vertex ids makes the edge column longer than the name / id columns
    "C02": {"C01": [("C01.9", ("bare vertex", "unpacks the pair"))]},
    # `partition` (in this property's own anchor file) and the order in which a builder uses the vertices decide which stub lands
    # in which motif position
    "C03": {"C01": [("C01.3", ("partition",)), ("C01.9", ("re-orders",))]},
    # the motif sizes the handshake test pairs with the columns are the ones the loaders store
    "C05": {"C06": [("C06.I", ("_motif_sizes",))], "C08": [("C08.1", ("motif sizes", "_motif_sizes"))]},
    # both loaders normalise through the base class and are reached through the type dispatch
    "C07": {"C06": [("C06.4", ("normalise_jdd",)), ("C06.7", ("DELTA", "SPLIT_DEGREE", "JointDegreeDelta", "JointDegreeSplitDegree"))]},
    # "sampling from it reproduces the profile": the sampler of the base class (an anchor file of this property)
    "C08": {"C05": [("C05.1", ()), ("C05.7", ("sample_jds_from_jdd",))], "C06": [("C06.7", ("COVER", "JointDegreeCover"))]},
}


def run_property(prop: str, repo: str, tier: str, only=None, evidence_dir=None, seed=0, verbose=False,
                 quiet=False, write=True, known_path=None):
    t0 = time.time()
    out = []
    try:
        prog = Program(repo)
    except AnalysisError as e:
        print(f"ANALYSIS-ERROR property={prop} obligation=- reason=program model: {e}")
        return 2, []
    ctx = Ctx(prog, prop, tier, only)
    try:
        mod = importlib.import_module(f"checks.{prop.lower()}")
    except ModuleNotFoundError:
        print(f"ANALYSIS-ERROR property={prop} obligation=- reason=no check module")
        return 2, []
    try:
        mod.run(ctx)
        from checks import common_state, common_zero
        common_state.run(ctx)
        common_zero.run(ctx)
    except Exception as e:  # a bug in a check must never look like a violation
        tb = traceback.extract_tb(sys.exc_info()[2])[-1]
        r = report.Result(prop, f"{prop}.*", "checker", UNDECIDED,
                          reason=f"checker exception {type(e).__name__}: {e} at {os.path.basename(tb.filename)}:{tb.lineno}")
        ctx.results.append(r)
    # obligations of the components this property's behaviour flows through (see UPSTREAM): decided by the owning property's
    # rules on the same program model, reported here under this property
    try:
        for dep, prefixes in UPSTREAM.get(prop, {}).items():
            dctx = Ctx(prog, dep, tier, None)
            dmod = importlib.import_module(f"checks.{dep.lower()}")
            dmod.run(dctx)
            if any(px.split(".")[-1] in ("I", "S", "Z", "A") for px, _ in prefixes):
                from checks import common_state, common_zero
                common_state.run(dctx)
                common_zero.run(dctx)
            for px, subs in prefixes:
                seen = [r for r in dctx.results if r.obligation == px]
                took = 0
                for r in seen:
                    blob = " ".join((r.function or "", r.reason or "", r.instance or "", r.construct or ""))
                    if not subs or any(sb in blob for sb in subs):
                        r.prop = prop
                        r.rule = f"[upstream {px}] {r.rule}"
                        r.obligation = f"{prop}.U"
                        ctx.results.append(r)
                        took += 1
                if not took:
                    ctx.results.append(report.Result(prop, f"{prop}.U", f"[upstream {px}] instances concerning {list(subs)}", HOLDS if seen else UNDECIDED,
                                                     function=f"{dep} check", construct=f"{px}: {len(seen)} instance(s) examined",
                                                     reason=f"none of the {len(seen)} instance(s) of {px} that concern {list(subs)} is violated" if seen else f"{px} produced no instance"))
    except Exception as e:
        tb = traceback.extract_tb(sys.exc_info()[2])[-1]
        ctx.results.append(report.Result(prop, f"{prop}.U", "upstream obligations", UNDECIDED,
                                         reason=f"checker exception {type(e).__name__}: {e} at {os.path.basename(tb.filename)}:{tb.lineno}"))
    results = ctx.results
    if only:
        results = [r for r in results if r.obligation == only]
    known = report.load_known(known_path)
    report.apply_known(results, known)
    extra = {}
    if tier == "thorough" and hasattr(mod, "thorough"):
        try:
            extra = mod.thorough(ctx) or {}
        except Exception as e:
            extra = {"thorough_error": f"{type(e).__name__}: {e}"}
    if tier == "thorough":
        try:
            from checks import generic
            extra["repo_wide_generic_rules"] = generic.sweep(prog)
        except Exception as e:
            extra["repo_wide_generic_rules"] = {"error": f"{type(e).__name__}: {e}"}
        try:
            from selftest import runner
            extra["selftest"] = runner.run_for(prop, repo)
        except Exception as e:
            extra["selftest"] = {"error": f"{type(e).__name__}: {e}"}
        try:
            # mechanical sweeps over the property's anchor files: behaviour-preserving edits (false-alarm hunting) and
            # single-point mutations (blind-spot measurement); both judge scratch copies, neither changes the verdict
            from selftest import twingen, mutgen
            files = [f for f in twingen.all_props() if f["id"] == prop][0]["anchors"]["files"]
            res = twingen.sweep(files, repo)
            by = {}
            for r_ in res:
                k = by.setdefault(r_["kind"], {"variants": 0, "false_alarms": 0, "undecided": 0})
                k["variants"] += 1
                k["false_alarms"] += bool(r_["alarms"])
                k["undecided"] += bool(r_["undecided"]) and not r_["alarms"]
            extra["equivalence_sweep"] = {"variants": len(res), "false_alarms": sum(1 for r_ in res if r_["alarms"]), "by_transformation": by,
                                          "alarm_list": [{k_: r_[k_] for k_ in ("file", "function", "line", "kind", "edit", "alarms")} for r_ in res if r_["alarms"]][:20]}
            ms = mutgen.sweep(prop, repo)
            extra["mutation_sweep"] = {k_: ms.get(k_) for k_ in ("generated", "killed", "undecided", "survived", "survivors_triaged_equivalent_or_outside_property", "survivors_open")}
        except Exception as e:
            extra["sweeps"] = {"error": f"{type(e).__name__}: {e}"}
    wall = time.time() - t0
    viol = [r for r in results if r.status == VIOLATED and not r.known]
    und = [r for r in results if r.status == UNDECIDED]
    kn = [r for r in results if r.status == VIOLATED and r.known]
    if verbose:
        for r in results:
            print("  " + r.line())
    for r in kn:
        print(f"KNOWN-FINDING: property={prop} {r.obligation} {r.function} ({r.where}): {r.reason} [{r.key}]")
    n = 0
    for r in viol:
        n += 1
        path = report.write_replay(r, n, repo, evidence_dir) if write else "-"
        print(f"VIOLATION property={prop} replay={path}")
        print(f"  {r.obligation} [{r.rule}] {r.function} ({r.where}): {r.reason}")
        if r.construct:
            print(f"    construct: {r.construct}")
    if not viol:
        for r in und:
            print(f"ANALYSIS-ERROR property={prop} obligation={r.obligation} reason={r.reason}"
                  + (f" @ {r.function} ({r.where})" if r.function else ""))
    if write:
        expl = getattr(mod, "EXPLANATION", "") or (mod.__doc__ or "").strip()
        cmd = f"/venv/bin/python /verif/check.py {prop} --tier {tier}"
        report.write_evidence(prop, tier, seed, results, ctx, wall, cmd, expl, extra, evidence_dir)
    code = 1 if viol else (2 if und else 0)
    if not quiet:
        h = sum(1 for r in results if r.status == HOLDS)
        print(f"{prop}: {len(results)} obligation instances, {h} hold, {len(viol)} violated, {len(kn)} known findings, "
              f"{len(und)} undecided; {wall:.2f}s; exit {code}")
    return code, results


def main(argv=None):
    ap = argparse.ArgumentParser()
    ap.add_argument("prop")
    ap.add_argument("--tier", default=os.environ.get("VERIF_TIER", "quick"), choices=["quick", "thorough"])
    ap.add_argument("--repo", default=os.environ.get("GCMPY_REPO", "/repo"))
    ap.add_argument("--replay")
    ap.add_argument("--only")
    ap.add_argument("--evidence-dir")
    ap.add_argument("--no-write", action="store_true")
    ap.add_argument("-v", "--verbose", action="store_true")
    a = ap.parse_args(argv)
    seed = int(os.environ.get("VERIF_SEED", "0") or 0)
    only = a.only
    if a.replay:
        with open(a.replay) as fh:
            rp = json.load(fh)
        only = rp["obligation"]
        a.verbose = True
    props = ALL if a.prop == "all" else [a.prop.upper()]
    worst = 0
    for p in props:
        try:
            code, _ = run_property(p, a.repo, a.tier, only, a.evidence_dir, seed, a.verbose, write=not a.no_write and not a.replay)
        except Exception as e:
            print(f"ANALYSIS-ERROR property={p} obligation=- reason=checker crashed: {type(e).__name__}: {e}")
            code = 2
        worst = 1 if (code == 1 or worst == 1) else max(worst, code)
    return worst


if __name__ == "__main__":
    sys.exit(main())
