"""C04 - edge list <-> network conversion loses nothing.

Every vertex exists before it is annotated (C04.1: networkx's set_node_attributes silently skips keys that
are not nodes, so a node-creating call over 0..len(joint_degrees)-1 must dominate it); writer and reader
use the same attribute key for the same column, and that table equals the spec {joint_degrees:
JOINT_DEGREE, topologies: TOPOLOGY, motif_id: MOTIF_IDS} (C04.2, C04.3 - equality of writer and reader
alone would accept the consistent swap the round-trip test cannot see); the reader's three edge columns
iterate the same edges() expression (C04.4); exactly the edge list's edges are added to a fresh graph
(C04.5); the reader visits vertices 0..order-1 (C04.6)."""
import ast

from gcmstatic import astx, rules, tm
from gcmstatic.astx import Scope, txt, pat, match
from gcmstatic.pm import AnalysisError
from . import conv_common
from .conv_common import SPEC

EXPLANATION = __doc__


def _vertex_count_texts(G):
    return {f"len({G}.nodes())", f"len({G}.nodes)", f"{G}.order()", f"{G}.number_of_nodes()", f"len({G})", f"len(list({G}.nodes()))"}


def run(ctx):
    prog = ctx.prog
    ctx.trust("networkx add_nodes_from/add_edges_from create exactly the given nodes/edges",
              "networkx set_node_attributes / set_edge_attributes silently ignore keys that are not nodes / edges (confirmed on 3.6.1)",
              "Graph.edges() iteration order is stable while the graph is not mutated")
    w = conv_common.Writer(prog)
    r = conv_common.Reader(prog)
    fn, sc, cfg = w.fn, w.sc, w.cfg
    jd_len = f"len({w.param}.joint_degrees)"

    with ctx.obligation("C04.1", "a node-creating call over 0..len(joint_degrees)-1 dominates set_node_attributes") as o:
        node_sets = [s for s in w.set_calls if s[1] == "node"]
        if not node_sets:
            o.violated(fn, fn.node, "vertices are never annotated with their joint degree")
        creators = []
        for n in astx.walk_fn(fn.node):
            if isinstance(n, ast.Call) and isinstance(n.func, ast.Attribute) and txt(n.func.value) == w.G:
                if n.func.attr == "add_nodes_from" and n.args:
                    a = sc.resolve(n.args[0])
                    while isinstance(a, ast.Call) and txt(a.func) in ("list", "tuple") and len(a.args) == 1:
                        a = a.args[0]
                    b = match(pat("range($n)"), a) or match(pat("range(0, $n)"), a)
                    if isinstance(a, (ast.GeneratorExp, ast.ListComp, ast.SetComp)) and len(a.generators) == 1:
                        gen = a.generators[0]
                        over_jd = (match(pat(f"enumerate({w.param}.joint_degrees)"), gen.iter) is not None or match(pat(f"range(len({w.param}.joint_degrees))"), gen.iter) is not None)
                        if over_jd and gen.ifs:
                            creators.append((n, None, "filtered:" + txt(gen.ifs[0])))
                            continue
                        if over_jd and not gen.ifs:
                            idx = txt(gen.target.elts[0]) if isinstance(gen.target, ast.Tuple) else txt(gen.target)
                            if txt(a.elt) == idx:
                                creators.append((n, tm.parse(jd_len), "range"))
                                continue
                    if b is not None:
                        creators.append((n, rules.term_of(b["n"], sc), "range"))
                    else:
                        b2 = match(pat("range($lo, $n)"), a)
                        if b2 is not None:
                            creators.append((n, None, f"range starting at {txt(b2['lo'])}"))
                        else:
                            creators.append((n, None, txt(a)))
                elif n.func.attr == "add_node" and n.args:
                    lp = w.par.loops_of(n)
                    if lp:
                        it = lp[0].iter
                        b = match(pat("range($n)"), it)
                        e = match(pat(f"enumerate({w.param}.joint_degrees)"), it)
                        tv = lp[0].target
                        if b is not None and txt(n.args[0]) == txt(tv):
                            creators.append((n, rules.term_of(b["n"], sc), "loop"))
                        elif e is not None and isinstance(tv, ast.Tuple) and txt(n.args[0]) == txt(tv.elts[0]):
                            creators.append((n, tm.parse(jd_len), "loop"))
        want = tm.parse(jd_len)
        good = [c for c in creators if c[1] is not None and c[1] == want]
        for call, kind, gexp, dexp, kexp, mem in node_sets:
            st = w.par.stmt_of(call)
            if good and any(cfg.dominates(w.par.stmt_of(c[0]) if c[2] != "loop" else w.par.loops_of(c[0])[0], st) for c in good):
                o.holds(fn, good[0][0], f"{txt(good[0][0])} creates one node per joint-degree entry before the annotation")
            elif creators and any(c[1] is not None for c in creators):
                c = next(c for c in creators if c[1] is not None)
                if tm.compare(c[1], want) == "different":
                    o.violated(fn, c[0], f"nodes 0..{tm.show(c[1])}-1 are created, the joint degree sequence has {jd_len} entries: "
                                         "degree-zero vertices at the end vanish (set_node_attributes ignores absent nodes)")
                elif not cfg.dominates(w.par.stmt_of(c[0]), st):
                    o.violated(fn, c[0], "nodes are created only after / not on every path before set_node_attributes, which ignores absent nodes")
                else:
                    o.undecided("node creation not comparable with the joint degree sequence length", fn, c[0])
            elif creators and any(str(c[2]).startswith("filtered:") for c in creators):
                c = next(c for c in creators if str(c[2]).startswith("filtered:"))
                o.violated(fn, c[0], f"only the vertices satisfying `{c[2][9:]}` are created explicitly; every other vertex exists only if it happens to be an end point of an edge "
                                     "(a vertex whose stubs were left over by an incomplete last motif is in no edge): it vanishes, set_node_attributes skips it, and the reverse "
                                     "conversion returns a shorter sequence / raises KeyError")
            elif creators:
                o.undecided(f"node creation over `{creators[0][2]}` not recognised", fn, creators[0][0])
            else:
                o.violated(fn, call, "nodes exist only as end points of edges: vertices of joint degree zero vanish (set_node_attributes silently skips "
                                     "absent nodes) and the reverse conversion raises KeyError")

    writer_table = {}
    with ctx.obligation("C04.2", "writer: attribute key <-> column table, keyed by the row's own vertex / edge", floor=3) as o:
        for call, kind, gexp, dexp, kexp, mem in w.set_calls:
            if gexp is None or txt(gexp) != w.G:
                o.undecided(f"attributes set on `{txt(gexp) if gexp is not None else '?'}`, not on {w.G}", fn, call)
                continue
            if mem is None:
                if kexp is not None and isinstance(kexp, ast.Constant):
                    o.violated(fn, call, f"attribute key is the literal {txt(kexp)}, not a NetworkNames member: readers look the value up under NetworkNames.*")
                else:
                    o.undecided(f"attribute key `{txt(kexp) if kexp is not None else '?'}` is not a NetworkNames member", fn, call)
                continue
            p = w.dict_provenance(dexp)
            if p is None:
                # the table is filled for SOME rows only:  for n, jd in enumerate(col): if <test on the row>: D[n] = jd
                part = None
                if isinstance(dexp, ast.Name):
                    for st_ in [n for n in astx.walk_fn(w.fn.node) if isinstance(n, ast.Assign) and len(n.targets) == 1 and isinstance(n.targets[0], ast.Subscript)
                                and txt(n.targets[0].value) == dexp.id]:
                        lps_ = w.par.loops_of(st_)
                        if len(lps_) == 1:
                            cs_ = [t_ for t_, _ in rules.path_conditions(w.par, st_, upto=lps_[0]) if astx.names_in(t_) & astx.names_in(lps_[0].target)]
                            if cs_:
                                part = (st_, cs_[0])
                if part is not None:
                    o.violated(fn, part[0], f"`{txt(part[0])}` runs only when `{txt(part[1])[:60]}`: the rows for which it is false never get NetworkNames.{mem}, "
                                            "so readers of the annotation fail (KeyError) or see a shorter column than there are vertices / edges", shape_free=True)
                else:
                    o.undecided(f"dictionary `{txt(dexp)}` passed to {txt(call.func)} not recognised", fn, call)
                continue
            ksrc, vsrc, site, _ = p
            want_col = SPEC.get(mem)
            want_key = ("index", "joint_degrees") if kind == "node" else ("col", "edge_list")
            if want_col is None:
                o.undecided(f"unknown attribute {mem}", fn, call)
                continue
            if vsrc[0] == "col":
                writer_table[mem] = vsrc[1]
            if vsrc != ("col", want_col):
                o.violated(fn, call, f"NetworkNames.{mem} is written from {vsrc[1] if vsrc[0] != 'other' else vsrc[1]!r}, it must carry the `{want_col}` column")
            elif ksrc != want_key:
                o.violated(fn, site if isinstance(site, ast.AST) else call, f"NetworkNames.{mem} values are keyed by {ksrc}, expected {want_key}: annotations land on the wrong vertex/edge")
            elif (kind == "node") != (mem == "JOINT_DEGREE"):
                o.violated(fn, call, f"NetworkNames.{mem} set with {txt(call.func)}")
            else:
                o.holds(fn, call, f"{mem} <- {want_col}, keyed by {'vertex index' if kind == 'node' else 'the edge of the same row'}")
        missing = [m for m in SPEC if m not in [s[5] for s in w.set_calls]]
        for m in missing:
            o.violated(fn, fn.node, f"attribute NetworkNames.{m} is never written by the converter")

    reader_table = {}
    with ctx.obligation("C04.3", "reader: same table; writer = reader = spec", floor=3) as o:
        rf = r.fn
        # every column (the joint degrees of the vertices included) is filled on EVERY path that returns the edge list: an
        # early `return model` for, say, an edgeless network must not come before a column is assigned
        rets_ = [n for n in astx.walk_fn(rf.node) if isinstance(n, ast.Return)]
        for col_, sites_ in r.cols.items():
            if col_ != "joint_degrees":
                continue       # the edge columns of a fresh edge list are empty lists: leaving early is right exactly when there are no edges
            first_ = min(sites_, key=lambda n: (n.lineno, n.col_offset))
            early_ = [x for x in rets_ if (x.lineno, x.col_offset) < (first_.lineno, first_.col_offset) and x.value is not None and txt(x.value) == r.model]
            if early_:
                o.violated(rf, early_[0], f"`{txt(early_[0])}` at line {early_[0].lineno} leaves before `{r.model}.{col_}` is filled: on that path the column stays empty "
                                           f"({'every vertex of an edgeless network is lost' if col_ == 'joint_degrees' else 'the columns are no longer parallel'})")
        for mem, col in SPEC.items():
            d = r.describe(col)
            if d is None:
                o.undecided(f"value of model.{col} not recognised", rf)
                continue
            kind, rmem, dom, elt_is_target, st, ktxt = d
            want_kind = "nodes" if col == "joint_degrees" else "edges"
            if kind != want_kind and kind in ("nodes", "edges"):
                o.violated(rf, st, f"{col} is read from G.{kind}, expected G.{want_kind}")
                continue
            if kind != want_kind:
                o.undecided(f"where model.{col} is read from was not recognised ({kind})", rf, st)
                continue
            if rmem is None:
                o.violated(rf, st, f"{col} is read under key `{ktxt}`, not a NetworkNames member") if ktxt and ktxt.startswith(("'", '"')) else o.undecided(f"key `{ktxt}` not recognised", rf, st)
                continue
            reader_table[rmem] = col
            if not elt_is_target:
                o.violated(rf, st, f"{col}: the attribute is looked up for a different element than the one being iterated")
            elif rmem != mem:
                o.violated(rf, st, f"{col} is read from NetworkNames.{rmem}; the writer stores that column under NetworkNames.{writer_table and [k for k, v in writer_table.items() if v == col] or mem}")
            else:
                o.holds(rf, st, f"{col} <- NetworkNames.{mem}")
        if writer_table and reader_table:
            inv_r = {v: k for k, v in reader_table.items()}
            inv_w = {v: k for k, v in writer_table.items()}
            for col in set(inv_r) & set(inv_w):
                if inv_r[col] != inv_w[col] and not any(x.status == "VIOLATED" for x in o.results):
                    o.violated(rf, rf.node, f"writer stores {col} under {inv_w[col]} but the reader reads it from {inv_r[col]}")

    with ctx.obligation("C04.4", "reader: the three edge columns iterate the same edges() with no mutation in between") as o:
        rf = r.fn
        doms = {}
        for col in ("edge_list", "topologies", "motif_id"):
            d = r.describe(col)
            if d is None:
                o.undecided(f"model.{col} not recognised", rf)
                doms = None
                break
            dom = d[2]
            while isinstance(dom, ast.Call) and txt(dom.func) in ("list", "tuple", "iter") and len(dom.args) == 1:
                dom = dom.args[0]
            doms[col] = (txt(dom), d[4])
        if doms:
            # a column built by walking the edge column that was filled a few lines earlier (`for e in model.edge_list`) walks
            # the same edges in the same order, provided that column is the plain list of G.edges()
            el_t = doms["edge_list"][0]
            for col in ("topologies", "motif_id"):
                if doms[col][0].endswith(".edge_list") and el_t in (f"{r.G}.edges()", f"{r.G}.edges"):
                    doms[col] = (el_t, doms[col][1])
            texts = {t for t, _ in doms.values()}
            ok_texts = {f"{r.G}.edges()", f"{r.G}.edges"}
            if len(texts) == 1 and texts <= ok_texts:
                o.holds(rf, doms["edge_list"][1], f"all three columns iterate {next(iter(texts))}")
            elif len({t.replace("()", "") for t in texts}) == 1 and all(t in ok_texts for t in texts):
                o.holds(rf, doms["edge_list"][1], "all three columns iterate G.edges")
            else:
                odd = [c for c, (t, _) in doms.items() if t not in ok_texts]
                if odd and len(odd) < 3:
                    o.violated(rf, doms[odd[0]][1], f"column {odd[0]} iterates `{doms[odd[0]][0]}` while the others iterate {r.G}.edges(): rows no longer correspond")
                elif len(texts) == 1:
                    # all three use the same non-canonical (e.g. sorted) order: still parallel
                    t = next(iter(texts))
                    if r.G in t and "edges" in t and "[" not in t:
                        o.holds(rf, doms["edge_list"][1], f"all three columns iterate `{t}`")
                    else:
                        o.violated(rf, doms["edge_list"][1], f"the edge columns iterate `{t}`, not all edges of the network")
                else:
                    o.undecided(f"edge iteration domains {sorted(texts)} not recognised", rf)
        effs = rules.effects_on(prog, rf, [r.param], scope=r.sc)
        if effs:
            o.violated(rf, effs[0].node, f"the network is mutated during conversion ({effs[0].kind})")

    with ctx.obligation("C04.5", "exactly the edge list's edges are added to a fresh graph") as o:
        adds = [n for n in astx.walk_fn(fn.node) if isinstance(n, ast.Call) and isinstance(n.func, ast.Attribute)
                and n.func.attr in ("add_edges_from", "add_edge") and txt(n.func.value) in (w.G, w.model)]
        if len(adds) != 1 or adds[0].func.attr != "add_edges_from":
            o.undecided(f"expected one add_edges_from call, found {len(adds)}", fn)
        else:
            a = sc.resolve(adds[0].args[0]) if adds[0].args else None
            if a is not None and conv_common.col_of(a, w.param) == "edge_list" and not adds[0].keywords:
                o.holds(fn, adds[0], "add_edges_from(edgelist.edge_list) on a fresh Network()")
            elif isinstance(a, ast.Subscript) and conv_common.col_of(a.value, w.param) == "edge_list":
                o.violated(fn, adds[0], f"only `{txt(a)}` of the edges is added")
            elif isinstance(a, (ast.ListComp, ast.GeneratorExp)) and a.generators[0].ifs:
                o.violated(fn, adds[0], "edges are filtered while being added")
            else:
                o.undecided(f"added edges `{txt(a) if a is not None else '?'}` not recognised", fn, adds[0])

    with ctx.obligation("C04.6", "reader visits vertices 0..order-1") as o:
        rf = r.fn
        d = r.describe("joint_degrees")
        sites_ = r.cols.get("joint_degrees", [])
        v_ = r.sc.resolve(sites_[0].value) if len(sites_) == 1 else None
        while isinstance(v_, ast.Call) and txt(v_.func) in ("list", "tuple") and len(v_.args) == 1:
            v_ = v_.args[0]
        it_ = v_.generators[0].iter if isinstance(v_, (ast.ListComp, ast.GeneratorExp)) and len(v_.generators) == 1 else None
        if it_ is not None and isinstance(it_, ast.Call) and txt(it_.func) in (f"{r.G}.nodes", f"{r.G}.nodes.data", f"{r.G}.nodes.items", f"{r.G}.nodes.values") \
                and not any(isinstance(x, ast.Call) and txt(x.func) == "sorted" for x in ast.walk(v_)):
            o.violated(rf, sites_[0], f"the joint degrees are collected in the graph's INSERTION order (`{txt(it_)[:60]}`), not by vertex label 0..order-1: for a network whose vertices were "
                                      "not inserted as 0, 1, 2, .. entry i is no longer the joint degree of vertex i", shape_free=True)
        elif isinstance(v_, (ast.ListComp, ast.GeneratorExp)) and len(v_.generators) == 1 and v_.generators[0].ifs:
            o.violated(rf, sites_[0], f"only the vertices that pass `{txt(v_.generators[0].ifs[0])[:80]}` contribute their joint degree: the returned sequence is shorter than the vertex "
                                      "set and every later entry is attributed to the wrong vertex", shape_free=True)
        elif d is None:
            o.undecided("model.joint_degrees not recognised", rf)
        else:
            dom = d[2]
            b1 = match(pat("range($n)"), dom)
            b2 = match(pat("range($lo, $n)"), dom)
            b3 = match(pat("range($lo, $n, $s)"), dom)
            if b1 is not None and txt(b1["n"]) in _vertex_count_texts(r.G):
                o.holds(rf, d[4], f"range({txt(b1['n'])})")
            elif b2 is not None and astx.const_value(b2["lo"]) == 0 and txt(b2["n"]) in _vertex_count_texts(r.G):
                o.holds(rf, d[4], f"range(0, {txt(b2['n'])})")
            elif b1 is not None or b2 is not None or b3 is not None:
                o.violated(rf, d[4], f"vertex range `{txt(dom)}` is not 0..order-1: some vertex's joint degree is dropped")
            elif txt(dom) in (f"sorted({r.G}.nodes())", f"sorted({r.G}.nodes)", f"sorted({r.G})"):
                o.holds(rf, d[4], "sorted node ids (= 0..order-1 for generated networks)")
            else:
                o.undecided(f"vertex iteration `{txt(dom)}` not recognised", rf, d[4])
