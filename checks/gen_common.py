"""Shared recognition of the two generator bodies (GCMAlgorithmFast / GCMAlgorithmCustomMotifs)."""
import ast

from gcmstatic import astx, rules
from gcmstatic.astx import Scope, txt, pat, match
from gcmstatic.cfg import CFG
from gcmstatic.pm import AnalysisError

GENERATORS = ("GCMAlgorithmFast.random_clustered_graph", "GCMAlgorithmCustomMotifs.random_clustered_graph")
TABLES = ("_motif_sizes", "_build_functions", "_edge_names")


class Gen:
    """Facts about one generator function, located structurally."""

    def __init__(self, prog, qualname):
        self.prog = prog
        self.fn = prog.func(qualname)
        self.sc = Scope(self.fn.node)
        self.cfg = CFG(self.fn.node)
        self.par = self.sc.parents
        if len(self.fn.params) < 2:
            raise AnalysisError(f"{qualname} no longer takes (self, jds)")
        self.jds = self.fn.params[1]
        self.build_loop = None      # set when the stub lists are accumulated by a loop instead of a comprehension
        self.stubs, self.stubs_def = self._find_stubs()
        self.edgelist = self._find_edgelist()

    def ext(self, f):
        return self.prog.external(self.fn.module, f)

    def _find_stubs(self):
        """The local whose (single) definition consumes zip(*jds)."""
        cands = []
        for name, sites in self.sc.assigns.items():
            for st in sites:
                if any(isinstance(n, ast.Call) and txt(n.func) == "zip" and len(n.args) == 1 and isinstance(n.args[0], ast.Starred)
                       and txt(n.args[0].value) == self.jds for n in ast.walk(st.value)):
                    cands.append((name, st))
        if not cands:
            # the same construction written out as an accumulation loop:  stubs = []; for r in ..zip(*jds)..: stubs.append(..)
            for name in list(self.sc.assigns):
                comp = rules.as_comprehension(self.sc, name)
                if comp is not None and any(isinstance(n, ast.Call) and txt(n.func) == "zip" and len(n.args) == 1 and isinstance(n.args[0], ast.Starred)
                                            and txt(n.args[0].value) == self.jds for n in ast.walk(comp.generators[0].iter)):
                    st0 = self.sc.assigns[name][0]
                    synth = ast.copy_location(ast.Assign(targets=[ast.Name(id=name, ctx=ast.Store())], value=comp, lineno=st0.lineno, col_offset=st0.col_offset), st0)
                    self.build_loop = self.par.loops_of(self.sc.mutated[name][0])[0]
                    return name, synth
        if len(cands) != 1:
            raise AnalysisError(f"{self.fn.qualname}: expected one stub-list construction over zip(*{self.jds}), found {len(cands)}")
        name, st = cands[0]
        if self.sc.n_bindings(name) != 1:
            raise AnalysisError(f"{self.fn.qualname}: `{name}` is bound {self.sc.n_bindings(name)} times")
        return name, st

    def _find_edgelist(self):
        for name, sites in self.sc.assigns.items():
            if len(sites) == 1 and isinstance(sites[0].value, ast.Call) and txt(sites[0].value.func) == "LightWeightEdgeList":
                return name
        raise AnalysisError(f"{self.fn.qualname}: no local bound to LightWeightEdgeList()")

    # loops iterating the stub lists: returns list of (for_node, form, elem_var, idx_var)
    def stub_loops(self):
        out = []
        for n in astx.walk_fn(self.fn.node):
            if not isinstance(n, ast.For) or n is self.build_loop:
                continue
            it = n.iter
            if isinstance(it, ast.Name) and it.id == self.stubs and isinstance(n.target, ast.Name):
                out.append((n, "direct", n.target.id, None))
            elif isinstance(it, ast.Call) and txt(it.func) == "enumerate" and it.args and isinstance(n.target, ast.Tuple) \
                    and len(n.target.elts) == 2 and all(isinstance(e, ast.Name) for e in n.target.elts):
                a0 = it.args[0]
                if isinstance(a0, ast.Name) and a0.id == self.stubs:
                    out.append((n, "enumerate", n.target.elts[1].id, n.target.elts[0].id))
                elif isinstance(a0, ast.Subscript) and txt(a0.value) == self.stubs:
                    out.append((n, "enumerate-sliced", n.target.elts[1].id, n.target.elts[0].id))
                elif (isinstance(a0, ast.Call) and txt(a0.func) in ("filter", "itertools.filterfalse", "filterfalse") and any(txt(x) == self.stubs for x in a0.args)) or \
                        (isinstance(a0, (ast.GeneratorExp, ast.ListComp)) and a0.generators[0].ifs and txt(a0.generators[0].iter) == self.stubs):
                    out.append((n, "enumerate-filtered", n.target.elts[1].id, n.target.elts[0].id))
            elif isinstance(it, ast.Subscript) and txt(it.value) == self.stubs and isinstance(n.target, ast.Name):
                out.append((n, "sliced", n.target.id, None))
            elif isinstance(it, ast.Call) and txt(it.func) == "range" and len(it.args) == 1 and txt(it.args[0]) == f"len({self.stubs})" \
                    and isinstance(n.target, ast.Name):
                out.append((n, "index", None, n.target.id))
        return out

    def in_build(self, node) -> bool:
        """node belongs to the construction of the stub lists (not an effect on the finished lists)"""
        return self.build_loop is not None and self.par.inside(node, self.build_loop)

    def private_rng(self, recv):
        """The `random.Random(..)` constructor call a shuffle receiver stands for (written in place, or a local bound
        once to it), else None."""
        r = self.sc.resolve(recv) if not isinstance(recv, ast.Call) else recv
        if isinstance(r, ast.Call) and self.ext(r.func) in ("random.Random", "random.SystemRandom"):
            return r
        return None

    def rng_site(self, recv):
        """the statement / expression where the generator object used at `recv` is created"""
        if isinstance(recv, ast.Name):
            d = self.sc.def_stmt(recv.id)
            return d if d is not None else recv
        return recv

    def shuffle_calls(self):
        """[(call, arg)] for calls resolving to random.shuffle - the module-level function, or the method of a
        `random.Random(..)` object (judged separately by C03.4: where it is created and from what seed)."""
        out = []
        for n in astx.walk_fn(self.fn.node):
            if not isinstance(n, ast.Call):
                continue
            if self.ext(n.func) == "random.shuffle":
                out.append((n, n.args[0] if n.args else None))
            elif isinstance(n.func, ast.Attribute) and n.func.attr == "shuffle" and self.private_rng(n.func.value) is not None:
                out.append((n, n.args[0] if n.args else None))
        return out

    def column_extends(self):
        """{'edge_list'|'topologies'|'motif_id': [(call, arg)]} for EdgeList.<col>.extend/append calls."""
        out = {"edge_list": [], "topologies": [], "motif_id": []}
        for n in astx.walk_fn(self.fn.node):
            if isinstance(n, ast.Call) and isinstance(n.func, ast.Attribute) and n.func.attr in ("extend", "append", "insert") \
                    and isinstance(n.func.value, ast.Attribute) and txt(n.func.value.value) == self.edgelist \
                    and n.func.value.attr in out:
                out[n.func.value.attr].append(n)
            if isinstance(n, ast.AugAssign) and isinstance(n.target, ast.Attribute) and txt(n.target.value) == self.edgelist \
                    and n.target.attr in out:
                out[n.target.attr].append(n)
        return out

    def build_calls(self):
        """Calls self._build_functions[IDX](ARG)."""
        out = []
        for n in astx.walk_fn(self.fn.node):
            if isinstance(n, ast.Call) and isinstance(n.func, ast.Subscript) and txt(n.func.value) == "self._build_functions":
                out.append(n)
        return out



def early_exits(o, prog, qn):
    """Every exit of a generator comes after its stub loops: a top-level `if <test>: return <edge list>` placed before them is harmless
    only when the test says that there is nothing to build (an empty joint degree sequence / no stubs at all); a test that looks at ONE
    vertex (`not any(jds[0])`), at a count, at a size ... returns an empty graph for inputs that have edges to place."""
    import ast as _ast
    from gcmstatic import astx as _astx
    from gcmstatic.astx import txt as _txt
    fn = prog.func(qn)
    if fn is None:
        return
    loops = [s_ for s_ in fn.body if isinstance(s_, (_ast.For, _ast.While))]
    if not loops:
        o.undecided(f"no top-level loop in {qn}", fn)
        return
    last = loops[-1]
    params = [p_ for p_ in fn.params if p_ not in ("self", "cls")]
    jds = params[0] if params else "jds"
    n = 0
    for st in fn.body:
        if st is last:
            break
        if not (isinstance(st, _ast.If) and any(isinstance(x_, _ast.Return) for x_ in _ast.walk(st))):
            continue
        n += 1
        # the test, as a disjunction
        parts = st.test.values if isinstance(st.test, _ast.BoolOp) and isinstance(st.test.op, _ast.Or) else [st.test]
        stub_names = {nm for nm in ("stubs",)}
        def nothing(t_):
            tt = _txt(t_)
            return tt in (f"not {jds}", f"len({jds}) == 0", f"{jds} == []", f"not len({jds})", "not stubs", "len(stubs) == 0", "not any(stubs)",
                          f"not any(any(jd) for jd in {jds})", f"not any(map(any, {jds}))")
        bad = [t_ for t_ in parts if not nothing(t_)]
        if not bad:
            o.holds(fn, st, f"early exit only when there is nothing to build (`{_txt(st.test)}`)")
        elif any(isinstance(x_, _ast.Subscript) and _txt(x_.value) == jds for t_ in bad for x_ in _ast.walk(t_)):
            o.violated(fn, st, f"the generator returns before its stub loops when `{_txt(bad[0])}`: the test looks at ONE vertex of `{jds}`, so a sequence whose other vertices "
                               "have edges to place comes back as an empty edge list", shape_free=True)
        else:
            o.undecided(f"the generator returns before its stub loops when `{_txt(bad[0])[:60]}`", fn, st)
    if not n:
        o.holds(fn, last, "no exit before the stub loops")
