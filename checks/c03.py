"""C03 - stub matching is uniformly random (configuration-model measure).

The distribution itself is produced by random.shuffle; what the repository contributes, and what a
change can break, is that EVERY stub list passes through it, once, IN PLACE, between construction and
grouping (C03.1, C03.2), and that nothing re-orders or de-randomises afterwards (C03.3).  If the
permutation is uniform and the grouping is a fixed function of positions, the induced law on placements
is the configuration-model measure, independently per topology.  Nothing is sampled or measured."""
import ast

from gcmstatic import astx, rules
from gcmstatic.astx import txt
from . import gen_common

EXPLANATION = __doc__


def run(ctx):
    prog = ctx.prog
    ctx.trust("random.shuffle is a uniform in-place Fisher-Yates permutation; calls are independent")
    with ctx.obligation("C03.1", "every exit of a generator comes after its stub loops (no placement is cut off)") as o0:
        for qn in gen_common.GENERATORS:
            gen_common.early_exits(o0, prog, qn)
    for qn in gen_common.GENERATORS:
        with ctx.obligation("C03.1", "shuffle of every stub list dominates every consumption of the stub lists") as o1, \
                ctx.obligation("C03.2", "shuffle is applied in place to the element itself") as o2:
            g = gen_common.Gen(prog, qn)
            fn, sc, cfg = g.fn, g.sc, g.cfg
            calls = g.shuffle_calls()
            named = [n for n in astx.walk_fn(fn.node) if isinstance(n, ast.Call) and txt(n.func).split(".")[-1] == "shuffle"]
            if not calls:
                # a hand-written exchange shuffle: `x[i], x[j] = x[j], x[i]` with j drawn from the random module.  Whether its index
                # ranges are those of Fisher-Yates (uniform) is not decided here - but it is not "no shuffle"
                swaps = [n for n in astx.walk_fn(fn.node) if isinstance(n, ast.Assign) and len(n.targets) == 1 and isinstance(n.targets[0], ast.Tuple) and isinstance(n.value, ast.Tuple)
                         and len(n.targets[0].elts) == 2 and all(isinstance(e_, ast.Subscript) for e_ in n.targets[0].elts)
                         and [txt(e_) for e_ in n.targets[0].elts] == [txt(e_) for e_ in reversed(n.value.elts)]]
                draws = [n for n in astx.walk_fn(fn.node) if isinstance(n, ast.Call) and (prog.external(fn.module, n.func) or "").startswith("random.")]
                if named:
                    o1.undecided(f"a call `{txt(named[0].func)}` exists but does not resolve to the standard library's random.shuffle", fn, named[0])
                    o2.undecided("see C03.1", fn)
                elif swaps and draws:
                    o1.undecided(f"the stub lists are permuted by a hand-written exchange loop (`{txt(swaps[0])[:60]}` with `{txt(draws[0])[:40]}`): whether it is uniform is not decided", fn, swaps[0])
                    o2.undecided("see C03.1", fn)
                else:
                    o1.violated(fn, g.stubs_def, f"no random.shuffle of the stub lists `{g.stubs}`: stubs are grouped in construction order "
                                                 "(low-numbered vertices pair with themselves deterministically)")
                    o2.undecided("no shuffle call", fn)
                continue
            loops = {id(l[0]): l for l in g.stub_loops()}
            good_loops = []
            # a shuffle of the CHUNKS a stub list was cut into permutes whole groups: inside each group the stubs keep their
            # construction order, so which vertices share a motif is fixed by vertex order
            chunked = False
            for call, arg in calls:
                if isinstance(arg, ast.Name):
                    d_ = [s_ for s_ in sc.assigns.get(arg.id, []) if isinstance(s_, ast.Assign) and isinstance(s_.value, ast.Call)]
                    others_ = [c2 for c2, a2 in calls if c2 is not call and not (isinstance(a2, ast.Name) and a2.id == arg.id)]
                    if d_ and txt(d_[-1].value.func).split(".")[-1] in ("partition", "grouper", "batched", "chunk", "chunks", "partition_list") and d_[-1].value.args and not others_:
                        chunked = True
                        o1.violated(fn, call, f"`{txt(call)}` shuffles `{arg.id}`, the list of CHUNKS made by `{txt(d_[-1].value)[:50]}` from an unshuffled stub list: the groups are permuted but "
                                              "each group still holds consecutive stubs - motifs are always built from neighbouring vertex numbers, other placements are unreachable", shape_free=True)
            if chunked:
                o2.undecided("see C03.1", fn)
                continue
            for call, arg in calls:
                stmt = g.par.stmt_of(call)
                encl = g.par.loops_of(call)
                loop = next((loops[id(l)] for l in encl if id(l) in loops), None)
                if loop is None:
                    o1.undecided("random.shuffle call is not inside a loop over the stub lists", fn, call)
                    continue
                node, form, elem, idx = loop
                # the call must be an unconditional top-level statement of the loop body
                if not any(stmt is s for s in node.body):
                    # a guard that only skips lists too short to have more than one arrangement of motifs (`if len(xs) > 1`,
                    # `if xs:`) leaves the measure untouched; `> 2` skips a two-stub list, whose two orders give the same
                    # single motif on the same two vertices (undirected) - not decided here, not accused
                    conds_ = rules.path_conditions(g.par, stmt, upto=node)
                    harmless = None
                    if len(conds_) == 1:
                        t_, pol_ = conds_[0]
                        if pol_ and isinstance(t_, ast.Name) and t_.id == elem:
                            harmless = "empty"
                        else:
                            c_ = rules.compare_with_pivot(t_, lambda x: isinstance(x, ast.Call) and txt(x.func) == "len" and len(x.args) == 1 and txt(x.args[0]) == elem, negated=not pol_)
                            v_ = astx.const_value(c_[1]) if c_ is not None else None
                            if c_ is not None and isinstance(v_, int):
                                lim = v_ if c_[0] == ">" else (v_ - 1 if c_[0] == ">=" else (v_ if c_[0] == "!=" and v_ == 0 else None))
                                if lim is not None and lim <= 1:
                                    harmless = "short"
                                elif lim == 2:
                                    harmless = "two"
                    guard_if = g.par.stmt_of(conds_[0][0]) if conds_ else None
                    if harmless in ("empty", "short") and guard_if is not None and any(guard_if is s for s in node.body):
                        o1.holds(fn, call, f"the shuffle is skipped only for a stub list with at most one element (`{txt(conds_[0][0])}`), which has a single order")
                        stmt = guard_if         # judged below like an unconditional statement of the loop body
                    elif harmless in ("empty", "short"):
                        o1.holds(fn, call, f"the shuffle is skipped only for a stub list with at most one element (`{txt(conds_[0][0])}`), which has a single order")
                        continue
                    if harmless == "two":
                        o1.undecided(f"the shuffle is skipped for stub lists of up to two elements (`{txt(conds_[0][0])}`): the two orders of a two-stub list give the same motif on the same "
                                     "vertices unless the builder is direction-sensitive - not decided", fn, call)
                        continue
                    if not (harmless in ("empty", "short") and any(stmt is s for s in node.body)):
                        o1.violated(fn, call, "the shuffle is conditional inside the loop over the stub lists: some topology may be left unshuffled")
                        continue
                before = node.body[: [i for i, s in enumerate(node.body) if s is stmt][0]]
                if any(isinstance(s, (ast.Break, ast.Continue, ast.Return)) for s in before) or \
                        any(isinstance(x, (ast.Break, ast.Return)) for s in node.body for x in ast.walk(s)):
                    o1.violated(fn, node, "the loop over the stub lists can exit before every list has been shuffled")
                    continue
                if form in ("sliced", "enumerate-sliced"):
                    o1.violated(fn, node.iter, f"only a slice of the stub lists is shuffled (`{txt(node.iter)}`): the other topologies are grouped in construction order")
                    continue
                # argument discipline
                if arg is None or len(call.args) != 1 or call.keywords:
                    o2.undecided("random.shuffle called with unexpected arguments", fn, call)
                else:
                    at = txt(arg)
                    ok_args = {elem} if elem else set()
                    if idx:
                        ok_args.add(f"{g.stubs}[{idx}]")
                    if at in ok_args:
                        o2.holds(fn, call, f"random.shuffle({at}) permutes the stub list itself")
                    elif rules._is_copy_expr(arg) and rules.copy_root(arg) in ({elem, g.stubs} - {None}):
                        o2.violated(fn, call, f"random.shuffle({at}) shuffles a fresh copy; the stub list that is grouped stays in construction order")
                        continue
                    elif isinstance(arg, ast.Subscript) and txt(arg.value) == g.stubs and astx.const_value(arg.slice) is not None:
                        o2.violated(fn, call, f"random.shuffle({at}) shuffles the same stub list on every iteration")
                        continue
                    else:
                        o2.undecided(f"argument `{at}` of random.shuffle not recognised as the stub list", fn, call)
                        continue
                good_loops.append(node)
            if not good_loops:
                if not any(r.status == "VIOLATED" for r in o1.results + o2.results):
                    o1.undecided("no well-formed shuffle loop", fn)
                continue
            # dominance over every other read of the stub lists
            sh = good_loops[0]
            reads = []
            for n in astx.walk_fn(fn.node):
                if isinstance(n, ast.Name) and n.id == g.stubs and isinstance(n.ctx, ast.Load):
                    st = g.par.stmt_of(n)
                    # header of a compound statement: the statement node itself
                    if st is sh or g.par.inside(n, sh) or g.in_build(n):
                        continue
                    reads.append(st)
            bad = [st for st in reads if not cfg.dominates(sh, st)]
            if bad:
                o1.violated(fn, bad[0], f"`{g.stubs}` is consumed here on a path that has not passed the shuffle loop")
            elif not reads:
                o1.undecided("stub lists are never consumed", fn)
            else:
                o1.holds(fn, sh, f"shuffle loop over all of `{g.stubs}` dominates its {len(reads)} later uses")

        with ctx.obligation("C03.2", "the stub lists of different topologies are distinct objects (independent shuffles)") as o2b:
            g = gen_common.Gen(prog, qn)
            v = g.stubs_def.value
            if isinstance(v, ast.ListComp):
                elt = v.elt
                fresh = (isinstance(elt, (ast.ListComp, ast.List)) or
                         (isinstance(elt, ast.Call) and txt(elt.func) in ("list", "sorted", "copy.copy", "copy.deepcopy")) or
                         (isinstance(elt, ast.Call) and isinstance(elt.func, ast.Attribute) and elt.func.attr == "copy") or
                         (isinstance(elt, ast.Subscript) and isinstance(elt.slice, ast.Slice)) or
                         (isinstance(elt, ast.BinOp) and isinstance(elt.op, (ast.Add, ast.Mult))))
                if fresh:
                    o2b.holds(g.fn, v, "every topology gets a freshly built list")
                elif isinstance(elt, (ast.Subscript, ast.Name)) or (isinstance(elt, ast.Call) and isinstance(elt.func, ast.Attribute) and elt.func.attr in ("get", "setdefault")):
                    o2b.violated(g.fn, v, f"the stub list of a topology is looked up (`{txt(elt)}`) instead of built: topologies with equal keys share ONE list object, so "
                                          "their shuffles are the same permutation - placements are no longer independent per topology")
                else:
                    o2b.undecided(f"stub list element `{txt(elt)}` not recognised as a fresh list", g.fn, v)
            else:
                o2b.undecided("stub construction is not a list comprehension", g.fn, v)

        with ctx.obligation("C03.3", "nothing re-orders the stub lists after the shuffle") as o3:
            g = gen_common.Gen(prog, qn)
            fn = g.fn
            effs = rules.effects_on(prog, fn, [g.stubs], scope=g.sc)
            bad = [e for e in effs if e.kind in ("call:sort", "call:reverse")]
            for n in astx.walk_fn(fn.node):
                # rebinding a stub list to a sorted copy: stubs[i] = sorted(...), k_list = sorted(k_list)
                if isinstance(n, ast.Assign) and isinstance(n.value, ast.Call) and txt(n.value.func) in ("sorted", "reversed") \
                        and n.value.args and astx.root_name(n.value.args[0]) in rules.aliases_of(g.sc, [g.stubs]):
                    tg = n.targets[0]
                    if astx.root_name(tg) in rules.aliases_of(g.sc, [g.stubs]):
                        bad.append(rules.Effect(n, "rebind-sorted", g.stubs, txt(tg)))
            # deterministic re-ordering of values derived from the shuffled lists (chunks handed to the builder)
            al = rules.aliases_of(g.sc, [g.stubs])
            for n in astx.walk_fn(fn.node):
                if isinstance(n, ast.Call) and txt(n.func) in ("sorted", "reversed") and n.args and astx.root_name(n.args[0] if not isinstance(n.args[0], ast.Call) else (n.args[0].args[0] if n.args[0].args else n.args[0])) in al:
                    st_ = g.par.stmt_of(n)
                    if not (isinstance(st_, ast.Assign) and st_ in [x.node for x in bad]):
                        bad.append(rules.Effect(n, "sorted()", g.stubs, txt(n)))
            # values DERIVED from the shuffled lists (chunks, the group handed to the builder) and the helpers they are handed to
            derived = set(al)
            for _ in range(4):
                for n in astx.walk_fn(fn.node):
                    if isinstance(n, (ast.For, ast.comprehension)) and astx.names_in(n.iter) & derived:
                        derived |= astx.names_in(n.target)
                    if isinstance(n, ast.Assign) and astx.names_in(n.value) & derived and not (isinstance(n.value, ast.Call) and g.in_build(n.value)):
                        for t_ in n.targets:
                            if isinstance(t_, ast.Name) and not (isinstance(n.value, ast.Call) and "_build_functions" in txt(n.value.func)):
                                derived.add(t_.id)
            seen_ = {id(e.node) for e in bad}
            for n in astx.walk_fn(fn.node):
                if isinstance(n, ast.Call) and txt(n.func) in ("sorted", "reversed", "set", "frozenset", "dict.fromkeys") and n.args and id(n) not in seen_ \
                        and astx.names_in(n.args[0]) & ((derived - set(al)) if txt(n.func) in ("sorted", "reversed") else (derived - {g.stubs})) and "_build_functions" not in txt(n.args[0]):
                    bad.append(rules.Effect(n, f"{txt(n.func)}()", g.stubs, txt(n)))
            for n in astx.walk_fn(fn.node):
                if isinstance(n, ast.Call) and any(astx.names_in(a_) & derived for a_ in n.args):
                    cal = rules.resolve_call(prog, fn, n)
                    if cal is None or cal.qualname == fn.qualname or not cal.module.name.startswith("gcmpy."):
                        continue
                    off = 1 if (cal.cls is not None and cal.params and cal.params[0] in ("self", "cls")) else 0
                    ps = {cal.params[i + off] for i, a_ in enumerate(n.args) if i + off < len(cal.params) and astx.names_in(a_) & derived}
                    for m in astx.walk_fn(cal.node):
                        hit = None
                        if isinstance(m, ast.Call) and txt(m.func) in ("sorted", "reversed", "set", "frozenset") and m.args and astx.names_in(m.args[0]) & ps:
                            hit = txt(m)[:60]
                        if isinstance(m, ast.Call) and isinstance(m.func, ast.Attribute) and m.func.attr in ("sort", "reverse") and astx.names_in(m.func.value) & ps:
                            hit = txt(m)[:60]
                        if hit:
                            o3.violated(cal, m, f"`{hit}` in `{cal.qualname}` re-orders (or de-duplicates) what it is handed from the shuffled stub lists: the blocks / stubs are "
                                                "matched by vertex order instead of by the shuffle - placements are biased by vertex id", shape_free=True)
            if bad:
                for e in bad:
                    o3.violated(fn, e.node, f"{e.kind} on {e.path} re-orders shuffled stubs deterministically: which vertex lands in which slot of a motif is then fixed by vertex order "
                                            "(placements that differ only inside a motif become unreachable)")
            else:
                o3.holds(fn, g.stubs_def, f"no sort/reverse effect on `{g.stubs}` or its elements")

    for qn in gen_common.GENERATORS:
        with ctx.obligation("C03.4", "a private generator used for the shuffles is created once per call, from a seed that differs between calls") as o4:
            try:
                g = gen_common.Gen(prog, qn)
            except Exception as e:          # the generator itself is judged (or found unanalysable) by C03.1
                o4.undecided(f"generator not analysable: {e}", prog.func(qn) if qn in prog.functions else None)
                continue
            priv = [(c, g.private_rng(c.func.value)) for c, _ in g.shuffle_calls() if isinstance(c.func, ast.Attribute) and g.private_rng(c.func.value) is not None]
            if not priv:
                o4.holds(g.fn, g.fn.node, "the shuffles draw from the module-level generator")
                continue
            for call, ctor in priv:
                site = g.rng_site(call.func.value)
                loops = g.par.loops_of(site if isinstance(site, ast.AST) else call)
                seed = ctor.args[0] if ctor.args else next((k.value for k in ctor.keywords if k.arg in ("x", "seed")), None)
                if seed is not None and astx.const_value(g.sc.resolve(seed)) is not None and not isinstance(astx.const_value(g.sc.resolve(seed)), type(None)):
                    o4.violated(g.fn, ctor, f"the generator is created from the constant seed `{txt(seed)}`: every call produces the same placement", shape_free=True)
                    continue
                if loops and seed is not None:
                    bound_in_loop = {x.id for l in loops for x in ast.walk(l) if isinstance(x, ast.Name) and isinstance(x.ctx, ast.Store)}
                    seed_names = astx.names_in(seed)
                    variant = bool(seed_names & bound_in_loop) or any(isinstance(x, ast.Call) for x in ast.walk(seed))
                    if not variant:
                        o4.violated(g.fn, ctor, f"`{txt(ctor)}` is created anew inside the loop over the stub lists from the loop-invariant seed `{txt(seed)}`: every topology is "
                                                "shuffled by the SAME stream, so stub lists of equal length receive the same permutation - placements are not independent per topology",
                                    shape_free=True)
                        continue
                o4.holds(g.fn, ctor, "private generator created from a per-call seed" + (" outside the stub loop" if not loops else " that varies with the topology"))

    with ctx.obligation("C03.3", "the package never reseeds the global RNG") as o:
        seeds = []
        for fn in prog.all_functions():
            for n in astx.walk_fn(fn.node):
                if isinstance(n, ast.Call):
                    e = prog.external(fn.module, n.func)
                    if e in ("random.seed", "random.setstate", "numpy.random.seed"):
                        seeds.append((fn, n, e))
        for mi in prog.modules.values():
            for st in mi.tree.body:
                if isinstance(st, ast.Expr) and isinstance(st.value, ast.Call) and prog.external(mi, st.value.func) in ("random.seed", "random.setstate"):
                    seeds.append((None, st, "module-level " + txt(st.value.func)))
        if seeds:
            for fn, n, e in seeds:
                o.violated(fn, n, f"{e} inside library code fixes the RNG state: placements are no longer a fresh uniform sample")
        else:
            o.holds(None, None, f"no random.seed / setstate call in {len(prog.functions)} functions", construct="repo-wide scan")
