"""C14 - degree-distribution algebra is consistent and invertible.

Each routine IS the formula the statement names (formula conformance through the function summariser and
the term normaliser): mean (C14.1), forward excess distribution q_i(k - e_i) = k_i P(k)/<k_i> (C14.2),
single inversion P_i(k + e_i) ~ q_i(k)/(k_i + 1) (C14.3), no key that is not derived from the caller's
names (C14.4), rescale-merge-renormalise (C14.5), row sums (C14.6), key halves (C14.7), network histogram
(C14.8).  The cross-module identities then follow by algebra (done once on paper in DESIGN.md, not by the
tool); floating-point error is not decided."""
import ast

from gcmstatic import astx, rules, tm
from gcmstatic.astx import Scope, txt, pat, match
from gcmstatic.cfg import CFG
from gcmstatic.conform import conform, conform_attr

EXPLANATION = __doc__

REF_MEAN = ['''
def get_average_joint_degrees(jdd):
    avg = [0.0] * len(list(jdd.keys())[0])
    for k in list(jdd.keys()):
        for i in range(len(list(jdd.keys())[0])):
            avg[i] += k[i] * jdd[k]
    return avg
''']

REF_FORWARD = ['''
def get_joint_excess_distributions(jdd):
    qks = []
    for i in range(len(list(jdd.keys())[0])):
        q = {}
        for k in list(jdd.keys()):
            if k[i] > 0:
                t = list(k)
                t[i] -= 1
                q[tuple(t)] = k[i] * jdd[k] / AverageJointDegreeFromJDD.get_average_joint_degrees(jdd)[i]
        qks.append(q)
    return qks
''']

# the averages list has one entry per topology (C14.1: avg = [0.0] * len(first key)), so a loop over its entries is the
# same loop over the topology indices
REF_FORWARD.append('''
def get_joint_excess_distributions(jdd):
    qks = []
    for i in range(len(AverageJointDegreeFromJDD.get_average_joint_degrees(jdd))):
        q = {}
        for k in list(jdd.keys()):
            if k[i] > 0:
                t = list(k)
                t[i] -= 1
                q[tuple(t)] = k[i] * jdd[k] / AverageJointDegreeFromJDD.get_average_joint_degrees(jdd)[i]
        qks.append(q)
    return qks
''')

REF_INVERT = ['''
def invert_single(qk, i):
    P = {}
    for k in qk:
        t = list(k)
        t[i] += 1
        P[tuple(t)] = (qk[k] / (k[i] + 1)) / sum([qk[j] / (j[i] + 1) for j in qk])
    return P
''']

REF_OBS = ['''
def observations_from_dict(qks, keys):
    out = {}
    for it in enumerate(keys):
        out[it[1]] = JointDegreeFromExcess.invert_single(qks[it[1]], it[0])
    return out
''']

REF_ROWSUM = ['''
def get_excess_joint_distributions(ejks):
    if len(ejks._ejks) != len(ejks.excess_degree_keys):
        raise ValueError()
    qks = {}
    for key in ejks._ejks:
        q = {}
        for l in ejks._excess_degree_keys[key]:
            for r in ejks._excess_degree_keys[key]:
                if l + r in ejks._ejks[key]:
                    q[l] = q.get(l, 0.0) + ejks._ejks[key][l + r]
        qks[key] = q
    return qks
''']

REF_HIST = ['''
def get_joint_degree_distribution(G):
    PK = {}
    for n in G.nodes():
        PK[tuple(G.nodes[n][NetworkNames.JOINT_DEGREE])] = PK.get(tuple(G.nodes[n][NetworkNames.JOINT_DEGREE]), 0) + 1.0 / G.order()
    return PK
''', '''
def get_joint_degree_distribution(G):
    PK = {}
    for n in G.nodes():
        PK[tuple(G.nodes[n][NetworkNames.JOINT_DEGREE])] = PK.get(tuple(G.nodes[n][NetworkNames.JOINT_DEGREE]), 0) + 1.0 / G.number_of_nodes()
    return PK
''']

REF_HALVES = ['''
def get_excess_degree_keys(self):
    self._excess_degree_keys = {}
    for t in self._ejks:
        s = set()
        for k in self._ejks[t]:
            s.add(tuple(list(k)[: len(list(k)) // 2]))
            s.add(tuple(list(k)[len(list(k)) // 2 :]))
        self._excess_degree_keys[t] = list(s)
''']


def run(ctx):
    prog = ctx.prog
    ctx.trust("dict iteration order is stable; dict.update overwrites equal keys; float arithmetic is not modelled")

    with ctx.obligation("C14.1", "mean joint degree = P-weighted mean") as o:
        conform(o, prog.func("AverageJointDegreeFromJDD.get_average_joint_degrees"), REF_MEAN, "avg[i] = sum_k k[i] P(k)")

    with ctx.obligation("C14.2", "forward: q_i(k - e_i) = k_i P(k) / <k_i> for k_i > 0") as o:
        conform(o, prog.func("JointExcessfromJDD.get_joint_excess_distributions"), REF_FORWARD, "excess distribution")

    with ctx.obligation("C14.3", "single inversion: P_i(k + e_i) = (q(k)/(k_i+1)) / sum_k' q(k')/(k'_i+1)", floor=2) as o:
        inv = prog.func("JointDegreeFromExcess.invert_single")
        conform(o, inv, REF_INVERT, "invert_single")
        conform(o, prog.func("JointDegreeFromExcess.observations_from_dict"), REF_OBS, "observation i uses the i-th name and index i")
        # the inversion is a pure function of the caller's excess distribution: it must not write into it (directly or
        # through a local alias) - a caller that inverts the same distribution twice, or keeps using it, sees the damage
        for e_ in rules.effects_on(prog, inv, [inv.params[0]], scope=Scope(inv.node)):
            o.violated(inv, e_.node, f"invert_single modifies the caller's excess distribution `{inv.params[0]}` in place ({e_.kind} on {e_.path}): "
                                     "a second inversion of the same input, or any later use of it, works on the overwritten values")

    gf = prog.func("JointDegreeFromExcess.get_joint_degree_distribution")
    sc = Scope(gf.node)
    cfg = CFG(gf.node)
    par = sc.parents
    qks_p, keys_p = gf.params[0], gf.params[1]
    obs = [nm for nm, sites in sc.assigns.items() if len(sites) == 1 and isinstance(sites[0].value, ast.Call)
           and txt(sites[0].value.func).endswith("observations_from_dict")]

    with ctx.obligation("C14.4", "every key used on the name-keyed mappings derives from the caller's names") as o:
        fns = [prog.func("JointDegreeFromExcess.get_joint_degree_distribution"), prog.func("JointDegreeFromExcess.observations_from_dict"),
               prog.func("JointExcessfromJDD.convert_list_qks_to_dict"), prog.func("JointExcessfromJDD.convert_dict_qks_to_list"),
               prog.func("JointExcessFromEjk.get_excess_joint_distributions")]
        n_sub = 0
        for f in fns:
            for n in astx.walk_fn(f.node):
                if isinstance(n, ast.Subscript) and isinstance(n.slice, ast.Constant) and isinstance(n.slice.value, str):
                    o.violated(f, n, f"`{txt(n)}`: a literal name is used as key of a mapping keyed by the caller's topology names; any other naming raises KeyError / reads the wrong table")
                elif isinstance(n, ast.Subscript):
                    n_sub += 1
            s2 = Scope(f.node)
            for nm, sites in s2.assigns.items():
                for st in sites:
                    if isinstance(st.value, ast.Constant) and isinstance(st.value.value, str):
                        used_as_key = [x for x in astx.walk_fn(f.node) if isinstance(x, ast.Subscript) and txt(x.slice) == nm]
                        cmp_ = [x for x in astx.walk_fn(f.node) if isinstance(x, ast.Compare) and nm in astx.names_in(x)]
                        if used_as_key or cmp_:
                            o.violated(f, st, f"`{nm} = {txt(st.value)}` is a hard-coded topology name used as a key: any other naming raises KeyError")
        if not any(r.status == "VIOLATED" for r in o.results):
            o.holds(None, None, f"{n_sub} subscripts in the name-keyed routines, none with a literal name", construct="key provenance scan")

    def _ob_166(o):
        if len(obs) != 1:
            o.undecided("p_obs = observations_from_dict(qks, keys) not found", gf)
            return
        P_OBS = obs[0]
        # reference topology is one of the caller's names
        ref_nm = None
        for nm, sites in sc.assigns.items():
            if len(sites) == 1:
                v = sites[0].value
                if isinstance(v, ast.Subscript) and txt(v.value) == keys_p:
                    ref_nm = nm
                elif match(pat(f"next(iter({P_OBS}))"), v) is not None or match(pat(f"list({P_OBS})[$i]"), v) is not None \
                        or match(pat(f"list({P_OBS}.keys())[$i]"), v) is not None or match(pat(f"next(iter({keys_p}))"), v) is not None:
                    ref_nm = nm
        inline_ref = None
        if ref_nm is None:
            # used in place, without a local:  p_obs[keys[0]][common_key]
            cands_ = sorted({txt(n_) for n_ in astx.walk_fn(gf.node) if isinstance(n_, ast.Subscript) and txt(n_.value) == keys_p and astx.const_value(n_.slice) is not None})
            if len(cands_) == 1:
                ref_nm = inline_ref = cands_[0]
        if ref_nm is None:
            o.undecided("reference topology is not chosen from the caller's names", gf)
            return
        o.holds(gf, sc.def_stmt(ref_nm) if inline_ref is None else gf.node, f"reference topology `{ref_nm}` is one of the caller's names")
        # common key from the intersection of all observation key sets
        ck = None
        inter_names = [nm for nm, sites in sc.assigns.items() if len(sites) == 1
                       and any(isinstance(x, ast.Call) and txt(x.func) == "set.intersection" for x in ast.walk(sites[0].value))]
        for nm, sites in sc.assigns.items():
            if len(sites) == 1:
                v = sites[0].value
                if isinstance(v, ast.Subscript) and isinstance(v.value, ast.Name) and v.value.id in inter_names:
                    ck = nm
                elif isinstance(v, ast.Call) and txt(v.func) == "next" and any(isinstance(x, ast.Name) and x.id in inter_names for x in ast.walk(v)):
                    ck = nm
        if ck is None or len(inter_names) != 1:
            o.undecided("common key (element of the intersection of all observation key sets) not found", gf)
        else:
            inter = [x for x in ast.walk(sc.single_def(inter_names[0], allow_mutated=True)) if isinstance(x, ast.Call) and txt(x.func) == "set.intersection"][0]
            srcs = txt(sc.resolve(inter, keep=[P_OBS]))
            whole = f"for {''}"
            if "[1:]" in srcs or "[:-1]" in srcs or "[:1]" in srcs:
                o.violated(gf, sc.def_stmt(inter_names[0]), "the common key is taken from a subset of the observations only")
            elif P_OBS in srcs:
                o.holds(gf, sc.def_stmt(ck), f"`{ck}` is drawn from the intersection of every observation's key set")
            else:
                o.undecided("intersection is not over the observations", gf)
        # scaling loop
        scale_loops = [n for n in astx.walk_fn(gf.node) if isinstance(n, ast.For) and txt(n.iter) in (P_OBS, f"{P_OBS}.keys()", keys_p)
                       and any(isinstance(x, ast.AugAssign) and isinstance(x.op, ast.Mult) for x in ast.walk(n))]
        if len(scale_loops) != 1:
            o.undecided("scaling loop not found", gf)
        else:
            sl = scale_loops[0]
            t = txt(sl.target)
            aug = [x for x in ast.walk(sl) if isinstance(x, ast.AugAssign) and isinstance(x.op, ast.Mult)][0]
            inner = par.loops_of(aug)[0]
            # local aliases of the observation being rescaled (obs = p_obs[topology])
            alias = {}
            for s_ in sl.body:
                if isinstance(s_, (ast.Assign, ast.AnnAssign)) and txt(s_.value) == f"{P_OBS}[{t}]":
                    alias[txt(s_.targets[0] if isinstance(s_, ast.Assign) else s_.target)] = f"{P_OBS}[{t}]"

            def de(x):
                tx = txt(x)
                for a_, full in alias.items():
                    if tx == a_ or tx.startswith(a_ + "[") or tx.startswith(a_ + "."):
                        tx = full + tx[len(a_):]
                return tx
            # which topologies are rescaled: all of them, or all but the reference (whose factor is 1)
            facts_ = rules.known_facts(par, aug, upto=sl)
            for t_, pol_ in facts_:
                r_ = rules.compare_with_pivot(t_, lambda x: txt(x) == t, negated=not pol_)
                if r_ is not None and r_[0] == "==":
                    o.violated(gf, par.stmt_of(t_), f"only the topology equal to `{txt(r_[1])}` is rescaled: every other observation keeps its own scale and the merged distribution is wrong")
                elif r_ is not None and r_[0] == "!=":
                    o.holds(gf, par.stmt_of(t_), f"every topology but the reference `{txt(r_[1])}` (factor 1) is rescaled")
            # the factor must not be computed, inside the loop, from an entry that the loop itself rescales
            reads_scaled = [x for x in ast.walk(aug.value) if isinstance(x, ast.Subscript) and de(x.value) == f"{P_OBS}[{t}]"]
            fdef0 = sc.def_stmt(txt(aug.value)) if isinstance(aug.value, ast.Name) else None
            if reads_scaled or (fdef0 is not None and par.inside(fdef0, inner)):
                o.violated(gf, aug, f"the scale factor `{txt(aug.value)}` is evaluated inside the loop from `{txt(reads_scaled[0]) if reads_scaled else txt(fdef0)}`, an entry of the very "
                                    "observation being rescaled: once the loop has passed the common key the factor collapses to 1 and the remaining entries keep the wrong scale")
                ok_target = None
            else:
                ok_target = isinstance(aug.target, ast.Subscript) and de(aug.target.value) == f"{P_OBS}[{t}]" and txt(aug.target.slice) == txt(inner.target) \
                    and de(inner.iter) in (f"{P_OBS}[{t}]", f"{P_OBS}[{t}].keys()", f"list({P_OBS}[{t}])", f"list({P_OBS}[{t}].keys())")
            if ok_target is None:
                pass
            elif not ok_target and False:
                pass
            # EVERY entry of the observation is rescaled: a skip inside the entry loop (`if key in <other observation>: continue`) leaves some
            # entries on their old scale, and the merge then mixes two scales
            skips_ = [n_ for n_ in ast.walk(inner) if isinstance(n_, (ast.Continue, ast.Break)) and par.loops_of(n_) and par.loops_of(n_)[0] is inner] if ok_target else []
            guards_ = [t_ for t_, _ in rules.path_conditions(par, aug, upto=inner)] if ok_target else []
            if ok_target and (skips_ or guards_):
                why_ = txt(rules.path_conditions(par, skips_[0], upto=inner)[0][0]) if skips_ and rules.path_conditions(par, skips_[0], upto=inner) else (txt(guards_[0]) if guards_ else "always")
                o.violated(gf, skips_[0] if skips_ else aug, f"not every entry of the observation is rescaled (`{why_[:70]}` decides): the entries left out keep the old scale, "
                                                              "so the merged distribution mixes two normalisations", shape_free=True)
            elif ok_target is None:
                pass
            elif not ok_target:
                o.undecided("scaled entries are not `p_obs[topology][key] for key in p_obs[topology]`", gf, aug)
            else:
                factor = rules.term_of(aug.value, sc, keep=[P_OBS, ck or "", ref_nm], allow_mutated=True)
                want = tm.parse(f"{P_OBS}[{ref_nm}][{ck}] / {P_OBS}[{t}][{ck}]")
                if ck and factor == want:
                    o.holds(gf, aug, f"every entry of P_t is multiplied by P_ref[c] / P_t[c]")
                elif ck and not tm.has_opaque(factor):
                    o.violated(gf, aug, f"scale factor is {tm.show(factor)}, expected {tm.show(want)}")
                else:
                    o.undecided("scale factor not recognised", gf, aug)
                # the factor must be computed before the inner loop changes p_obs[t][c]
                fdef = sc.def_stmt(txt(aug.value)) if isinstance(aug.value, ast.Name) else None
                if fdef is not None and par.inside(fdef, inner):
                    o.violated(gf, fdef, "the scale factor is recomputed inside the loop that rescales the entries it is computed from")
        # merge
        upd = [n for n in astx.walk_fn(gf.node) if isinstance(n, ast.Call) and isinstance(n.func, ast.Attribute) and n.func.attr == "update"]
        if len(upd) == 1 and par.loops_of(upd[0]) and txt(par.loops_of(upd[0])[0].iter) in (P_OBS, keys_p, f"{P_OBS}.keys()") \
                and txt(upd[0].args[0]) == f"{P_OBS}[{txt(par.loops_of(upd[0])[0].target)}]":
            o.holds(gf, upd[0], "all observations are merged")
            merged = txt(upd[0].func.value)
        elif len(upd) == 1 and par.loops_of(upd[0]) and (txt(par.loops_of(upd[0])[0].iter) in (P_OBS, keys_p, f"{P_OBS}.keys()", f"{P_OBS}.items()", f"{P_OBS}.values()")) \
                and rules.known_facts(par, upd[0], upto=par.loops_of(upd[0])[0]):
            # the merge shares a loop with something that skips some topology (`if t == reference: continue`): that
            # topology's observations never reach the merged distribution
            f0_ = rules.known_facts(par, upd[0], upto=par.loops_of(upd[0])[0])[0]
            o.violated(gf, upd[0], f"`{txt(upd[0])}` only runs when `{'not ' if not f0_[1] else ''}{txt(f0_[0])}`: the observations of the skipped topology are never merged - joint degrees that "
                                   "occur only there are lost and the rest is renormalised without them")
            merged = txt(upd[0].func.value)
        else:
            o.undecided("merge of all observations (dict.update in a loop over all topologies) not recognised", gf)
            merged = None
        # renormalise: total before the division loop
        if merged:
            divs = [n for n in astx.walk_fn(gf.node) if isinstance(n, ast.AugAssign) and isinstance(n.op, ast.Div) and isinstance(n.target, ast.Subscript) and txt(n.target.value) == merged]
            if len(divs) != 1:
                o.violated(gf, gf.node, "the merged distribution is never renormalised") if not divs else o.undecided("several divisions", gf)
            else:
                d = divs[0]
                loop = par.loops_of(d)[0] if par.loops_of(d) else None
                tot = sc.resolve(d.value)
                if match(pat(f"sum({merged}.values())"), tot) is None:
                    o.undecided(f"divisor `{txt(tot)}` is not sum(P.values())", gf, d)
                elif isinstance(d.value, ast.Name) and sc.def_stmt(d.value.id) is not None and loop is not None and not par.inside(sc.def_stmt(d.value.id), loop) \
                        and cfg.dominates(sc.def_stmt(d.value.id), loop) and txt(loop.iter) in (merged, f"{merged}.keys()", f"list({merged})") \
                        and txt(d.target.slice) == txt(loop.target):
                    o.holds(gf, d, "every entry divided by the total computed before the division loop")
                else:
                    o.violated(gf, d, "the total is (re)computed inside the division loop or the loop does not visit every key: entries are divided by different totals")
            rets = [n for n in astx.walk_fn(gf.node) if isinstance(n, ast.Return)]
            if rets and txt(rets[-1].value) == merged:
                o.holds(gf, rets[-1], "returns the merged, renormalised distribution")
    with ctx.obligation("C14.5", "rescale on a common key - merge - renormalise", floor=4) as o:
        _ob_166(o)

    with ctx.obligation("C14.9", "list <-> dict conversions of the per-topology distributions are positional relabelings") as o:
        conform(o, prog.func("JointExcessfromJDD.convert_list_qks_to_dict"), ['''
def convert_list_qks_to_dict(qks_list, keys):
    qks_dict = {}
    for key, qk in zip(keys, qks_list):
        qks_dict[key] = qk
    return qks_dict
'''], "list -> dict: the i-th distribution under the i-th name")
        conform(o, prog.func("JointExcessfromJDD.convert_dict_qks_to_list"), ['''
def convert_dict_qks_to_list(qks_dict, keys):
    qks_list = []
    for key in keys:
        qks_list.append(qks_dict[key])
    return qks_list
'''], "dict -> list: the distributions in the order of the names")

    with ctx.obligation("C14.6", "row sums: q[left] += ejk[left + right] over the topology's excess keys x itself") as o:
        conform(o, prog.func("JointExcessFromEjk.get_excess_joint_distributions"), REF_ROWSUM, "row sums")

    with ctx.obligation("C14.7", "matrix keys split into their two halves, both recorded") as o:
        conform_attr(o, prog.func("JointExcessJointDegreeMatrices.get_excess_degree_keys"), "_excess_degree_keys", REF_HALVES, "key halves")

    with ctx.obligation("C14.8", "network histogram: + 1/order per vertex under its joint degree") as o:
        conform(o, prog.func("JointDegreeDistributionFromNetwork.get_joint_degree_distribution"), REF_HIST, "empirical jdd")
