"""C18 - bond percolation keeps each edge independently with probability phi.

Decides the structural premise from which the statement follows with `random.random` trusted:
input graph only copied (C18.1), removed set = {e : r_e > phi} with the comparison oriented so that
P(keep) = phi (C18.2), one fresh draw per edge over all edges of the copy (C18.3), result = size of the
largest component / number of vertices (C18.4), exactly the drawn set removed from the copy (C18.5).
Does not sample or measure anything; RNG quality and float rounding are not decided."""
import ast

from gcmstatic import astx, rules, tm
from gcmstatic.astx import Scope, txt, pat, match

EXPLANATION = __doc__

ORDER_TEXTS = ("{G}.order()", "{G}.number_of_nodes()", "len({G})", "len({G}.nodes())", "len({G}.nodes)",
               "len(list({G}.nodes()))", "len(list({G}.nodes))", "nx.number_of_nodes({G})")


def _is_random_call(prog, fn, n):
    return isinstance(n, ast.Call) and prog.external(fn.module, n.func) == "random.random" and not n.args


def run(ctx):
    prog = ctx.prog
    fn = prog.func("bond_percolate")
    sc = Scope(fn.node)
    ctx.trust("random.random() ~ U[0,1), independent draws", "networkx Graph.copy / remove_edges_from / connected_components",
              "sorted(..., key=len) is stable and orders by size")
    if len(fn.params) < 2:
        with ctx.obligation("C18.1", "input untouched") as o:
            o.undecided("bond_percolate no longer takes (graph, phi)", fn)
        return
    g_param, phi = fn.params[0], fn.params[1]

    # the working copy
    copies = [nm for nm in sc.assigns if rules.is_copy_of(sc, nm, [g_param])]

    with ctx.obligation("C18.1", "input graph has no write effect") as o:
        effs = rules.effects_on(prog, fn, [g_param], scope=sc)
        if effs:
            for e in effs:
                o.violated(fn, e.node, f"the input graph `{g_param}` is mutated ({e.kind} on {e.path}); all mutation must go to a copy")
        elif not copies:
            o.undecided(f"no local defined as {g_param}.copy() found", fn)
        else:
            o.holds(fn, sc.def_stmt(copies[0]), f"mutators only on `{copies[0]} = {g_param}.copy()`")

    G = copies[0] if copies else None
    # the removal call
    removes = [(n, b) for n, b in astx.find(list(fn.body), pat("$g.remove_edges_from($es)"))]
    comp = None
    acc_form = None
    with ctx.obligation("C18.5", "exactly the drawn set is removed, from the copy") as o:
        wrong = [n for n in astx.walk_fn(fn.node) if isinstance(n, ast.Call) and isinstance(n.func, ast.Attribute) and n.func.attr in ("remove_nodes_from", "remove_node")]
        if not removes and wrong:
            o.violated(fn, wrong[0], f"`{txt(wrong[0])[:60]}` removes NODES: handed the drawn edges (2-tuples) it finds no node with such a label and silently removes nothing - every "
                                     "bond stays (or, if a tuple happens to be a vertex, a vertex disappears)", shape_free=True)
        elif len(removes) != 1:
            o.undecided(f"expected one remove_edges_from call, found {len(removes)}", fn)
        else:
            n, b = removes[0]
            recv = txt(b["g"])
            es = sc.resolve(b["es"])
            while isinstance(es, ast.Call) and txt(es.func) in ("list", "tuple") and len(es.args) == 1:
                es = es.args[0]
            if recv == g_param:
                pass  # already reported by C18.1
            if isinstance(es, ast.Name):
                # es = []; for e in edges: if r > phi: es.append(e)   is the same comprehension, written out
                acc_form = rules.as_comprehension(sc, es.id)
                if acc_form is not None:
                    es = acc_form
            if isinstance(es, (ast.ListComp, ast.GeneratorExp, ast.SetComp)) and len(es.generators) == 1:
                comp = es
                ok_elt = isinstance(es.elt, ast.Name) and txt(es.elt) == txt(es.generators[0].target)
                if recv == G and ok_elt:
                    o.holds(fn, n, f"{recv}.remove_edges_from(<the drawn edges, unsliced>)")
                elif recv != G and recv != g_param:
                    o.undecided(f"edges removed from `{recv}`, which is not the copy", fn, n)
                elif recv == g_param:
                    o.violated(fn, n, "edges are removed from the input graph itself")
                else:
                    o.undecided("removed elements are not the iterated edges themselves", fn, n)
            elif isinstance(es, ast.Subscript):
                o.violated(fn, n, "only a slice/element of the drawn edge set is removed")
            else:
                o.undecided("the removed set is not a single comprehension over the edges", fn, n)

    with ctx.obligation("C18.2", "keep-probability orientation: removed iff r > phi") as o:
        if comp is None:
            o.undecided("removal comprehension not recognised", fn)
        else:
            gen = comp.generators[0]
            if len(gen.ifs) != 1:
                o.undecided(f"expected exactly one filter in the removal comprehension, found {len(gen.ifs)}", fn, comp)
            else:
                cond = gen.ifs[0]
                r = rules.compare_with_pivot(cond, lambda x: _is_random_call(prog, fn, x))
                if r is None:
                    # maybe the draw was hoisted (C18.3 reports that); try through inlining
                    r2 = rules.compare_with_pivot(sc.resolve(cond), lambda x: _is_random_call(prog, fn, x))
                    if r2 is None:
                        o.undecided("filter is not a comparison between random.random() and an expression", fn, cond)
                    r = r2
                if r is not None:
                    op, other = r
                    t = rules.term_of(other, sc)
                    tphi = tm.sym(phi)
                    if op in (">", ">="):
                        want, desc = tphi, "phi"
                    elif op in ("<", "<="):
                        want, desc = tm.sub(tm.ONE, tphi), "1 - phi"
                    else:
                        want = None
                    if want is None:
                        o.violated(fn, cond, f"edge removal decided by `r {op} ...`, not an inequality against phi")
                    else:
                        res = tm.compare(t, want)
                        if res == "equal":
                            o.holds(fn, cond, f"removed iff random.random() {op} {tm.show(t)}  => P(keep) = phi")
                        elif res == "different":
                            o.violated(fn, cond, f"removed iff random.random() {op} {tm.show(t)}; P(keep)=phi needs the threshold {desc}")
                        else:
                            o.undecided(f"threshold {tm.show(t)} not comparable with {desc}", fn, cond)

    with ctx.obligation("C18.3", "one fresh draw per edge, over all edges of the copy") as o:
        # wherever the draws are made (here or in a helper this function calls): a draw per ADJACENCY entry visits every
        # undirected edge from both ends - two draws per edge, P(keep) = 1 - (1 - phi)^2
        scope_fns = [fn] + [c_ for c_ in (rules.resolve_call(prog, fn, n_) for n_ in astx.walk_fn(fn.node) if isinstance(n_, ast.Call)) if c_ is not None and c_ is not fn]
        for f_ in scope_fns:
            par_ = astx.Parents(f_.node)
            for n_ in ast.walk(f_.node):
                if isinstance(n_, ast.Call) and prog.external(f_.module, n_.func) == "random.random":
                    doms_ = [txt(l_.iter) for l_ in par_.loops_of(n_)] + [txt(g_.iter) for c_ in par_.comps_of(n_) for g_ in c_.generators]
                    adj_ = [d_ for d_ in doms_ if ".adjacency()" in d_ or d_.endswith(".adj") or ".adj.items()" in d_ or ".neighbors(" in d_ or d_.endswith("._adj")]
                    halved_ = any(isinstance(t_, ast.Compare) and len(t_.ops) == 1 and isinstance(t_.ops[0], (ast.Lt, ast.LtE, ast.Gt, ast.GtE)) and isinstance(t_.left, ast.Name)
                                  and isinstance(t_.comparators[0], ast.Name) for t_, _p in rules.path_conditions(par_, n_)) or \
                        any(isinstance(c2_, ast.Compare) and isinstance(c2_.left, ast.Name) and isinstance(c2_.comparators[0], ast.Name) for c_ in par_.comps_of(n_) for g_ in c_.generators for c2_ in g_.ifs)
                    if adj_ and halved_:
                        o.undecided(f"draws are made over `{adj_[0]}` under an ordering test of the end points: whether every edge is visited once is not recognised", f_, n_)
                    elif adj_:
                        o.violated(f_, n_, f"the uniform draw is made per entry of `{adj_[0]}`: an undirected edge appears there once from each end, so it gets TWO draws and is kept "
                                           "with probability 1 - (1 - phi)^2, not phi", sure=True)
        if comp is None:
            o.undecided("removal comprehension not recognised", fn)
        else:
            orig = sc.deref(removes[0][1]["es"]) if acc_form is None else acc_form
            gen = orig.generators[0] if isinstance(orig, (ast.ListComp, ast.GeneratorExp, ast.SetComp)) else comp.generators[0]
            draws = [n for c in gen.ifs for n in ast.walk(c) if _is_random_call(prog, fn, n)]
            if len(draws) == 1:
                o.holds(fn, draws[0], "random.random() is evaluated inside the per-edge filter")
            elif len(draws) == 0:
                o.violated(fn, comp, "no random.random() call inside the per-edge filter: the draw is hoisted, all edges share one draw")
            else:
                o.undecided("more than one draw per edge", fn, comp)
            full = rules.full_iteration_of(gen.iter, sc, [f"{G}.edges()", f"{G}.edges", f"{g_param}.edges()", f"{g_param}.edges"])
            if full is True:
                o.holds(fn, gen.iter, "iterates all edges")
            elif full is False:
                o.violated(fn, gen.iter, "the per-edge draw iterates only a slice of the edges")
            else:
                o.undecided(f"edge iteration `{txt(gen.iter)}` not recognised", fn, gen.iter)

    with ctx.obligation("C18.4", "largest component over all vertices") as o:
        # the graph whose components are measured must keep EVERY vertex of the input: a graph induced by the kept edges
        # (edge_subgraph, Graph(edge list), from_edgelist) loses the vertices all of whose edges were removed
        for n in astx.walk_fn(fn.node):
            if isinstance(n, ast.Call) and prog.external(fn.module, n.func) in ("networkx.connected_components", "networkx.node_connected_component",
                                                                                   "networkx.number_connected_components") and n.args:
                m = sc.resolve(n.args[0])
                induced = (isinstance(m, ast.Call) and isinstance(m.func, ast.Attribute) and m.func.attr == "edge_subgraph") or \
                    (isinstance(m, ast.Call) and prog.external(fn.module, m.func) in ("networkx.from_edgelist",)) or \
                    (isinstance(m, ast.Call) and prog.external(fn.module, m.func) == "networkx.Graph" and m.args and isinstance(n.args[0], ast.Call))
                if induced:
                    o.violated(fn, n, f"components are measured on `{txt(m)[:70]}`, a graph induced by the KEPT EDGES: vertices that lost all their edges are absent from it, "
                                      "so an edgeless outcome has no component at all (size 0 instead of 1) and isolated vertices never count", shape_free=True)
        rets = [n for n in astx.walk_fn(fn.node) if isinstance(n, ast.Return)]
        # shortcut exits: the fraction depends on the GRAPH (its components), never on phi alone - `if phi >= 1: return 1.0` is wrong for
        # every disconnected input; `if len(comps) == 1: return 1.0` (one component = all vertices) is the same value
        extra = [r_ for r_ in rets[:-1]] if len(rets) > 1 else []
        par4 = astx.Parents(fn.node)
        for r_ in extra:
            conds_ = rules.path_conditions(par4, r_)
            names_ = set()
            for t_, _ in conds_:
                names_ |= astx.names_in(t_)
            pparams = [p_ for p_ in fn.params[1:]]
            cval = astx.const_value(r_.value) if r_.value is not None else None
            if cval is not None and conds_ and names_ and names_ <= set(pparams) | {"float", "int", "abs"}:
                o.violated(fn, r_, f"`return {txt(r_.value)}` when `{' and '.join(txt(t_) for t_, _ in conds_)[:60]}`: a constant is handed back without looking at the graph - "
                                   "a disconnected (or edgeless) input does not have that fraction even when every / no edge is kept", shape_free=True)
            elif cval == 1 and len(conds_) == 1 and conds_[0][1] and isinstance(conds_[0][0], ast.Compare) and isinstance(conds_[0][0].left, ast.Call) \
                    and txt(conds_[0][0].left.func) == "len" and isinstance(conds_[0][0].ops[0], ast.Eq) and astx.const_value(conds_[0][0].comparators[0]) == 1:
                o.holds(fn, r_, f"`{txt(conds_[0][0])}`: a single component holds every vertex, the fraction is 1")
            else:
                o.undecided(f"additional exit `return {txt(r_.value)[:40] if r_.value is not None else ''}`", fn, r_)
        if extra:
            rets = rets[-1:]
        # the components that are compared are ALL of them: a filter on the component list (`len(c) > 1`) removes the isolated vertices,
        # which ARE components of size 1 (the answer for an edgeless outcome)
        for n in astx.walk_fn(fn.node):
            if isinstance(n, (ast.ListComp, ast.GeneratorExp)) and len(n.generators) == 1 and n.generators[0].ifs and isinstance(n.generators[0].iter, ast.Call) \
                    and prog.external(fn.module, n.generators[0].iter.func) == "networkx.connected_components":
                o.violated(fn, n, f"the component list is filtered (`{txt(n.generators[0].ifs[0])}`): single vertices are components too - when no edge survives the largest "
                                  "component has size 1, not 0", shape_free=True)
        if len(rets) != 1 or rets[0].value is None:
            o.undecided("expected a single return with a value", fn)
        else:
            val = sc.resolve(rets[0].value)
            while isinstance(val, ast.Call) and txt(val.func) == "float" and len(val.args) == 1:
                val = val.args[0]
            if not (isinstance(val, ast.BinOp) and isinstance(val.op, ast.Div)):
                o.undecided("return value is not a ratio", fn, rets[0])
            else:
                num, den = val.left, val.right
                while isinstance(num, ast.Call) and txt(num.func) == "float" and len(num.args) == 1:
                    num = num.args[0]
                while isinstance(den, ast.Call) and txt(den.func) == "float" and len(den.args) == 1:
                    den = den.args[0]
                graphs = [x for x in (G, g_param) if x]
                den_ok = txt(den) in {t.format(G=x) for t in ORDER_TEXTS for x in graphs}
                if den_ok:
                    o.holds(fn, rets[0], f"denominator {txt(den)} = number of vertices")
                elif any(txt(den) in (f"{x}.number_of_edges()", f"len({x}.edges())", f"len({x}.edges)", f"{x}.size()") for x in graphs):
                    o.violated(fn, rets[0], f"denominator {txt(den)} counts edges, the fraction must be over vertices")
                else:
                    o.undecided(f"denominator `{txt(den)}` not recognised as the vertex count", fn, rets[0])
                # numerator: len(<largest component>)
                v = _largest_component(num, G)
                if v is True:
                    o.holds(fn, rets[0], "numerator = size of the largest connected component of the percolated copy")
                elif isinstance(v, str):
                    o.violated(fn, rets[0], v)
                else:
                    o.undecided(f"numerator `{txt(num)}` not recognised", fn, rets[0])


def _is_components(n, G):
    return isinstance(n, ast.Call) and txt(n.func) in ("nx.connected_components", "networkx.connected_components") \
        and len(n.args) == 1 and txt(n.args[0]) == G


def _largest_component(num, G):
    """True if num == len(largest component of G); str = violation reason; None = unknown."""
    if not (isinstance(num, ast.Call) and txt(num.func) == "len" and len(num.args) == 1):
        return None
    x = num.args[0]
    # max(components, key=len)
    if isinstance(x, ast.Call) and txt(x.func) == "max" and len(x.args) == 1 and _is_components(x.args[0], G):
        kws = {k.arg: txt(k.value) for k in x.keywords}
        if kws == {"key": "len"}:
            return True
        return "max() over the components without key=len does not pick the largest component"
    if isinstance(x, ast.Call) and txt(x.func) == "min" and len(x.args) == 1 and _is_components(x.args[0], G):
        return "min() picks the smallest component"
    # sorted(components, key=len, reverse=True)[0]  /  sorted(components, key=len)[-1]
    if isinstance(x, ast.Subscript) and isinstance(x.value, ast.Call) and txt(x.value.func) == "sorted" \
            and len(x.value.args) == 1 and _is_components(x.value.args[0], G):
        kws = {k.arg: txt(k.value) for k in x.value.keywords}
        idx = astx.const_value(x.slice)
        if kws.get("key", "").replace(" ", "") in ("lambdac:-len(c)", "lambdax:-len(x)", "lambdacomp:-len(comp)", "lambdas:-len(s)") and set(kws) == {"key"}:
            # ascending by -len = descending by size (stable either way)
            return True if idx == 0 else ("the SMALLEST component is selected" if idx == -1 else None)
        if kws.get("key") != "len":
            return "components are not sorted by size (key=len missing)" if "key" not in kws else None
        rev = kws.get("reverse", "False")
        if set(kws) - {"key", "reverse"}:
            return None
        if (rev == "True" and idx == 0) or (rev == "False" and idx == -1):
            return True
        if rev in ("True", "False") and idx in (0, -1):
            return "the component picked is the smallest one (sort order and index disagree)"
        if idx is not None:
            return f"component at index {idx} of the size-sorted list is not the largest"
        return None
    return None
