"""C17 - message passing returns the fixed point of the motif-cover equations.

Decided (sufficient) - repeated queries in any order of phi give the same answers as fresh objects: every
attribute read on any path of theoretical() is either written in theoretical() before the read on every path
(_phi, _H_tau), or configuration written only by the constructor, or a structure-only cache (C15) (C17.1).
Decided (necessary bookkeeping): uniform 0.5 start over every (vertex, motif) (C17.2); the sweep updates both
end points of every edge in every round (C17.3); neighbour products count each other motif exactly once and
skip the focal vertex (C17.4); a message is stored under (focal, id) of the label it was computed from and the
motif graph handed to the evaluator is named by (focal, id) and carries the products as 'u' (C17.5); the result
is 1 - (sum over vertices of the product over its motifs) / order (C17.6); label parsers (C17.7).
NOT decided: that the iteration reaches the fixed point, that the value lies in [0, 1], is 0 at phi = 0 or is
monotone in phi - numerical statements about the iterated map."""
import ast

from gcmstatic import astx, rules, tm
from gcmstatic.astx import Scope, txt, pat, match
from gcmstatic.attrs import AttrState
from gcmstatic.cfg import CFG

EXPLANATION = __doc__
CONFIG = {"_MPM", "_AE", "_iterations"}
GEDGES = ("self._MPM._G.edges()", "self._MPM._G.edges")
GNODES = ("self._MPM._G.nodes()", "self._MPM._G.nodes", "self._MPM._G")


def _once_per_motif(o, fn, loop, acc_name, key_vertex, what):
    """Inside `loop` (over neighbours): id = get_motif_ID(label); if id in done: continue; acc *= H[(v, id)]; done.add(id)."""
    par = astx.Parents(fn.node)
    muls = [n for n in ast.walk(loop) if isinstance(n, ast.AugAssign) and isinstance(n.op, ast.Mult) and txt(n.target) == acc_name]
    if len(muls) != 1:
        o.undecided(f"{what}: expected one `{acc_name} *= ...` in the neighbour loop", fn, loop)
        return
    m = muls[0]
    # the product starts at 1, afresh for every vertex
    outer_ = par.loops_of(loop)
    inits_ = [s for s in (outer_[0].body if outer_ else fn.node.body) if isinstance(s, ast.Assign) and len(s.targets) == 1 and txt(s.targets[0]) == acc_name]
    if len(inits_) == 1 and astx.const_value(inits_[0].value) is not None:
        if astx.const_value(inits_[0].value) == 1:
            o.holds(fn, inits_[0], f"{what}: the product starts at 1 for every vertex")
        else:
            o.violated(fn, inits_[0], f"{what}: the product starts at {astx.const_value(inits_[0].value)!r}, not at 1: every message / vertex term is scaled by it (0: everything vanishes)")
    b = match(pat("self._H_tau[$v, $id]"), m.value) or match(pat("self._H_tau[($v, $id)]"), m.value)
    if b is None:
        o.undecided(f"{what}: factor `{txt(m.value)}` is not a message self._H_tau[(v, id)]", fn, m)
        return
    idn = txt(b["id"])
    if txt(b["v"]) != key_vertex:
        o.violated(fn, m, f"{what}: multiplies the message of vertex `{txt(b['v'])}`, expected `{key_vertex}`")
    # the once-per-motif guard is a path condition of the multiplication: `if id in done: continue` before it,
    # or an enclosing `if id not in done:`
    facts = rules.known_facts(par, m, upto=loop)
    done = None
    for e_, pol in facts:
        t_, p_ = rules.canon_fact(e_, pol)
        if not p_ and t_.startswith(f"{idn} in "):
            done = t_[len(f"{idn} in "):]
    if done is None:
        if any(idn in astx.names_in(e_) for e_, _ in facts):
            o.undecided(f"{what}: the condition on `{idn}` before the multiplication is not a membership test", fn, m)
        else:
            o.violated(fn, m, f"{what}: no `if {idn} in done: continue` before the multiplication: a motif reached through several of its edges is multiplied once per edge")
        return
    adds = [x for x in ast.walk(loop) if isinstance(x, ast.Expr) and isinstance(x.value, ast.Call) and match(pat(f"{done}.add({idn})"), x.value) is not None]
    adds += [x for x in ast.walk(loop) if isinstance(x, ast.Expr) and isinstance(x.value, ast.Call) and match(pat(f"{done}.append({idn})"), x.value) is not None]
    if not adds:
        o.violated(fn, m, f"{what}: the motif id is never recorded in `{done}` after its factor is taken: the once-per-motif guard never fires")
        return
    same_path = rules.canon_facts(rules.known_facts(par, adds[0], upto=loop)) == rules.canon_facts(facts)
    if same_path:
        o.holds(fn, m, f"{what}: H[({key_vertex}, id)] multiplied iff id not yet in `{done}`, and id is recorded on the same path")
    else:
        o.undecided(f"{what}: factor / record are conditional", fn, m)
    # the done-set is fresh per outer vertex
    dd = [s for s in ast.walk(fn.node) if isinstance(s, (ast.Assign, ast.AnnAssign)) and txt(s.targets[0] if isinstance(s, ast.Assign) else s.target) == done]
    outer = par.loops_of(loop)
    if len(dd) == 1 and outer and any(dd[0] is s for s in outer[0].body) and txt(dd[0].value) in ("set()", "set([])", "[]"):
        o.holds(fn, dd[0], f"{what}: `{done}` is reset for every vertex")
    else:
        o.violated(fn, dd[0] if dd else loop, f"{what}: `{done}` is not reset per vertex: motifs seen for one vertex are skipped for the next")
    # id comes from the label of the edge (v, neighbour)
    sc = Scope(fn.node)
    iddef = [s for s in loop.body if isinstance(s, (ast.Assign, ast.AnnAssign)) and txt(s.targets[0] if isinstance(s, ast.Assign) else s.target) == idn]
    if len(iddef) == 1:
        v = iddef[0].value
        bb = match(pat("self._MPM.get_motif_ID($l)"), v)
        lbl = None
        if bb is not None:
            ln = txt(bb["l"])
            ld = [s for s in loop.body if isinstance(s, (ast.Assign, ast.AnnAssign)) and txt(s.targets[0] if isinstance(s, ast.Assign) else s.target) == ln]
            lbl = ld[0].value if len(ld) == 1 else bb["l"]
        nb = txt(loop.target)
        if lbl is not None and match(pat(f"self._MPM.get_edge_cover_label({key_vertex}, {nb})"), lbl) is not None or \
                (lbl is not None and match(pat(f"self._MPM.get_edge_cover_label({nb}, {key_vertex})"), lbl) is not None):
            o.holds(fn, iddef[0], f"{what}: id parsed from the label of edge ({key_vertex}, {nb})")
        else:
            o.violated(fn, iddef[0], f"{what}: motif id is not taken from the cover label of the edge ({key_vertex}, {nb})")


def _root_keyed(prog) -> bool:
    """AutomatedEquation.get_connected_subgraphs keys its table by (root, G.name): read from the key expression."""
    m = prog.func("AutomatedEquation.get_connected_subgraphs")
    if m is None or len(m.params) < 3:
        return False
    msc = Scope(m.node)
    for y in astx.walk_fn(m.node):
        if isinstance(y, ast.Subscript) and astx.self_attr(y.value) == "_connected_subgraphs" and isinstance(y.ctx, ast.Store):
            names = set(astx.names_in(y.slice))
            for nm_ in list(names):
                for d_ in msc.assigns.get(nm_, []):
                    if getattr(d_, "value", None) is not None:
                        names |= set(astx.names_in(d_.value))
            return m.params[2] in names and m.params[1] in names
    return False


def run(ctx):
    prog = ctx.prog
    ctx.trust("AutomatedEquation gives the motif's expectation (C15); networkx neighbors/edges/nodes; ast.literal_eval parses list/tuple literals")
    # message passing keeps ONE evaluator for all sweeps and all phi: the evaluator's caches are part of C17's state discipline
    try:
        from . import c15
        c15.run_cache_rules_for(ctx, "C17.8")
    except Exception as e:      # the evaluator itself is C15's subject; if it is not analysable here, C15 says so
        with ctx.obligation("C17.8", "the evaluator shared by all sweeps caches structure only") as o8:
            o8.undecided(f"evaluator cache rules not applicable: {type(e).__name__}: {e}")
    ci = prog.cls("MessagePassing")
    th = prog.method(ci, "theoretical")
    ch = prog.method(ci, "calculate_H_tau")
    re_ = prog.method(ci, "resolve_equation")
    init = prog.method(ci, "__init__")
    sc = Scope(th.node)
    par = sc.parents
    cfg = CFG(th.node)
    phi = th.params[1]

    # `self._H_tau.update((KEY, V) for x in XS)` on the message dict is the loop `for x in XS: self._H_tau[KEY] = V` (dict.update with an
    # iterable of pairs stores them one by one, in order): written out on the private tree so that the rules below see one spelling
    class _UpdLoop(ast.NodeTransformer):
        def visit_Expr(self, n):
            v = n.value
            if isinstance(v, ast.Call) and isinstance(v.func, ast.Attribute) and v.func.attr == "update" and astx.self_attr(v.func.value) == "_H_tau" and len(v.args) == 1 \
                    and isinstance(v.args[0], (ast.GeneratorExp, ast.ListComp)) and len(v.args[0].generators) == 1 and not v.args[0].generators[0].ifs \
                    and isinstance(v.args[0].elt, ast.Tuple) and len(v.args[0].elt.elts) == 2:
                g_ = v.args[0].generators[0]
                st_ = ast.Assign(targets=[ast.Subscript(value=v.func.value, slice=v.args[0].elt.elts[0], ctx=ast.Store())], value=v.args[0].elt.elts[1], type_comment=None)
                lp_ = ast.For(target=g_.target, iter=g_.iter, body=[st_], orelse=[], type_comment=None)
                return ast.fix_missing_locations(ast.copy_location(lp_, n))
            return n
    _UpdLoop().visit(th.node)
    ast.fix_missing_locations(th.node)
    # ---- init loop (C17.2) located first, C17.1 refers to it
    init_loop = None
    for s in th.body:
        if isinstance(s, ast.For) and txt(s.iter) in GEDGES:
            stores = [n for n in ast.walk(s) if isinstance(n, ast.Assign) and isinstance(n.targets[0], ast.Subscript) and astx.self_attr(n.targets[0].value) == "_H_tau"
                      and astx.const_value(n.value) is not None]
            if stores:
                init_loop = (s, stores)
                break

    with ctx.obligation("C17.1", "queries are history-free: per-query state is written before it is read; the rest is configuration", floor=3) as o:
        st = AttrState(prog, ci)
        s = st.summary(th)
        for a, sites in sorted(s.exposed.items()):
            if a.startswith("__"):
                continue
            f2, nd = sites[0]
            if a in CONFIG:
                continue
            if a == "_H_tau" and init_loop is not None:
                # no re-binding, but the initialisation loop re-initialises every key that is read later
                first_reads = [x for x in sites if not any(par.inside(x[1], init_loop[0]) for _ in [0])]
                o.holds(th, init_loop[0], "self._H_tau is not re-bound, but every (vertex, motif) key is re-initialised by the start loop before any message is read")
                continue
            o.violated(f2, nd, f"`self.{a}` is read here on a path from theoretical() on which it has not been written by this query: the answer depends on earlier queries "
                               f"({'the previous phi' if a == '_phi' else 'stale state'})")
        for a in ("_phi", "_H_tau"):
            if a not in s.exposed:
                k = s.kills.get(a, [])
                if k:
                    o.holds(k[0][0], k[0][1], f"self.{a} is (re)written by every query before it is read")
                elif a in s.reads or a in s.stores:
                    o.violated(th, th.node, f"self.{a} is used but never written by theoretical()")
        # _phi must be the query's own parameter
        ph = [n for n in th.body if isinstance(n, (ast.Assign, ast.AnnAssign)) and astx.self_attr(n.targets[0] if isinstance(n, ast.Assign) else n.target) == "_phi"]
        if ph and txt(ph[0].value) != phi:
            o.violated(th, ph[0], f"self._phi is set to `{txt(ph[0].value)}`, not to the query's `{phi}`")
        # configuration written only by the constructor
        for mname, m in ci.methods.items():
            if mname == "__init__":
                continue
            ms = AttrState(prog, ci).summary(m) if m.name not in ("theoretical",) else s
            for a in CONFIG:
                if a in ms.kills and any(f is m for f, _ in ms.kills[a]):
                    o.violated(m, ms.kills[a][0][1], f"configuration attribute self.{a} is re-bound outside the constructor: later queries see a different evaluator/graph")
        isum = AttrState(prog, ci).summary(init)
        if CONFIG <= isum.must:
            o.holds(init, init.node, f"configuration {sorted(CONFIG)} is set by the constructor only", construct="constructor must-assign")
        else:
            o.violated(init, init.node, f"constructor does not set {sorted(CONFIG - isum.must)}")
        ae_new = [n for n in astx.walk_fn(init.node) if isinstance(n, (ast.Assign, ast.AnnAssign)) and astx.self_attr(n.targets[0] if isinstance(n, ast.Assign) else n.target) == "_AE"]
        if ae_new and txt(ae_new[0].value) != "AutomatedEquation()":
            o.undecided(f"evaluator is `{txt(ae_new[0].value)}`", init, ae_new[0])

    with ctx.obligation("C17.2", "uniform 0.5 start over every (vertex, motif)") as o:
        if init_loop is None:
            o.violated(th, th.node, "no loop initialises the messages for every edge's motif members: the first sweep reads missing / stale messages")
        else:
            lp, stores = init_loop
            stn = stores[0]
            v = astx.const_value(stn.value)
            loops = par.loops_of(stn)
            if v != 0.5:
                o.violated(th, stn, f"messages start at {v}, the fixed point is to be reached from the uniform 0.5 start")
            elif len(loops) == 2 and loops[1] is lp:
                inner = loops[0]
                k = txt(inner.target)
                i, j = (txt(e) for e in lp.target.elts) if isinstance(lp.target, ast.Tuple) else ("?", "?")
                key = stn.targets[0].slice
                lab = [s for s in lp.body if isinstance(s, (ast.Assign, ast.AnnAssign)) and match(pat(f"self._MPM.get_edge_cover_label({i}, {j})"), s.value) is not None]
                labn = txt(lab[0].targets[0] if isinstance(lab[0], ast.Assign) else lab[0].target) if lab else None
                idd = [s for s in lp.body if isinstance(s, (ast.Assign, ast.AnnAssign)) and labn and match(pat(f"self._MPM.get_motif_ID({labn})"), s.value) is not None]
                idn = txt(idd[0].targets[0] if isinstance(idd[0], ast.Assign) else idd[0].target) if idd else None
                ok_inner = labn and txt(inner.iter) == f"self._MPM.get_vertices_in_motif({labn})"
                ok_key = idn and txt(key) in (f"({k}, {idn})",)
                if ok_inner and ok_key:
                    o.holds(th, stn, f"H[(member, motif id)] = 0.5 for every member of the motif of every edge")
                elif not ok_inner:
                    o.violated(th, inner, f"the start loop visits `{txt(inner.iter)}`, not every member of the edge's motif")
                else:
                    o.violated(th, stn, f"start value stored under `{txt(key)}`, expected (member, motif id)")
            else:
                o.undecided("start loop structure not recognised", th, lp)

    with ctx.obligation("C17.3", "sweep: every round updates both end points of every edge with that edge's label") as o:
        rounds = [s for s in th.body if isinstance(s, ast.For) and match(pat("range(self._iterations)"), s.iter) is not None]
        if len(rounds) != 1:
            o.violated(th, th.node, "no loop over range(self._iterations): the fixed-point iteration is not run") if not rounds else o.undecided("several round loops", th)
        else:
            r = rounds[0]
            el = [s for s in r.body if isinstance(s, ast.For)]
            if len(el) != 1 or txt(el[0].iter) not in GEDGES:
                if el and isinstance(el[0].iter, ast.Subscript):
                    o.violated(th, el[0], "a round sweeps only a slice of the edges")
                else:
                    o.undecided("edge sweep not recognised", th, r)
            else:
                e = el[0]
                i, j = (txt(x) for x in e.target.elts) if isinstance(e.target, ast.Tuple) else ("?", "?")
                calls = [n for n in ast.walk(e) if isinstance(n, ast.Call) and txt(n.func) == "self.calculate_H_tau"]
                lab = [s for s in e.body if isinstance(s, (ast.Assign, ast.AnnAssign)) and match(pat(f"self._MPM.get_edge_cover_label({i}, {j})"), s.value) is not None]
                labn = txt(lab[0].targets[0] if isinstance(lab[0], ast.Assign) else lab[0].target) if lab else None
                got = sorted(tuple(txt(a) for a in c.args) for c in calls)
                want = sorted([(i, labn), (j, labn)]) if labn else None
                if want and got == want and all(any(par.stmt_of(c) is s for s in e.body) for c in calls):
                    o.holds(th, e, f"calculate_H_tau({i}, label) and calculate_H_tau({j}, label) for every edge ({i}, {j})")
                else:
                    o.violated(th, e, f"per edge the sweep calls calculate_H_tau with {got}; both end points must be updated with the edge's own label")

    with ctx.obligation("C17.4", "neighbour products count each other motif exactly once; the focal vertex is skipped", floor=6) as o:
        csc = Scope(ch.node)
        cpar = csc.parents
        focal, label = ch.params[1], ch.params[2]
        jl = [s for s in ch.body if isinstance(s, ast.For)]
        if len(jl) != 1:
            o.undecided("member loop of calculate_H_tau not found", ch)
        else:
            jloop = jl[0]
            j = txt(jloop.target)
            vm = csc.resolve(jloop.iter)
            if match(pat(f"self._MPM.get_vertices_in_motif({label})"), vm) is None:
                o.violated(ch, jloop, f"members are taken from `{txt(vm)}`, not from the vertices of this motif's label")
            # the skip of the focal vertex is a path condition of the store prods[j] = ...: `if j == focal: continue` or `if j != focal:`
            pst = [s for s in ast.walk(jloop) if isinstance(s, ast.Assign) and isinstance(s.targets[0], ast.Subscript) and txt(s.targets[0].slice) == j]
            want_skip = rules.canon_fact(astx.pat(f"{j} == {focal}"), False)
            if pst and want_skip in rules.canon_facts(rules.known_facts(cpar, pst[0], upto=jloop)):
                o.holds(ch, pst[0], "the focal vertex is skipped")
            elif pst and not rules.known_facts(cpar, pst[0], upto=jloop):
                # every member gets a product, the focal vertex too.  That is harmless exactly when the products only reach the
                # equation as `u` attributes of the motif's vertices and the equation is evaluated AT the focal vertex: the
                # automated equation never reads the root's own u (C15.4: get_us skips the root).  A consumer that takes the
                # products as a plain collection (prods.values() into a closed form) would count the focal vertex.
                pp = re_.params[3] if re_ is not None and len(re_.params) > 3 else None
                uses = [x for x in astx.walk_fn(re_.node) if isinstance(x, ast.Name) and x.id == pp] if pp else []
                rpar = astx.Parents(re_.node) if re_ is not None else None
                as_attr = bool(uses) and all(isinstance(rpar.parent(x), ast.Call) and prog.external(re_.module, rpar.parent(x).func) == "networkx.set_node_attributes"
                                             and len(rpar.parent(x).args) == 3 and isinstance(rpar.parent(x).args[2], ast.Constant) and rpar.parent(x).args[2].value == "u" for x in uses)
                rets = [x for x in astx.walk_fn(re_.node) if isinstance(x, ast.Return)] if re_ is not None else []
                at_focal = len(rets) == 1 and isinstance(rets[0].value, ast.Call) and txt(rets[0].value.func).endswith(".automated_equation") \
                    and len(rets[0].value.args) == 3 and txt(rets[0].value.args[2]) == re_.params[1]
                if as_attr and at_focal:
                    o.holds(ch, jloop, "the focal vertex gets a product too, but the products only become `u` attributes and the equation is evaluated at the focal vertex, whose own u it never reads")
                else:
                    o.violated(ch, jloop, "the focal vertex is not skipped: its own product enters its own message")
            elif pst and all(astx.names_in(e_) <= {j, focal} for e_, _ in rules.known_facts(cpar, pst[0], upto=jloop)):
                o.violated(ch, jloop, "the focal vertex is not skipped: its own product enters its own message")
            else:
                o.undecided("skip of the focal vertex not recognised", ch, jloop)
            nls = [s for s in jloop.body if isinstance(s, ast.For)]
            if len(nls) != 1:
                o.undecided("neighbour loop not found", ch, jloop)
            else:
                nl = nls[0]
                dom = nl.iter
                if isinstance(dom, ast.Name):
                    defs = [s for s in jloop.body if isinstance(s, (ast.Assign, ast.AnnAssign)) and txt(s.targets[0] if isinstance(s, ast.Assign) else s.target) == dom.id]
                    last = defs[-1].value if defs else None
                    first = defs[0].value if defs else None
                    vmn = txt(jloop.iter)
                    ok_dom = last is not None and match(pat(f"set({dom.id}) - set({vmn})"), last) is not None and first is not None and \
                        match(pat(f"list(self._MPM._G.neighbors({j}))"), first) is not None
                    alt = last is not None and match(pat(f"set(self._MPM._G.neighbors({j})) - set({vmn})"), last) is not None
                    if ok_dom or alt:
                        o.holds(ch, nl, f"neighbours of {j} outside this motif")
                    elif last is not None and "neighbors" in txt(first) and "-" not in txt(last):
                        o.violated(ch, nl, "members of this motif are not excluded from j's neighbours: the motif's own message is multiplied into its input")
                    elif last is not None and isinstance(last, ast.BinOp) and isinstance(last.op, ast.Sub) and "neighbors" in (txt(first) + txt(last)) \
                            and isinstance(last.right, (ast.Set, ast.Call)) and vmn not in txt(last.right) and astx.names_in(last.right) <= {focal, j, "set", "frozenset"}:
                        o.violated(ch, nl, f"only `{txt(last.right)}` is removed from {j}'s neighbours, not every member of this motif (`{vmn}`): the message runs back through the other "
                                           "members of the motif it is being computed for (for motifs of three or more vertices)", shape_free=True)
                    else:
                        o.undecided(f"neighbour domain `{txt(last) if last is not None else dom.id}` not recognised", ch, nl)
                else:
                    o.undecided("neighbour domain not recognised", ch, nl)
                accs = [s for s in jloop.body if isinstance(s, (ast.Assign, ast.AnnAssign)) and astx.const_value(s.value) == 1]
                acc = txt(accs[0].targets[0] if isinstance(accs[0], ast.Assign) else accs[0].target) if accs else "prod_j"
                _once_per_motif(o, ch, nl, acc, j, "calculate_H_tau")
                stp = [s for s in jloop.body if isinstance(s, ast.Assign) and isinstance(s.targets[0], ast.Subscript) and txt(s.targets[0].slice) == j and txt(s.value) == acc]
                if not stp:
                    o.violated(ch, jloop, f"the product for member {j} is not stored under {j}")
        # final product in theoretical
        vl = [s for s in th.body if isinstance(s, ast.For) and txt(s.iter) in GNODES]
        if len(vl) != 1:
            o.undecided("final vertex loop not found", th)
        else:
            v = txt(vl[0].target)
            nls = [s for s in vl[0].body if isinstance(s, ast.For)]
            scv = Scope(th.node)
            if len(nls) == 1 and match(pat(f"self._MPM._G.neighbors({v})"), scv.resolve(nls[0].iter)) is not None:
                accs = [s for s in vl[0].body if isinstance(s, (ast.Assign, ast.AnnAssign)) and astx.const_value(s.value) == 1]
                acc = txt(accs[0].targets[0] if isinstance(accs[0], ast.Assign) else accs[0].target) if accs else "prod"
                _once_per_motif(o, th, nls[0], acc, v, "final vertex product")
            else:
                o.undecided("final neighbour loop not recognised", th, vl[0])

    with ctx.obligation("C17.4", "grouping by motif merges ALL neighbours of one motif (not only adjacent ones)") as og:
        # itertools.groupby only merges CONSECUTIVE equal keys: as a once-per-motif device it needs its input sorted by that key
        n_gb = 0
        for m_ in ci.methods.values():
            msc_ = Scope(m_.node)
            for n_ in ast.walk(m_.node):
                if isinstance(n_, ast.Call) and txt(n_.func) in ("itertools.groupby", "groupby") and n_.args:
                    n_gb += 1
                    src_ = msc_.resolve(n_.args[0])
                    key_ = next((k.value for k in n_.keywords if k.arg == "key"), n_.args[1] if len(n_.args) > 1 else None)
                    srt_ = isinstance(src_, ast.Call) and txt(src_.func) == "sorted"
                    skey_ = next((k.value for k in src_.keywords if k.arg == "key"), None) if srt_ else None
                    if srt_ and ((key_ is None and skey_ is None) or (key_ is not None and skey_ is not None and txt(key_) == txt(skey_))):
                        og.holds(m_, n_, "groupby over input sorted by the same key")
                    elif isinstance(n_.args[0], ast.Name) and n_.args[0].id in m_.params and not srt_ and \
                            [c_ for m2_ in ci.methods.values() for c_ in ast.walk(m2_.node) if isinstance(c_, ast.Call) and txt(c_.func) == f"self.{m_.name}"]:
                        # the grouped collection is handed in: look at what the callers of this helper pass
                        pidx_ = [q for q in m_.params if q != "self"].index(n_.args[0].id)
                        bad_ = []
                        for m2_ in ci.methods.values():
                            sc2_ = Scope(m2_.node)
                            for c_ in ast.walk(m2_.node):
                                if isinstance(c_, ast.Call) and txt(c_.func) == f"self.{m_.name}":
                                    a_ = next((k.value for k in c_.keywords if k.arg == n_.args[0].id), c_.args[pidx_] if pidx_ < len(c_.args) else None)
                                    r_ = sc2_.resolve(a_) if a_ is not None else None
                                    if not (isinstance(r_, ast.Call) and txt(r_.func) == "sorted"):
                                        bad_.append((m2_, c_, a_))
                        if bad_:
                            og.violated(bad_[0][0], bad_[0][1], f"`{txt(bad_[0][1])[:60]}` hands `{txt(bad_[0][2])[:40] if bad_[0][2] is not None else '?'}` (not sorted by motif) to `{m_.name}`, which groups it with "
                                                                f"itertools.groupby: only CONSECUTIVE neighbours of one motif are merged, a motif met again later contributes its message a second time", sure=True)
                        else:
                            og.holds(m_, n_, "every caller passes the neighbours sorted")
                    elif isinstance(n_.args[0], ast.Name) and n_.args[0].id in m_.params and not srt_:
                        og.undecided(f"`{txt(n_)[:60]}` groups a parameter: whether callers pass it sorted by motif is not recognised", m_, n_)
                    else:
                        og.violated(m_, n_, f"`{txt(n_)[:70]}` groups `{txt(n_.args[0])[:30]}`, which is not sorted by that key: groupby merges only CONSECUTIVE equal keys, so a motif whose "
                                            "members are not adjacent in the neighbour order contributes its message more than once", sure=True)
        if not n_gb:
            og.holds(None, None, "no itertools.groupby in MessagePassing", construct="scan")

    with ctx.obligation("C17.5", "the evaluator multiplies the u values it is given (product over the members except the root)") as o:
        # the fixed point is only as good as the motif equation it iterates: the same conformance C15.4 applies to get_us
        from gcmstatic.conform import conform as _conform
        from checks.c15 import REF_US as _REF_US
        gus_ = prog.func("AutomatedEquation.get_us")
        if gus_ is None:
            o.undecided("AutomatedEquation.get_us not found")
        else:
            _conform(o, gus_, _REF_US, "get_us = product of u over the members except the root")

    with ctx.obligation("C17.5", "message stored under (focal, id) of its own label; evaluator input named by (focal, id) and carrying the products as 'u'", floor=3) as o:
        csc = Scope(ch.node)
        focal, label = ch.params[1], ch.params[2]
        sts = [n for n in astx.walk_fn(ch.node) if isinstance(n, ast.Assign) and isinstance(n.targets[0], ast.Subscript) and astx.self_attr(n.targets[0].value) == "_H_tau"]
        if len(sts) != 1:
            o.undecided("message store not found", ch)
        else:
            s0 = sts[0]
            key = csc.resolve(s0.targets[0].slice)
            val = csc.resolve(s0.value, allow_mutated=True)
            if txt(key) == f"({focal}, self._MPM.get_motif_ID({label}))":
                o.holds(ch, s0, "stored under (focal, id of this label)")
            else:
                o.violated(ch, s0, f"message stored under `{txt(key)}`, expected (focal, id parsed from the same label)")
            b = match(pat(f"self.resolve_equation({focal}, {label}, $p)"), s0.value)
            if b is not None:
                o.holds(ch, s0, f"value = resolve_equation(focal, label, {txt(b['p'])})")
            else:
                o.violated(ch, s0, f"stored value `{txt(s0.value)}` is not the motif equation of this focal vertex and label")
        rsc = Scope(re_.node)
        rf, rl, rp = re_.params[1], re_.params[2], re_.params[3]
        gdef = [nm for nm, sites in rsc.assigns.items() if len(sites) == 1 and isinstance(sites[0].value, ast.Call) and txt(sites[0].value.func) in ("nx.Graph", "networkx.Graph")]
        if len(gdef) != 1:
            o.undecided("motif graph construction not found in resolve_equation", re_)
        else:
            H = gdef[0]
            gcall = rsc.assigns[H][0].value
            name_kw = next((k.value for k in gcall.keywords if k.arg == "name"), None)
            if name_kw is None:
                # the name given right after construction: `H.name = ...` / `H.graph["name"] = ...` (networkx stores both in H.graph)
                later = [n.value for n in re_.node.body if isinstance(n, ast.Assign) and len(n.targets) == 1
                         and txt(n.targets[0]) in (f"{H}.name", f"{H}.graph['name']", f'{H}.graph["name"]')]
                if len(later) == 1:
                    name_kw = later[0]
            parts = set()
            if isinstance(name_kw, ast.JoinedStr):
                parts = {txt(rsc.resolve(v.value)) for v in name_kw.values if isinstance(v, ast.FormattedValue)}
            elif isinstance(name_kw, ast.Tuple):
                parts = {txt(rsc.resolve(e)) for e in name_kw.elts}
            need = {rf, f"self._MPM.get_motif_ID({rl})"}
            if name_kw is None:
                o.violated(re_, gcall, "the motif graph is unnamed: the evaluator's structural caches (keyed by name) return another motif's structure")
            elif need <= parts:
                o.holds(re_, gcall, f"motif graph named by (focal, motif id): {sorted(parts)}")
            elif need - parts == {rf} and _root_keyed(prog):
                # the name identifies the motif; the focal vertex is redundant in it because the evaluator keys its root-dependent
                # table by the root as well, and its other table holds a value that depends on the vertex subset only
                # (independent differential audit: 6883 shared cache hits, none differing from a recomputation)
                o.holds(re_, gcall, f"motif graph named by the motif id {sorted(parts)}; the evaluator's root-dependent cache is keyed by the root itself")
            else:
                o.violated(re_, gcall, f"motif graph name {sorted(parts)} lacks {sorted(need - parts)}: evaluator cache entries of different (focal, motif) pairs collide")
            adds = [n for n in astx.walk_fn(re_.node) if isinstance(n, ast.Call) and isinstance(n.func, ast.Attribute) and n.func.attr == "add_edges_from" and txt(n.func.value) == H]
            if adds and txt(rsc.resolve(adds[0].args[0])) == f"self._MPM.get_edges_in_motif({rl})":
                o.holds(re_, adds[0], "edges parsed from the same label")
            else:
                o.violated(re_, adds[0] if adds else re_.node, "motif graph edges are not the edges parsed from this label")
            sets = [n for n in astx.walk_fn(re_.node) if isinstance(n, ast.Call) and prog.external(re_.module, n.func) == "networkx.set_node_attributes"]
            if sets and [txt(a) for a in sets[0].args] == [H, rp, '"u"'.replace('"', "'")]:
                o.holds(re_, sets[0], "products installed as node attribute 'u'")
            elif sets and [txt(a) for a in sets[0].args][:2] == [H, rp]:
                o.violated(re_, sets[0], f"products installed under attribute {txt(sets[0].args[2])}, the evaluator reads 'u'")
            else:
                o.violated(re_, re_.node, "the neighbour products are not installed on the motif graph")
            rets = [n for n in astx.walk_fn(re_.node) if isinstance(n, ast.Return)]
            if rets and match(pat(f"self._AE.automated_equation({H}, self._phi, {rf})"), rets[-1].value) is not None:
                o.holds(re_, rets[-1], "evaluated at this query's phi for this focal vertex")
            else:
                o.violated(re_, rets[-1] if rets else re_.node, f"resolve_equation returns `{txt(rets[-1].value) if rets else None}`, expected automated_equation(H, self._phi, focal)")

    with ctx.obligation("C17.6", "result = 1 - (sum_v prod_v) / number of vertices", floor=2) as o:
        rets = [n for n in th.body if isinstance(n, ast.Return)]
        vl = [s for s in th.body if isinstance(s, ast.For) and txt(s.iter) in GNODES]
        if len(rets) != 1 or len(vl) != 1:
            o.undecided("final average not recognised", th)
        else:
            sums = [s for s in vl[0].body if isinstance(s, ast.AugAssign) and isinstance(s.op, ast.Add)]
            if len(sums) != 1:
                o.undecided("outer sum not recognised", th, vl[0])
            else:
                S = txt(sums[0].target)
                t = rules.term_of(rets[0].value, sc, keep=[S])
                order_forms = [tm.parse("self._MPM._G.order()"), tm.parse("self._MPM._G.number_of_nodes()"), tm.parse("len(self._MPM._G.nodes())"), tm.parse("len(self._MPM._G)")]
                if any(t == tm.sub(tm.ONE, tm.div(tm.sym(S), of)) for of in order_forms):
                    o.holds(th, rets[0], f"returns 1 - {S} / order")
                elif not tm.has_opaque(t):
                    o.violated(th, rets[0], f"returns {tm.show(t)}; the giant-component fraction is 1 - {S} / number of vertices")
                else:
                    o.undecided("return value not understood", th, rets[0])
                accs = [s for s in vl[0].body if isinstance(s, (ast.Assign, ast.AnnAssign)) and astx.const_value(s.value) == 1]
                acc = txt(accs[0].targets[0] if isinstance(accs[0], ast.Assign) else accs[0].target) if accs else None
                init0 = [s for s in th.body if isinstance(s, (ast.Assign, ast.AnnAssign)) and txt(s.targets[0] if isinstance(s, ast.Assign) else s.target) == S]
                # every vertex contributes: a `continue` / `break` of the vertex loop itself (e.g. "skip isolated vertices") drops terms
                # while the denominator still counts all vertices
                parv = astx.Parents(th.node)
                skips = [n for n in ast.walk(vl[0]) if isinstance(n, (ast.Continue, ast.Break)) and parv.loops_of(n) and parv.loops_of(n)[0] is vl[0]
                         and getattr(n, "lineno", 0) < getattr(sums[0], "lineno", 10 ** 9)]
                if skips:
                    cs_ = rules.path_conditions(parv, skips[0], upto=vl[0])
                    o.violated(th, skips[0], f"the final loop skips a vertex when `{' and '.join(txt(t_) for t_, _ in cs_)[:80]}`: its product (1 for a vertex without messages) is not added "
                                             f"to {S}, yet the result still divides by ALL vertices - the fraction comes out too large", shape_free=True)
                elif acc and txt(sums[0].value) == acc and init0 and astx.const_value(init0[0].value) == 0:
                    o.holds(th, sums[0], f"{S} = sum over all vertices of the per-vertex product (starting at 0)")
                else:
                    o.violated(th, sums[0], f"`{txt(sums[0])}` does not add each vertex's product exactly once to a sum starting at 0")

    with ctx.obligation("C17.7", "label parsers", floor=4) as o:
        mx = prog.cls("MessagePassingMixin")
        spec = {"get_motif_topology": "int($l.split('-')[0])", "get_motif_ID": "int($l.split('-')[-1])",
                "get_vertices_in_motif": "ast.literal_eval($l.split('-')[1])", "get_edges_in_motif": "ast.literal_eval($l.split('-')[2])"}
        for name, p in spec.items():
            m = prog.method(mx, name)
            if m is None:
                o.undecided(f"MessagePassingMixin.{name} not found")
                continue
            body = astx.strip_logging(m.body)
            own_ = [q for q in m.params if q not in ("self", "cls")]      # the parser may have become a @staticmethod
            if not own_:
                o.undecided(f"{name} takes no label", m)
                continue
            lp = own_[0]
            # locals (`parts = label.split('-')`, `*_, last = label.split('-')`) are read through
            if len(body) >= 2 and isinstance(body[-1], ast.Return) and body[-1].value is not None and all(isinstance(b_, ast.Assign) and len(b_.targets) == 1 for b_ in body[:-1]):
                env_ = {}
                okb = True
                for b_ in body[:-1]:
                    t_, v_ = b_.targets[0], b_.value
                    if isinstance(t_, ast.Name):
                        env_[t_.id] = v_
                    elif isinstance(t_, ast.Tuple) and sum(isinstance(e_, ast.Starred) for e_ in t_.elts) == 1 and all(isinstance(e_.value if isinstance(e_, ast.Starred) else e_, ast.Name) for e_ in t_.elts):
                        k_ = next(i for i, e_ in enumerate(t_.elts) if isinstance(e_, ast.Starred))
                        for i, e_ in enumerate(t_.elts):
                            if i < k_:
                                env_[e_.id] = ast.Subscript(value=v_, slice=ast.Constant(value=i), ctx=ast.Load())
                            elif i > k_:
                                env_[e_.id] = ast.Subscript(value=v_, slice=ast.UnaryOp(op=ast.USub(), operand=ast.Constant(value=len(t_.elts) - i)), ctx=ast.Load())
                    else:
                        okb = False
                if okb:
                    class _S(ast.NodeTransformer):
                        def visit_Name(self, n):
                            return ast.copy_location(__import__("copy").deepcopy(env_[n.id]), n) if isinstance(n.ctx, ast.Load) and n.id in env_ else n
                    rv_ = body[-1].value
                    for _ in range(4):
                        rv_ = _S().visit(__import__("copy").deepcopy(rv_))
                    ast.fix_missing_locations(rv_)
                    r_ = ast.Return(value=ast.parse(txt(rv_), mode="eval").body)
                    ast.copy_location(r_, body[-1])
                    ast.fix_missing_locations(r_)
                    body = [r_]
            syn_ = {"get_motif_ID": ["int($l.rsplit('-', 1)[-1])", "int($l.rsplit('-', 1)[1])", "int($l.rpartition('-')[2])", "int($l.rpartition('-')[-1])", "int($l.split('-')[3])"],
                    "get_motif_topology": ["int($l.split('-', 1)[0])", "int($l.partition('-')[0])", "int($l.split('-')[-4])"]}.get(name, [])
            if len(body) == 1 and isinstance(body[0], ast.Return) and any(match(pat(q_.replace("$l", lp)), body[0].value) is not None for q_ in [p] + syn_):
                o.holds(m, body[0], f"{name}: {p.replace('$l', 'label')}")
            elif len(body) == 1 and isinstance(body[0], ast.Return) and body[0].value is not None and any(
                    isinstance(x_, ast.Subscript) and isinstance(x_.value, ast.Name) and x_.value.id == lp for x_ in ast.walk(body[0].value)):
                o.violated(m, body[0], f"{name} returns `{txt(body[0].value)}`: it takes CHARACTERS of the label, not its '-' separated fields "
                                       f"(an id / key of two digits is cut to one); expected {p.replace('$l', lp)}", shape_free=True)
            elif len(body) == 1 and isinstance(body[0], ast.Return) and "split('-')" in txt(body[0].value):
                o.violated(m, body[0], f"{name} returns `{txt(body[0].value)}`, the label layout is key-[vertices]-[edges]-id: expected {p.replace('$l', lp)}")
            else:
                o.undecided(f"{name} not recognised", m)
        gl = prog.method(mx, "get_edge_cover_label")
        body = astx.strip_logging(gl.body)
        if len(body) == 1 and isinstance(body[0], ast.Return) and match(pat(f"self._G.edges[{gl.params[1]}, {gl.params[2]}]['CoverLabel']"), body[0].value) is not None:
            o.holds(gl, body[0], "edge label read from the graph's 'CoverLabel' attribute")
        else:
            o.undecided("get_edge_cover_label not recognised", gl)
