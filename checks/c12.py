"""C12 - MCMC rewiring only creates pairings the target allows (and approaches it).

First sentence (decided): the key view's accessors agree with the order in which the view is fed (C12.1); the
four excess tuples are the vertices' joint degrees with exactly the edge topology's position decremented
(C12.2); the numerator looks up exactly the two pairings being created, in the target matrix of that edge's
topology (C12.3); a pairing that is absent from (KeyError) or zero in the target is never accepted: the handler
rejects, `return True` is reachable only through `top / bottom > uniform draw`, and the applied proposals are
the ones built in that call (C12.4).  Second sentence (distance decreases): a statistical statement about the
chain - NOT decided; only the Metropolis ratio's shape, a necessary condition, is checked (C12.5)."""
import ast

from gcmstatic import astx, rules, tm
from gcmstatic.astx import Scope, txt, pat, match
from gcmstatic.cfg import CFG
from gcmstatic.conform import conform
from . import c11

EXPLANATION = __doc__

REF_SWAPPED = ['''
def get_swapped_joint_excess_degree_key(self, G, e0, e1, u0, v0, index):
    us = [u0, self.get_other_vertex(u0, e0), v0, self.get_other_vertex(v0, e1)]
    out = []
    for u in us:
        jd = list(G.nodes[u][NetworkNames.JOINT_DEGREE])
        jd[index] -= 1
        out.append(tuple(jd))
    return JointExcessJointDegreeKeysView(out)
''']

REF_KEY = ['''
def get_joint_excess_degree_key(self, G, e, index):
    out = []
    for u in e:
        jd = list(G.nodes[u][NetworkNames.JOINT_DEGREE])
        jd[index] -= 1
        out.append(tuple(jd))
    return out[0] + out[1]
''']

REF_TOPINDEX = ['''
def get_topology_index(self, topology):
    for it in enumerate(self._topology_names):
        if it[1] == topology:
            return it[0]
    raise ValueError()
''']


def run(ctx):
    prog = ctx.prog
    ctx.trust("random.random() ~ U[0,1); a KeyError is raised by a dict lookup of an absent key")
    ci = prog.cls(c11.CLS)
    sw = prog.method(ci, "swap_condition")
    rw = prog.method(ci, "rewire")
    gs = prog.method(ci, "get_swapped_joint_excess_degree_key")
    kv = prog.cls("JointExcessJointDegreeKeysView")
    ssc = Scope(sw.node)
    spar = ssc.parents
    scfg = CFG(sw.node)
    Gp, e0s_p, e1s_p, u0_p, v0_p = c11.swap_roles(sw)

    # ---- feed order of the view
    feed = None
    def _c12_1(o):
        gsc = Scope(gs.node)
        lists = [n for n in astx.walk_fn(gs.node) if isinstance(n, (ast.Assign, ast.AnnAssign)) and isinstance(n.value, ast.List) and len(n.value.elts) == 4]
        if len(lists) != 1:
            o.undecided("the 4-vertex list feeding the key view was not found", gs)
            return
        elts = lists[0].value.elts
        p = gs.params  # self, G, e0, e1, u0, v0, index
        e0, e1, u0, v0 = p[2], p[3], p[4], p[5]
        name_of = {}
        for i, e in enumerate(elts):
            r = gsc.resolve(e)
            t = txt(r)
            if t == u0:
                name_of[i] = "u0"
            elif t == v0:
                name_of[i] = "v0"
            elif t == f"self.get_other_vertex({u0}, {e0})":
                name_of[i] = "u1"
            elif t == f"self.get_other_vertex({v0}, {e1})":
                name_of[i] = "v1"
            else:
                name_of[i] = None
        if None in name_of.values() or sorted(name_of.values()) != ["u0", "u1", "v0", "v1"]:
            o.undecided(f"feed list `{txt(lists[0].value)}` is not a permutation of u0, u1, v0, v1", gs, lists[0])
            return
        feed = {v: k for k, v in name_of.items()}
        for mname, m in sorted(kv.methods.items()):
            if not mname.startswith("get_") or len(mname) != 8:
                continue
            a, b = mname[4:6], mname[6:8]
            body = astx.strip_logging(m.body)
            if len(body) != 1 or not isinstance(body[0], ast.Return):
                o.undecided(f"{mname} is not a single return", m)
                continue
            bb = match(pat("self._keys[$i] + self._keys[$j]"), body[0].value)
            if bb is None or astx.const_value(bb["i"]) is None:
                o.undecided(f"{mname} returns `{txt(body[0].value)}`", m)
                continue
            i, j = astx.const_value(bb["i"]), astx.const_value(bb["j"])
            if a in feed and b in feed and (i, j) == (feed[a], feed[b]):
                o.holds(m, body[0], f"{mname} = keys[{i}] + keys[{j}] = ({a}, {b}) in feed order {[name_of[k] for k in range(4)]}")
            elif a in feed and b in feed:
                o.violated(m, body[0], f"{mname} returns keys[{i}] + keys[{j}] = ({name_of.get(i)}, {name_of.get(j)}), but the view is fed {[name_of[k] for k in range(4)]}: "
                                       f"the key of the pairing ({a}, {b}) is keys[{feed[a]}] + keys[{feed[b]}]")
        # the view stores the list it is given
        kinit = prog.method(kv, "__init__")
        if kinit is not None:
            st = [n for n in astx.walk_fn(kinit.node) if isinstance(n, (ast.Assign, ast.AnnAssign)) and astx.self_attr(n.targets[0] if isinstance(n, ast.Assign) else n.target) == "_keys"]
            if len(st) == 1 and txt(st[0].value) == kinit.params[1]:
                pass
            else:
                o.violated(kinit, kinit.node, "the key view does not store the list it is constructed from")

    with ctx.obligation("C12.1", "key-view accessors agree with the order in which the view is fed", floor=6) as o:
        _c12_1(o)

    with ctx.obligation("C12.2", "excess tuples: joint degree with exactly the edge topology's position decremented by 1", floor=3) as o:
        conform(o, gs, REF_SWAPPED, "get_swapped_joint_excess_degree_key")
        conform(o, prog.method(ci, "get_joint_excess_degree_key"), REF_KEY, "get_joint_excess_degree_key")
        conform(o, prog.func("JointExcessJointDegreeMatrices.get_topology_index"), REF_TOPINDEX, "get_topology_index")
        # the decrement is unconditional: an end point of degree 1 has EXCESS degree 0 - `if jd[i] > 1: jd[i] -= 1` keys it under 1
        for kf in (gs, prog.method(ci, "get_joint_excess_degree_key")):
            if kf is None:
                continue
            kpar = astx.Parents(kf.node)
            for dec in [n for n in astx.walk_fn(kf.node) if isinstance(n, ast.AugAssign) and isinstance(n.op, ast.Sub) and astx.const_value(n.value) == 1 and isinstance(n.target, ast.Subscript)]:
                conds_ = [t_ for t_, _ in rules.path_conditions(kpar, dec) if txt(dec.target) in txt(t_)]
                if conds_:
                    o.violated(kf, dec, f"`{txt(dec)}` runs only when `{txt(conds_[0])}`: for the other end points the key keeps the DEGREE where the excess degree (degree - 1) "
                                        "belongs, so the pairing is looked up under the wrong key of the target", shape_free=True)

    nl = [n for n in sw.body if isinstance(n, ast.For) and txt(n.iter) == e0s_p]
    filtered = []   # numerator products over a FILTERED collection of keys (judged in C12.4)
    def _c12_3(o):
        if len(nl) != 1:
            o.undecided("numerator loop `for e0 in e0s` not found", sw)
            return
        lp = nl[0]
        e0v = txt(lp.target)
        augs = [n for n in ast.walk(lp) if isinstance(n, ast.AugAssign) and isinstance(n.op, ast.Mult)]
        if len(augs) != 1:
            o.undecided(f"expected one `top *= ...` in the numerator loop, found {len(augs)}", sw, lp)
            return
        aug = augs[0]
        top = txt(aug.target)
        factors = []
        pre_env = {}
        for s_ in astx.stmts_in(lp.body):
            if isinstance(s_, ast.Assign) and len(s_.targets) == 1 and isinstance(s_.targets[0], ast.Name) and isinstance(s_.value, (ast.ListComp, ast.GeneratorExp, ast.Tuple, ast.List)):
                pre_env[s_.targets[0].id] = _subst(s_.value, pre_env)
        def expand_prod(x):
            """math.prod(E(key) for key in (k1, k2) [if ..]) -> [E(k1), E(k2)]; a filter is recorded for C12.4."""
            if not (isinstance(x, ast.Call) and txt(x.func) in ("math.prod", "prod") and len(x.args) == 1 and all(k.arg == "start" and astx.const_value(k.value) == 1 for k in x.keywords)):
                return None
            comp = _subst(x.args[0], pre_env)
            if not (isinstance(comp, (ast.ListComp, ast.GeneratorExp)) and len(comp.generators) == 1 and isinstance(comp.generators[0].target, ast.Name)):
                return None
            g = comp.generators[0]
            it = _subst(g.iter, pre_env)
            if not isinstance(it, (ast.Tuple, ast.List)):
                return None
            if g.ifs:
                filtered.append((x, g))
            return [_subst(comp.elt, {g.target.id: e_}) for e_ in it.elts]
        def flat(x):
            if isinstance(x, ast.BinOp) and isinstance(x.op, ast.Mult):
                flat(x.left)
                flat(x.right)
            else:
                ex = expand_prod(x)
                factors.extend(ex) if ex is not None else factors.append(x)
        flat(aug.value)
        views = [n for n in ast.walk(lp) if isinstance(n, ast.Call) and txt(n.func) == "self.get_swapped_joint_excess_degree_key"]
        kvname = None
        if len(views) == 1:
            st = spar.stmt_of(views[0])
            if isinstance(st, (ast.Assign, ast.AnnAssign)):
                kvname = txt(st.targets[0] if isinstance(st, ast.Assign) else st.target)
        # names of the loop body are re-bound per iteration (and `index` again in the denominator loop):
        # resolve them statement-locally inside this loop
        env = {}
        for s_ in astx.stmts_in(lp.body):
            if isinstance(s_, (ast.Assign, ast.AnnAssign)) and s_.value is not None and isinstance((s_.targets[0] if isinstance(s_, ast.Assign) else s_.target), ast.Name):
                nm = (s_.targets[0] if isinstance(s_, ast.Assign) else s_.target).id
                if nm != kvname:
                    env[nm] = _subst(s_.value, env)
        got = []
        tops = set()
        for f in factors:
            b = match(pat("self._ejks.ejks[$t][$k]"), f) or match(pat("self._ejks._ejks[$t][$k]"), f)
            if b is None and isinstance(f, ast.Subscript):
                # the matrix may be bound to a local first: resolve it (loop-locally, then function-wide)
                mtx = ssc.resolve(_subst(f.value, env))
                b2 = match(pat("self._ejks.ejks[$t]"), mtx) or match(pat("self._ejks._ejks[$t]"), mtx) \
                    or match(pat("self._ejks.ejks.get($t, {})"), mtx) or match(pat("self._ejks._ejks.get($t, {})"), mtx)     # no matrix = no listed pairing
                if b2 is not None:
                    b = {"t": b2["t"], "k": f.slice}
                else:
                    pos = match(pat("list($d.values())[$i]"), mtx) or match(pat("tuple($d.values())[$i]"), mtx) or match(pat("[*$d.values()][$i]"), mtx)
                    if pos is not None and "ejks" in txt(pos["d"]):
                        o.violated(sw, aug, f"the target matrix is selected by POSITION (`{txt(mtx)[:70]}`): that is the insertion order of the caller's dict, not the topology of the edge "
                                            "being swapped - a target given in another order is read from the wrong topology's matrix (forbidden pairings are created)")
                        return
            if b is None:
                o.undecided(f"numerator factor `{txt(f)}` not recognised", sw, aug)
                return
            k = _subst(b["k"], env)
            bk = match(pat(f"{kvname}.$acc()"), k) if kvname else None
            got.append(bk["acc"] if bk else txt(k))
            tops.add(txt(_subst(b["t"], env)))
        want_top = f"{Gp}.edges[{e0v}][NetworkNames.TOPOLOGY]"
        if sorted(got) == ["get_u0v1", "get_v0u1"]:
            o.holds(sw, aug, "numerator = ejks[T][key(u0, v1)] * ejks[T][key(v0, u1)]: exactly the two pairings the swap creates")
        elif all(g_ in ("get_u0v1", "get_v0u1", "get_u0u1", "get_u1u0", "get_v0v1", "get_v1v0") for g_ in got):
            o.violated(sw, aug, f"numerator looks up {sorted(got)}; the swap creates the pairings (u0, v1) and (v0, u1), whose keys are get_u0v1 / get_v0u1")
        else:
            o.undecided(f"numerator keys {sorted(got)} are not read through the key view's accessors: not recognised", sw, aug)
        if tops == {want_top}:
            o.holds(sw, aug, f"both looked up in the target matrix of the edge's own topology")
        else:
            o.violated(sw, aug, f"numerator uses the matrices of {sorted(tops)}, not of the topology of the edge being swapped")
        # the view is built from the same e0, e1, u0, v0 and the index of that topology
        if len(views) == 1:
            env_v = {k_: v_ for k_, v_ in env.items() if k_ != "e1"}
            e1v = None
            for n in ast.walk(lp):
                if isinstance(n, (ast.Assign, ast.AnnAssign)) and isinstance(n.value, ast.Call) and isinstance(n.value.func, ast.Attribute) and n.value.func.attr == "pop":
                    e1v = txt(n.targets[0] if isinstance(n, ast.Assign) else n.target)
            env_v = {k_: v_ for k_, v_ in env.items() if k_ != e1v}
            a = [txt(_subst(x, env_v)) for x in views[0].args]
            want = [Gp, e0v, e1v, u0_p, v0_p, f"self._ejks.get_topology_index({want_top})"]
            if a == want:
                o.holds(sw, views[0], "key view built from the paired edges, their focal vertices and the index of that topology")
            else:
                o.violated(sw, views[0], f"key view built from ({', '.join(a)}), expected ({', '.join(str(w) for w in want)})")
        else:
            o.undecided("key view construction not found", sw)

    with ctx.obligation("C12.3", "the numerator looks up exactly the pairings being created, in the matrix of the edge's topology", floor=3) as o:
        _c12_3(o)

    with ctx.obligation("C12.4", "absent or zero pairing => never accepted", floor=3) as o:
        lp = nl[0]
        aug = [n for n in ast.walk(lp) if isinstance(n, ast.AugAssign) and isinstance(n.op, ast.Mult)][0]
        top = txt(aug.target)
        tries = [a for a in spar.ancestors(aug) if isinstance(a, ast.Try)]
        if not tries:
            o.holds(sw, aug, "numerator lookups are not wrapped: an absent pairing raises KeyError out of swap_condition (never accepted)")
        else:
            t = tries[0]
            for h in t.handlers:
                ht = txt(h.type) if h.type is not None else "(bare)"
                body = astx.strip_logging(h.body)
                ends_false = bool(body) and isinstance(body[-1], ast.Return) and isinstance(body[-1].value, ast.Constant) and body[-1].value.value is False
                ends_raise = bool(body) and isinstance(body[-1], ast.Raise)
                jumps = [x for s in body for x in ast.walk(s) if isinstance(x, (ast.Continue, ast.Pass, ast.Break))]
                if (ends_false or ends_raise) and len(body) == 1:
                    o.holds(sw, h, f"except {ht}: the trial is rejected")
                elif ends_false or ends_raise:
                    o.undecided(f"handler `except {ht}` does more than rejecting", sw, h)
                else:
                    o.violated(sw, h, f"`except {ht}` does not reject the trial ({'continue/pass' if jumps or not body else txt(body[-1])}): a pairing absent from the target is "
                                      "treated as acceptable and can be manufactured")
        # a product over only those created pairings that ARE listed in the target: the absent one is skipped, not rejected
        for call_, g_ in filtered:
            member = [t_ for t_ in g_.ifs if isinstance(t_, ast.Compare) and len(t_.ops) == 1 and isinstance(t_.ops[0], ast.In) and txt(t_.left) == g_.target.id]
            if not member:
                o.undecided(f"the numerator runs over a filtered collection of keys (`{txt(g_.ifs[0])}`)", sw, call_)
                continue
            st_ = spar.stmt_of(call_)
            coll = None
            for s_ in astx.stmts_in(lp.body):
                if isinstance(s_, ast.Assign) and len(s_.targets) == 1 and isinstance(s_.targets[0], ast.Name) and any(x is g_ for x in ast.walk(s_.value)):
                    coll = s_.targets[0].id
            counted = coll is not None and any(isinstance(x, ast.Call) and txt(x.func) == "len" and x.args and txt(x.args[0]) == coll for x in ast.walk(lp))
            rejected = any(isinstance(i_, ast.If) and isinstance(x, ast.Compare) and isinstance(x.ops[0], ast.NotIn) and txt(x.comparators[0]) == txt(member[0].comparators[0])
                           for i_ in ast.walk(lp) if isinstance(i_, ast.If) for x in ast.walk(i_.test))
            if counted or rejected:
                o.undecided(f"the numerator runs over the keys that pass `{txt(member[0])}`; whether the others reject the trial is decided elsewhere in the loop", sw, call_)
            else:
                o.violated(sw, st_ or call_, f"the numerator multiplies only the created pairings that pass `{txt(member[0])}`: a pairing ABSENT from the target is silently left out of the product "
                                           "instead of rejecting the trial, so a swap that manufactures a pairing the target does not list can be accepted", shape_free=True)
        # return True only through value > random.random()
        rets = [n for n in astx.walk_fn(sw.node) if isinstance(n, ast.Return)]
        trues = [r for r in rets if not (isinstance(r.value, ast.Constant) and r.value.value is False)]
        ok_any = False
        for r in trues:
            guard = None
            val = r.value
            is_rand = lambda x: isinstance(x, ast.Call) and prog.external(sw.module, x.func) == "random.random"
            if isinstance(val, ast.Constant) and val.value is True:
                # the acceptance test is a path condition of `return True` (enclosing if, or a preceding `if not ...: return False`)
                conds = [(ssc.resolve(t_, keep=[top]), p_) for t_, p_ in rules.path_conditions(spar, r)]
                conds = [(t_, p_) for t_, p_ in conds if any(is_rand(x) for x in ast.walk(t_))]
                if not conds:
                    if not rules.path_conditions(spar, r):
                        o.violated(sw, r, "`return True` is unconditional")
                    else:
                        o.violated(sw, r, f"acceptance `{txt(rules.path_conditions(spar, r)[-1][0])}` is not a comparison of the Metropolis ratio with a uniform draw")
                    continue
                guard, neg = conds[-1][0], not conds[-1][1]
            else:
                guard, neg = ssc.resolve(val, keep=[top]), False
            pv = rules.compare_with_pivot(guard, is_rand, negated=neg)
            if pv is None:
                o.violated(sw, r, f"acceptance `{txt(guard)}` is not a comparison of the Metropolis ratio with a uniform draw")
                continue
            op, other = pv
            ratio = rules.term_of(other, ssc, keep=[top])
            # accepted iff draw < ratio  (or <=)
            if op not in ("<", "<="):
                o.violated(sw, r, f"accepted when the uniform draw {op} ratio: improbable moves are preferred, and a zero numerator is accepted")
                continue
            if op == "<=":
                o.violated(sw, r, "accepted when draw <= ratio: a zero numerator (pairing with zero target weight) is accepted whenever the draw is exactly 0 - use a strict comparison") \
                    if False else None
            num_ok = _numerator_is(ratio, top)
            if num_ok is True:
                ok_any = True
                o.holds(sw, r, f"accepted iff random.random() {op} {tm.show(ratio)}: a zero numerator is never accepted")
            elif num_ok is False:
                o.violated(sw, r, f"the acceptance ratio is {tm.show(ratio)}: `{top}` (the product over the CREATED pairings) is not its numerator")
            else:
                o.undecided(f"acceptance ratio {tm.show(ratio)} not recognised", sw, r)
        if not trues:
            o.violated(sw, sw.node, "swap_condition never accepts")
        # the acceptance must be reachable with a NON-zero numerator: a path condition `top == 0` on the way to `return True`
        # means swaps are accepted only when they cannot be (ratio 0) - the chain never moves
        for r in trues:
            for t_, p_ in rules.known_facts(spar, r):
                c_ = rules.compare_with_pivot(t_, lambda x: txt(x) == top, negated=not p_)
                if c_ is not None and c_[0] == "==" and astx.const_value(c_[1]) == 0:
                    o.violated(sw, spar.stmt_of(t_), f"`{txt(r)}` is only reached when `{top} == 0`, where the ratio is 0 and the draw can never be below it: no swap is ever accepted "
                                                     "(the network cannot approach the target)")
        # early exits on the running numerator inside its loop: only `== 0` may reject
        for i_ in [x for x in ast.walk(lp) if isinstance(x, ast.If)]:
            c_ = rules.compare_with_pivot(i_.test, lambda x: txt(x) == top)
            rejects = any(isinstance(x, ast.Return) and isinstance(x.value, ast.Constant) and x.value.value is False for s_ in i_.body for x in ast.walk(s_))
            if c_ is not None and astx.const_value(c_[1]) == 0 and rejects and c_[0] in ("!=", ">"):
                o.violated(sw, i_, f"the trial is rejected as soon as the running product `{top}` is NON-zero (`{txt(i_.test)}`): only zero-weight proposals survive to the acceptance test, "
                                   "where their ratio 0 is never accepted - no swap ever happens")
        # the two products start at 1
        for acc_aug, what in ((aug, "numerator"),) + tuple((a_, "denominator") for a_ in ast.walk(sw.node) if isinstance(a_, ast.AugAssign) and isinstance(a_.op, ast.Mult) and a_ is not aug and isinstance(a_.target, ast.Name)):
            nm_ = txt(acc_aug.target)
            inits = [s_ for s_ in ssc.assigns.get(nm_, []) if isinstance(s_, ast.Assign)]
            if len(inits) == 1:
                v0 = astx.const_value(inits[0].value)
                if v0 is not None and v0 != 1:
                    o.violated(sw, inits[0], f"the {what} product `{nm_}` starts at {v0!r}, not at 1: " + ("it is 0 whatever the weights are, so no swap is ever accepted" if v0 == 0 and what == "numerator"
                               else ("it is 0 whatever the weights are (division by zero / every trial raises)" if v0 == 0 else "the Metropolis ratio is scaled by a constant: the chain no longer targets the given matrices")))
                elif v0 == 1:
                    o.holds(sw, inits[0], f"the {what} product starts at 1")
        # (c) no write to _proposal_edges between swap_condition and the application loop in rewire
        rsc = Scope(rw.node)
        writes = [n for n in astx.walk_fn(rw.node) if isinstance(n, (ast.Assign, ast.AugAssign)) and any(astx.self_attr(t) == "_proposal_edges" for t in (n.targets if isinstance(n, ast.Assign) else [n.target]))]
        writes += [n for n in astx.walk_fn(rw.node) if isinstance(n, ast.Call) and isinstance(n.func, ast.Attribute) and n.func.attr in astx.MUTATOR_METHODS and astx.self_attr(n.func.value) == "_proposal_edges"]
        if writes:
            o.violated(rw, writes[0], "rewire edits the proposal list after the swap condition was evaluated: the edges applied are not the ones that were tested against the target")
        else:
            o.holds(rw, rw.node, "the proposals applied are exactly those built by the accepted swap_condition call", construct="no write to _proposal_edges in rewire")

    with ctx.obligation("C12.5", "Metropolis ratio shape: denominator = product over current pairings", floor=2) as o:
        dl = [n for n in sw.body if isinstance(n, ast.For) and match(pat(f"zip({e0s_p}, {e1s_p})"), n.iter) is not None]
        if len(dl) != 1:
            o.undecided("denominator loop over zip(e0s, e1s) not found", sw)
        else:
            lp = dl[0]
            a0, a1 = (txt(e) for e in lp.target.elts) if isinstance(lp.target, ast.Tuple) else (None, None)
            augs = [n for n in ast.walk(lp) if isinstance(n, ast.AugAssign) and isinstance(n.op, ast.Mult)]
            if len(augs) != 1:
                o.undecided("`bottom *= ...` not found", sw, lp)
            else:
                # resolve within the loop body: locals are re-bound per edge, so resolve statement-locally
                env = {}
                for s in astx.stmts_in(lp.body):
                    if isinstance(s, (ast.Assign, ast.AnnAssign)) and s.value is not None and isinstance((s.targets[0] if isinstance(s, ast.Assign) else s.target), ast.Name):
                        nm = (s.targets[0] if isinstance(s, ast.Assign) else s.target).id
                        env[nm] = _subst(s.value, env)
                    if s is augs[0]:
                        break
                val = _subst(augs[0].value, env)
                fs = []
                def flat(x):
                    if isinstance(x, ast.BinOp) and isinstance(x.op, ast.Mult):
                        flat(x.left)
                        flat(x.right)
                    else:
                        fs.append(txt(x))
                flat(val)
                def want(e):
                    T = f"{Gp}.edges[{e}][NetworkNames.TOPOLOGY]"
                    return f"self._ejks.ejks[{T}][self.get_joint_excess_degree_key({Gp}, {e}, self._ejks.get_topology_index({T}))]"
                if sorted(fs) == sorted([want(a0), want(a1)]):
                    o.holds(sw, augs[0], "bottom = prod ejks[T(e0)][key(e0)] * ejks[T(e1)][key(e1)] with each edge's own topology and end points")
                else:
                    o.violated(sw, augs[0], f"denominator factors are {sorted(fs)}, expected each current edge looked up under its own topology and key")
        # value = top / bottom
        aug_top = [n for n in ast.walk(nl[0]) if isinstance(n, ast.AugAssign) and isinstance(n.op, ast.Mult)]
        if aug_top and dl and len([n for n in ast.walk(dl[0]) if isinstance(n, ast.AugAssign)]) == 1:
            top = txt(aug_top[0].target)
            bottom = txt([n for n in ast.walk(dl[0]) if isinstance(n, ast.AugAssign)][0].target)
            is_rand_ = lambda x: isinstance(x, ast.Call) and prog.external(sw.module, x.func) == "random.random"
            cmps = [n for n in astx.walk_fn(sw.node) if isinstance(n, ast.Compare) and any(is_rand_(x) for x in ast.walk(ssc.resolve(n, keep=[top, bottom])))]
            if len(cmps) == 1:
                pv = rules.compare_with_pivot(ssc.resolve(cmps[0], keep=[top, bottom]), is_rand_)
                ratio = rules.term_of(pv[1], ssc, keep=[top, bottom]) if pv else None
                if ratio is not None and ratio == tm.div(tm.sym(top), tm.sym(bottom)):
                    o.holds(sw, cmps[0], f"ratio = {top} / {bottom}")
                elif ratio is not None and not tm.has_opaque(ratio):
                    o.violated(sw, cmps[0], f"ratio is {tm.show(ratio)}, the Metropolis ratio is {top} / {bottom}")
                else:
                    o.undecided("ratio not recognised", sw, cmps[0])


def _numerator_is(ratio, top):
    """True if ratio = top * (something free of top)^..., i.e. top is a factor with exponent +1 of every term."""
    if tm.has_opaque(ratio):
        return None
    items = ratio[1]
    if not items:
        return False
    for m, c in items:
        e = dict(m).get(("sym", top))
        if e is None or tm.is_const(e) != 1:
            return False
    return True


def _subst(expr, env):
    import copy

    class T(ast.NodeTransformer):
        def visit_Name(self, n):
            if n.id in env:
                return copy.deepcopy(env[n.id])
            return n
    return T().visit(copy.deepcopy(expr))
