"""C08 - joint degrees derived from a clique cover count cliques per vertex.

Motif sizes = occurring clique sizes, ascending, once each (C08.1); the only accumulation is
jds[vertex - z][len(c) - 1] += 1 over the whole cover and every member, z in {0,1} chosen by the smallest
vertex id (C08.2); all-zero columns are removed in DESCENDING index order or by rebuilding the rows (C08.3:
ascending deletion over shrinking rows removes column i + #already-deleted - 'stale index after shrink');
rows are tuples when tabulated (C08.4); the removed set is exactly the columns with no non-zero entry over
all rows, so the surviving columns are the occurring sizes in ascending order (C08.5)."""
import ast

from gcmstatic import astx, rules, tm
from gcmstatic.astx import Scope, txt, pat, match
from gcmstatic.cfg import CFG

EXPLANATION = __doc__


def _strip_conv(e):
    while isinstance(e, ast.Call) and txt(e.func) in ("list", "tuple") and len(e.args) == 1 and not e.keywords:
        e = e.args[0]
    return e


def _column_map(sc, aug):
    """`rows[r][T[len(c)]] += 1` with T = {size: col for col, size in enumerate(ORDER)} (or ORDER.index(len(c))):
    returns (table node, ORDER expression) or None."""
    col = sc.resolve(aug.target.slice)
    if isinstance(col, ast.Name) and len(sc.assigns.get(col.id, [])) == 1 and isinstance(sc.assigns[col.id][0], ast.Assign):
        col = sc.assigns[col.id][0].value       # bound once, inside the clique loop
    if isinstance(col, ast.Call) and isinstance(col.func, ast.Attribute) and col.func.attr == "index" and len(col.args) == 1:
        return col, sc.resolve(col.func.value)
    if not isinstance(col, ast.Subscript):
        return None
    t = sc.resolve(col.value)
    if isinstance(t, ast.DictComp) and len(t.generators) == 1 and not t.generators[0].ifs:
        g = t.generators[0]
        it = sc.resolve(g.iter)
        if isinstance(it, ast.Call) and txt(it.func) == "enumerate" and len(it.args) == 1 and not it.keywords and isinstance(g.target, ast.Tuple) and len(g.target.elts) == 2 \
                and txt(t.key) == txt(g.target.elts[1]) and txt(t.value) == txt(g.target.elts[0]):
            return t, sc.resolve(it.args[0])
    if isinstance(t, ast.Call) and txt(t.func) == "dict" and len(t.args) == 1 and isinstance(t.args[0], ast.Call) and txt(t.args[0].func) == "zip" and len(t.args[0].args) == 2:
        a, b = t.args[0].args
        if (isinstance(b, ast.Call) and txt(b.func) in ("range", "count", "itertools.count")):
            return t, sc.resolve(a)
    return None


def run(ctx):
    prog = ctx.prog
    ctx.trust("collections.Counter needs hashable items", "sorted() is ascending unless reverse=True", "del row[i] shifts later elements left")
    ci = prog.cls("JointDegreeCover")
    init = prog.method(ci, "__init__")
    cj = prog.method(ci, "create_jdd")
    sc = Scope(cj.node)
    par = sc.parents

    with ctx.obligation("C08.1", "motif sizes = sorted set of the cover's clique sizes, ascending") as o:
        sets = [n for n in astx.walk_fn(init.node) if isinstance(n, (ast.Assign, ast.AnnAssign)) and astx.self_attr(n.targets[0] if isinstance(n, ast.Assign) else n.target) == "_motif_sizes"]
        if len(sets) != 1:
            o.undecided(f"_motif_sizes assigned {len(sets)} times in the constructor", init)
        else:
            v = Scope(init.node).resolve(sets[0].value)
            v0 = _strip_conv(v)
            if isinstance(v0, ast.Call) and txt(v0.func) == "sorted" and len(v0.args) == 1:
                kws = {k.arg: txt(k.value) for k in v0.keywords}
                inner = _strip_conv(v0.args[0])
                b = None
                if isinstance(inner, ast.Call) and txt(inner.func) == "set" and len(inner.args) == 1:
                    comp = _strip_conv(inner.args[0])
                    if isinstance(comp, (ast.ListComp, ast.GeneratorExp, ast.SetComp)):
                        b = comp
                elif isinstance(inner, ast.SetComp):
                    b = inner
                if kws.get("reverse", "False") != "False":
                    o.violated(init, sets[0], "motif sizes are sorted descending: column j of the joint degrees no longer corresponds to motif_sizes[j]")
                elif set(kws) - {"reverse"}:
                    o.undecided("sorted with a key", init, sets[0])
                elif b is not None and len(b.generators) == 1 and not b.generators[0].ifs and txt(b.generators[0].iter) == "self._cover" \
                        and txt(b.elt) == f"len({txt(b.generators[0].target)})":
                    o.holds(init, sets[0], "sorted(set(len(c) for c in cover))")
                elif b is not None and isinstance(b.generators[0].iter, ast.Subscript):
                    o.violated(init, sets[0], "motif sizes are taken from a slice of the cover")
                elif b is not None and txt(b.generators[0].iter) == "self._cover":
                    o.violated(init, sets[0], f"motif sizes are `{txt(b.elt)}` per clique, not the clique's size")
                else:
                    o.undecided(f"`{txt(v)}` not recognised", init, sets[0])
            elif (isinstance(v0, ast.Call) and txt(v0.func) in ("set", "frozenset")) or isinstance(v0, ast.SetComp):
                o.violated(init, sets[0], f"motif sizes `{txt(v)}` are not sorted: set iteration order is arbitrary (e.g. {{2, 8}} iterates as 8, 2) while the joint-degree columns "
                                          "are ascending by size, so sizes and columns no longer correspond")
            else:
                o.undecided(f"`{txt(v)}` not recognised", init, sets[0])

    with ctx.obligation("C08.2", "counting: jds[vertex - z][len(c) - 1] += 1 for every member of every cover clique", floor=3) as o:
        augs = [n for n in astx.walk_fn(cj.node) if isinstance(n, ast.AugAssign) and isinstance(n.target, ast.Subscript) and isinstance(n.target.value, ast.Subscript)]
        if len(augs) != 1:
            o.undecided(f"expected one element accumulation, found {len(augs)}", cj)
        else:
            a = augs[0]
            loops = par.loops_of(a)
            if len(loops) != 2:
                o.undecided("accumulation is not inside `for c in cover: for vertex in c:`", cj, a)
            else:
                inner, outer = loops
                c, v = txt(outer.target), txt(inner.target)
                full_outer = txt(outer.iter) == "self._cover"
                full_inner = txt(inner.iter) == c
                if not full_outer:
                    o.violated(cj, outer, f"counts are taken over `{txt(outer.iter)}`, not over the whole cover") if "self._cover" in txt(outer.iter) else o.undecided("outer loop domain", cj, outer)
                elif not full_inner:
                    o.violated(cj, inner, f"members are taken from `{txt(inner.iter)}`, not from every vertex of the clique") if c in txt(inner.iter) else o.undecided("inner loop domain", cj, inner)
                else:
                    o.holds(cj, outer, "every member of every cover clique is visited")
                if not isinstance(a.op, ast.Add) or astx.const_value(a.value) != 1:
                    o.violated(cj, a, f"`{txt(a)}`: each membership must count exactly once")
                col = rules.term_of(a.target.slice, sc, keep=[c, v])
                want_col = tm.parse(f"len({c}) - 1")
                if col == want_col:
                    o.holds(cj, a, f"column = len({c}) - 1")
                elif not tm.has_opaque(col):
                    o.violated(cj, a, f"column index is {tm.show(col)}; a clique of size s must be counted in column s - 1")
                else:
                    o.undecided("column index not understood", cj, a)
                row = a.target.value.slice
                z = None
                if isinstance(row, ast.BinOp) and isinstance(row.op, ast.Sub) and txt(row.left) == v and isinstance(row.right, ast.Name):
                    z = row.right.id
                if z is None:
                    if isinstance(row, ast.BinOp) and isinstance(row.op, ast.Add) and txt(row.left) == v:
                        o.violated(cj, a, f"row index `{txt(row)}` shifts vertex ids upward: 1-based ids run past the end, 0-based ids hit the wrong vertex")
                    else:
                        o.undecided(f"row index `{txt(row)}` is not vertex - offset", cj, a)
                else:
                    # z: 0 by default, 1 when the smallest vertex id is not 0
                    zs = sc.assigns.get(z, [])
                    vals = sorted(astx.const_value(s.value) for s in zs if astx.const_value(s.value) is not None)
                    conds = [x for x in par.ancestors(zs[-1]) if isinstance(x, ast.If)] if len(zs) == 2 else []
                    ok = vals == [0, 1] and len(conds) == 1 and match(pat(f"min($ids) != {z}"), conds[0].test) is not None or \
                        (vals == [0, 1] and len(conds) == 1 and match(pat("min($ids) != 0"), conds[0].test) is not None)
                    if ok:
                        ids = match(pat(f"min($ids) != {z}"), conds[0].test) or match(pat("min($ids) != 0"), conds[0].test)
                        idv = sc.resolve(ids["ids"])
                        o.holds(cj, a, f"row = {v} - {z}, {z} = 1 exactly when the smallest vertex id is not 0")
                    else:
                        # any other spelling of the same value: summarise the statements that bind the offset
                        from gcmstatic import conform as _cf
                        zst = [s_ for s_ in cj.body if any(isinstance(x, ast.Name) and x.id == z and isinstance(x.ctx, ast.Store) for x in ast.walk(s_))]
                        mins = [x for s_ in zst for x in ast.walk(s_) if isinstance(x, ast.Call) and txt(x.func) == "min" and len(x.args) == 1 and isinstance(x.args[0], ast.Name)]
                        if zst and mins:
                            idn = mins[0].args[0].id
                            got = _cf.snippet_term(zst, z, [idn])
                            want = _cf.term_of_src("def f(ids):\n    return 0 if min(ids) == 0 else 1\n")
                            if got == want:
                                o.holds(cj, a, f"row = {v} - {z}, {z} = 1 exactly when the smallest vertex id is not 0")
                            elif not tm.has_opaque(got):
                                o.violated(cj, zst[-1], f"the row offset `{z}` is {tm.show(got)[:120]}; vertex ids are 0-based or 1-based, so it must be 0 when min(ids) == 0 and 1 otherwise")
                            else:
                                o.undecided(f"offset `{z}` not understood", cj, a)
                        else:
                            o.undecided(f"offset `{z}` is not {{0 by default, 1 if min(ids) != 0}}", cj, a)

    with ctx.obligation("C08.5", "removed columns = exactly the columns with no non-zero entry over all rows") as o, \
            ctx.obligation("C08.3", "column removal keeps the right columns (descending order or rebuilt rows)") as o3:
        dels = [n for n in astx.walk_fn(cj.node) if isinstance(n, ast.Delete)]
        jds_name = None
        augs = [n for n in astx.walk_fn(cj.node) if isinstance(n, ast.AugAssign) and isinstance(n.target, ast.Subscript) and isinstance(n.target.value, ast.Subscript)]
        if augs:
            jds_name = txt(augs[0].target.value.value)
        if len(dels) == 1 and jds_name:
            d = dels[0]
            loops = par.loops_of(d)
            if len(loops) != 2:
                o3.undecided("del is not inside `for i in idx: for row in rows:`", cj, d)
            else:
                inner, outer = loops
                # accept both nestings: for i: for row  |  for row: for i
                idx_loop = outer if not (txt(outer.iter) == jds_name) else inner
                row_loop = inner if idx_loop is outer else outer
                i = txt(idx_loop.target)
                t = d.targets[0]
                if not (isinstance(t, ast.Subscript) and txt(t.value) == txt(row_loop.target) and txt(t.slice) == i and txt(row_loop.iter) == jds_name):
                    o3.undecided(f"`{txt(d)}` not recognised as del row[i] for every row", cj, d)
                else:
                    it = sc.resolve(idx_loop.iter, keep=[jds_name])
                    desc = None
                    src = None
                    if isinstance(it, ast.Call) and txt(it.func) == "reversed" and len(it.args) == 1:
                        desc, src = True, it.args[0]
                    elif isinstance(it, ast.Call) and txt(it.func) == "sorted" and any(k.arg == "reverse" and txt(k.value) == "True" for k in it.keywords):
                        desc, src = True, it.args[0]
                    elif isinstance(it, ast.Subscript) and isinstance(it.slice, ast.Slice) and it.slice.step is not None and astx.const_value(it.slice.step) == -1 \
                            and it.slice.lower is None and it.slice.upper is None:
                        desc, src = True, it.value
                    else:
                        desc, src = False, it
                    src = _strip_conv(src)
                    asc_src = isinstance(src, ast.ListComp) and len(src.generators) == 1
                    if desc and asc_src:
                        o3.holds(cj, idx_loop, "indices of the zero columns are visited in descending order: earlier deletions do not shift later targets")
                    elif not desc and asc_src:
                        o3.violated(cj, idx_loop, "columns are deleted by ASCENDING index while the rows shrink: after the first deletion every later index points one column "
                                                  "too far right (wrong columns removed when more than one size is absent)")
                    else:
                        o3.undecided(f"deletion order over `{txt(it)}` not recognised", cj, idx_loop)
                    # C08.5: the index list
                    if asc_src:
                        g = src.generators[0]
                        b = match(pat(f"enumerate(zip(*{jds_name}))"), g.iter)
                        if b is not None and isinstance(g.target, ast.Tuple) and len(g.target.elts) == 2 and len(g.ifs) == 1:
                            ii, colv = txt(g.target.elts[0]), txt(g.target.elts[1])
                            cond = txt(g.ifs[0])
                            if txt(src.elt) == ii and cond in (f"not any({colv})", f"sum({colv}) == 0", f"all(x == 0 for x in {colv})", f"max({colv}) == 0"):
                                o.holds(cj, src, f"indices i with column i all zero, over all rows (zip(*{jds_name}))")
                            elif txt(src.elt) == ii and cond in (f"any({colv})", f"not all({colv})", f"all({colv})"):
                                o.violated(cj, src, f"columns selected by `{cond}` are not the all-zero columns")
                            else:
                                o.undecided(f"zero-column test `{cond}` not recognised", cj, src)
                        elif isinstance(g.iter, ast.Call) and "[" in txt(g.iter) and jds_name in txt(g.iter):
                            o.violated(cj, src, "zero columns are determined from a subset of the rows")
                        else:
                            o.undecided(f"index list `{txt(src)}` not recognised", cj, src)
        elif not dels and jds_name and any(isinstance(n, ast.Call) and isinstance(n.func, ast.Attribute) and n.func.attr == "remove" and len(n.args) == 1
                                           and isinstance(n.args[0], ast.Subscript) and txt(n.args[0].value) == txt(n.func.value) for n in astx.walk_fn(cj.node)):
            rm_ = [n for n in astx.walk_fn(cj.node) if isinstance(n, ast.Call) and isinstance(n.func, ast.Attribute) and n.func.attr == "remove" and len(n.args) == 1
                   and isinstance(n.args[0], ast.Subscript) and txt(n.args[0].value) == txt(n.func.value)][0]
            o3.violated(cj, rm_, f"`{txt(rm_)}` removes the FIRST entry equal to the value at that position, not the entry AT that position: when an earlier column holds the same "
                                 "count (typically another 0) the wrong column disappears", shape_free=True)
            o.undecided("see C08.3", cj)
        elif not dels and jds_name and _column_map(sc, augs[0]) is not None:
            # no column is ever removed: the columns are allotted up front, one per clique size that occurs, through a
            # size -> column table.  Column k must then be the k-th SMALLEST occurring size (that is what _motif_sizes says).
            tbl, order = _column_map(sc, augs[0])
            o.holds(cj, tbl, "one column per occurring clique size is allotted up front: no all-zero column exists")
            r_ = order
            while isinstance(r_, ast.Call) and txt(r_.func) in ("list", "tuple") and len(r_.args) == 1:
                r_ = r_.args[0]
            if (isinstance(r_, ast.Call) and txt(r_.func) == "sorted" and not any(k.arg == "reverse" for k in r_.keywords)) or txt(r_) == "self._motif_sizes":
                o3.holds(cj, tbl, f"columns numbered along `{txt(r_)[:60]}`: ascending clique size, as in _motif_sizes")
            elif (isinstance(r_, ast.Call) and txt(r_.func) in ("Counter", "collections.Counter", "set", "frozenset", "dict.fromkeys", "dict", "OrderedDict")) or isinstance(r_, (ast.SetComp, ast.DictComp, ast.Set)) \
                    or (isinstance(r_, ast.Call) and txt(r_.func) == "sorted" and any(k.arg == "reverse" for k in r_.keywords)) \
                    or (isinstance(r_, ast.Call) and txt(r_.func) == "reversed"):
                o3.violated(cj, tbl, f"columns are numbered in the iteration order of `{txt(r_)[:70]}` (first occurrence / hash order / descending), not by ascending clique size: "
                                     "column k of every joint degree no longer belongs to the k-th entry of _motif_sizes", shape_free=True)
            else:
                o3.undecided(f"order of the sizes `{txt(r_)[:70]}` that number the columns not recognised", cj, tbl)
        elif not dels and jds_name:
            # rebuilt rows: jds = [[x for i, x in enumerate(row) if i not in zero] for row in jds]
            o3.undecided("no `del row[i]`: rows rebuilt by a keep-list are not modelled", cj)
            o.undecided("see C08.3", cj)
        else:
            o3.undecided("column removal not recognised", cj)
            o.undecided("see C08.3", cj)

    with ctx.obligation("C08.4", "the tabulation the rows are handed to is count / number of vertices") as o:
        # the cover loader's distribution IS convert_jds_to_jdd(rows): the same frequency-table formula C06.3 checks
        from gcmstatic.conform import conform_attr
        from checks.c06 import REF_FREQ
        conform_attr(o, prog.method(prog.cls("JointDegree"), "convert_jds_to_jdd"), "_jdd", REF_FREQ, "convert_jds_to_jdd")

    with ctx.obligation("C08.4", "rows are hashable tuples when tabulated") as o:
        calls = [n for n in astx.walk_fn(cj.node) if isinstance(n, ast.Call) and txt(n.func) == "self.convert_jds_to_jdd"]
        if len(calls) != 1 or len(calls[0].args) != 1:
            o.undecided("call of convert_jds_to_jdd not found", cj)
        else:
            a = _strip_conv(sc.resolve(calls[0].args[0], keep=[jds_name] if jds_name else []))
            if isinstance(a, ast.ListComp) and isinstance(a.elt, ast.Call) and txt(a.elt.func) == "tuple" and txt(a.generators[0].iter) == jds_name \
                    and txt(a.elt.args[0]) == txt(a.generators[0].target) and not a.generators[0].ifs:
                o.holds(cj, calls[0], "rows converted with tuple(row) for every row")
            elif isinstance(a, ast.Call) and txt(a.func) == "map" and txt(a.args[0]) == "tuple" and txt(a.args[1]) == jds_name:
                o.holds(cj, calls[0], "rows converted with map(tuple, rows)")
            elif isinstance(a, ast.Name) and a.id == jds_name:
                o.violated(cj, calls[0], f"`{jds_name}` holds lists (rows are built as [0] * n and edited in place): Counter raises TypeError: unhashable type 'list' for every cover")
            elif isinstance(a, ast.ListComp) and a.generators[0].ifs:
                o.violated(cj, calls[0], "rows are filtered before tabulation: some vertices are dropped")
            elif isinstance(a, ast.ListComp) and isinstance(a.generators[0].iter, ast.Subscript):
                o.violated(cj, calls[0], "only a slice of the rows is tabulated")
            else:
                o.undecided(f"tabulated value `{txt(a)}` not recognised", cj, calls[0])
        # rows: one per vertex id, columns: largest clique size
        if jds_name:
            apps = [n for n in astx.walk_fn(cj.node) if isinstance(n, ast.Call) and isinstance(n.func, ast.Attribute) and n.func.attr == "append" and txt(n.func.value) == jds_name]
            if len(apps) == 1 and par.loops_of(apps[0]):
                lp = par.loops_of(apps[0])[0]
                nrows = sc.resolve(lp.iter)
                row = apps[0].args[0]
                if isinstance(row, ast.Name):
                    ds = [x for x in lp.body if isinstance(x, (ast.Assign, ast.AnnAssign)) and txt(x.targets[0] if isinstance(x, ast.Assign) else x.target) == row.id]
                    if len(ds) == 1:
                        row = ds[0].value
                row = sc.resolve(row)
                b = match(pat("range(len($ids))"), nrows)
                ok_rows = b is not None and match(pat("list(set([$v for $c in self._cover for $v in $c]))"), b["ids"]) is not None
                bw = match(pat("[0] * $w"), row)
                ok_cols = bw is not None and txt(bw["w"]) in ("len(max(self._cover, key=len))", "max(len(c) for c in self._cover)", "max([len(c) for c in self._cover])", "max(self._motif_sizes)")
                if ok_rows and ok_cols:
                    o.holds(cj, apps[0], "one zero row per distinct vertex id, one column per size up to the largest clique")
                elif ok_cols and b is None and (match(pat("range(max($ids) + 1)"), nrows) is not None or match(pat("range(max($ids))"), nrows) is not None
                                                  or match(pat("range(len($ids) + 1)"), nrows) is not None or match(pat("range(len($ids) - 1)"), nrows) is not None):
                    o.violated(cj, lp, f"`{txt(nrows)}` rows are created, not one per distinct vertex id: for a cover numbered from 1 (or with gaps) a phantom all-zero row enters the "
                                       "distribution / a vertex has no row", shape_free=True)
                elif bw is not None and not ok_cols and "self._cover" in txt(bw["w"]):
                    o.violated(cj, apps[0], f"rows have `{txt(bw['w'])}` columns, not one per size up to the largest clique")
                else:
                    o.undecided("row construction not recognised", cj, apps[0])
            elif not apps:
                jd_def = sc.def_stmt(jds_name)
                if jd_def is not None and isinstance(jd_def.value, ast.List) and not jd_def.value.elts and \
                        not any(isinstance(n, ast.Call) and isinstance(n.func, ast.Attribute) and n.func.attr in ("extend", "insert") and txt(n.func.value) == jds_name for n in astx.walk_fn(cj.node)) and \
                        not any(isinstance(n, ast.AugAssign) and txt(n.target) == jds_name for n in astx.walk_fn(cj.node)):
                    o.violated(cj, jd_def, f"`{jds_name}` starts empty and no row is ever added to it: there is nothing to count into (IndexError on the first clique / an empty distribution)")
