"""C13 - mixing matrices extracted from a network are exact, symmetric and repeatable.

Per-query state is rebuilt per query (C13.1: the per-topology edge counter is killed before it is accumulated
on every path from the public query get_ejks - upward-exposed accumulation); each entry is the stated
fraction (C13.2: formula conformance of get_ejk: both end points decremented at the same position i, the
self-paired class gets 1/E, a mirrored pair 1/(2E) EACH, E the edge count of the same topology name);
index/name coherence at the call site (C13.3); counts and accumulation cover the same edge set (C13.4);
excess key lists (C13.5); overall-degree variant (C13.6)."""
import ast

from gcmstatic import astx, rules, tm
from gcmstatic.astx import Scope, txt, pat, match
from gcmstatic.attrs import AttrState
from gcmstatic.conform import conform

EXPLANATION = __doc__

REF_GET_EJK = ['''
def get_ejk(self, i, name):
    ejk = {}
    for e in self._G.edges():
        if self._G.edges[e][NetworkNames.TOPOLOGY] == name:
            a = list(self._G.nodes[e[0]][NetworkNames.JOINT_DEGREE])
            b = list(self._G.nodes[e[1]][NetworkNames.JOINT_DEGREE])
            a[i] -= 1
            b[i] -= 1
            k1 = tuple(a) + tuple(b)
            k2 = tuple(b) + tuple(a)
            if k1 == k2:
                ejk[k1] = ejk.get(k1, 0) + 1.0 / self._num_edges[name]
            else:
                ejk[k1] = ejk.get(k1, 0) + 0.5 / self._num_edges[name]
                ejk[k2] = ejk.get(k2, 0) + 0.5 / self._num_edges[name]
    return ejk
''', '''
def get_ejk(self, i, name):
    ejk = {}
    for e in self._G.edges():
        if self._G.edges[e][NetworkNames.TOPOLOGY] == name:
            a = list(self._G.nodes[e[0]][NetworkNames.JOINT_DEGREE])
            b = list(self._G.nodes[e[1]][NetworkNames.JOINT_DEGREE])
            a[i] -= 1
            b[i] -= 1
            k1 = tuple(a) + tuple(b)
            k2 = tuple(b) + tuple(a)
            ejk[k1] = ejk.get(k1, 0) + 0.5 / self._num_edges[name]
            ejk[k2] = ejk.get(k2, 0) + 0.5 / self._num_edges[name]
    return ejk
''']

REF_COUNT = ['''
def count_edge_types(self):
    n = {}
    for e in self._G.edges():
        n[self._G.edges[e][NetworkNames.TOPOLOGY]] = n.get(self._G.edges[e][NetworkNames.TOPOLOGY], 0) + 1
    return n
''']

REF_OVERALL = ['''
def get_ejk(G):
    ejk = {}
    for e in G.edges():
        k1 = (G.degree(e[0]) - 1, G.degree(e[1]) - 1)
        k2 = (G.degree(e[1]) - 1, G.degree(e[0]) - 1)
        ejk[k1] = ejk.get(k1, 0.0) + 0.5 / len(G.edges())
        ejk[k2] = ejk.get(k2, 0.0) + 0.5 / len(G.edges())
    return ejk
''', '''
def get_ejk(G):
    ejk = {}
    for e in G.edges():
        k1 = (G.degree(e[0]) - 1, G.degree(e[1]) - 1)
        k2 = (G.degree(e[1]) - 1, G.degree(e[0]) - 1)
        ejk[k1] = ejk.get(k1, 0.0) + 0.5 / G.number_of_edges()
        ejk[k2] = ejk.get(k2, 0.0) + 0.5 / G.number_of_edges()
    return ejk
''']

REF_EXCESS_KEYS = ['''
def resolve_excess_degree_keys(self):
    out = {}
    for it in enumerate(self._topology_names):
        ks = []
        for jd in self._degree_keys:
            if jd[it[0]] > 0:
                t = list(jd)
                t[it[0]] -= 1
                ks.append(tuple(t))
        out[it[1]] = list(set(ks))
    return out
''']


def run(ctx):
    prog = ctx.prog
    ctx.trust("networkx Graph.edges()/nodes/degree; dict.get; each undirected edge is visited once by G.edges()")
    ci = prog.cls("JointExcessJointDegree")
    st = AttrState(prog, ci)

    with ctx.obligation("C13.1", "per-query state is rebuilt per query (kill before accumulate from get_ejks)") as o:
        q = prog.method(ci, "get_ejks")
        s = st.summary(q)
        # accumulated attributes that flow into the result: every attr that has store sites reachable from get_ejks
        accumulated = sorted(a for a in s.stores if a != "_ejks")
        if "_num_edges" not in s.stores and "_num_edges" not in s.kills:
            o.undecided("the per-topology edge counter `_num_edges` is no longer maintained from get_ejks", q)
        for a in accumulated:
            if a in s.exposed:
                f2, nd = s.exposed[a][0]
                o.violated(f2, nd, f"`self.{a}` is accumulated here without being re-initialised on every path from get_ejks(): "
                                   "a second extraction on the same object keeps the previous counts (divisors double, matrices sum to 1/2)")
            else:
                kills = s.kills.get(a, [])
                o.holds(kills[0][0] if kills else q, kills[0][1] if kills else q.node, f"self.{a} is re-bound before it is accumulated on every path from get_ejks()")
        # the result object itself is fresh per query
        if "_ejks" in s.exposed and "_ejks" not in s.must:
            o.violated(q, q.node, "the result matrices object is re-used across queries")

    with ctx.obligation("C13.2", "entry formula: fraction of edge ends, symmetric increments, divisor = that topology's edge count") as o:
        f = prog.method(ci, "get_ejk")
        conform(o, f, REF_GET_EJK, "get_ejk(i, name)")

    with ctx.obligation("C13.3", "index <-> name coherence at the call site") as o:
        q = prog.method(ci, "get_ejks")
        calls = [n for n in astx.walk_fn(q.node) if isinstance(n, ast.Call) and txt(n.func) == "self.get_ejk"]
        if len(calls) != 1:
            o.undecided(f"expected one call of get_ejk in get_ejks, found {len(calls)}", q)
        else:
            c = calls[0]
            par = astx.Parents(q.node)
            loops = par.loops_of(c)
            stm = par.stmt_of(c)
            qsc = Scope(q.node)
            it0 = loops[0].iter if loops else None
            src0 = qsc.resolve(it0.args[0]) if isinstance(it0, ast.Call) and txt(it0.func) == "enumerate" and it0.args else None
            filtered = isinstance(src0, (ast.ListComp, ast.GeneratorExp)) and len(src0.generators) == 1 and txt(src0.generators[0].iter) == "self._topology_names" and src0.generators[0].ifs \
                or (isinstance(src0, ast.Call) and txt(src0.func) in ("filter", "list") and "self._topology_names" in txt(src0) and "filter" in txt(src0)) \
                or (isinstance(src0, ast.Subscript) and isinstance(src0.slice, ast.Slice) and txt(src0.value) == "self._topology_names")
            if loops and filtered and isinstance(loops[0].target, ast.Tuple) and len(c.args) == 2 and txt(c.args[0]) == txt(loops[0].target.elts[0]):
                o.violated(q, stm, f"the index handed to get_ejk counts positions in `{txt(src0)[:60]}`, a FILTERED / sliced name list: after the first topology that is left out "
                                   "the index no longer is the topology's column in the joint degree tuples, so the wrong column is decremented", shape_free=True)
            elif not loops or match(pat("enumerate(self._topology_names)"), loops[0].iter) is None or not isinstance(loops[0].target, ast.Tuple):
                o.undecided("get_ejk is not called inside `for i, topology in enumerate(self._topology_names)`", q, c)
            else:
                i, name = (txt(e) for e in loops[0].target.elts)
                args = [txt(a) for a in c.args]
                if args != [i, name]:
                    o.violated(q, c, f"get_ejk({', '.join(args)}): index and name must be the pair ({i}, {name}) of one enumerate step")
                elif isinstance(stm, ast.Assign) and isinstance(stm.targets[0], ast.Subscript) and txt(stm.targets[0].slice) == name:
                    o.holds(q, stm, f"matrix of ({i}, {name}) stored under {name}")
                elif isinstance(stm, ast.Assign) and isinstance(stm.targets[0], ast.Subscript):
                    o.violated(q, stm, f"the matrix of topology {name} is stored under key `{txt(stm.targets[0].slice)}`")
                else:
                    o.undecided("result of get_ejk is not stored under the topology name", q, stm)
            cnt = [n for n in astx.walk_fn(q.node) if isinstance(n, ast.Call) and txt(n.func) == "self.count_edge_types"]
            if cnt and loops and not par.loops_of(cnt[0]):
                from gcmstatic.cfg import CFG
                cfg = CFG(q.node)
                if cfg.dominates(par.stmt_of(cnt[0]), loops[0]):
                    o.holds(q, cnt[0], "edge counts are computed before any matrix entry is divided by them")
                else:
                    o.violated(q, cnt[0], "edge counts are not computed before the matrices on every path")
            elif not cnt:
                o.violated(q, q.node, "get_ejks never counts the edges per topology: divisors are stale or missing")

    with ctx.obligation("C13.4", "the divisor counts the same edge set the accumulation visits") as o:
        f = prog.method(ci, "count_edge_types")
        # the table itself: every edge adds exactly 1, starting from 0, under its own topology name
        from gcmstatic.conform import conform_attr as _conform_attr
        _conform_attr(o, f, "_num_edges", ['''
def count_edge_types(self):
    self._num_edges = {}
    for e in self._G.edges():
        self._num_edges[self._G.edges[e][NetworkNames.TOPOLOGY]] = self._num_edges.get(self._G.edges[e][NetworkNames.TOPOLOGY], 0) + 1
'''], "count_edge_types: edges per topology")
        # compare the dictionary built in self._num_edges
        from gcmstatic.funterm import FunTerm
        ft = FunTerm()
        ft.of_function(f.node, [tm.sym("self")])
        got = tm.canon(ft.final_env().get("__attr__self._num_edges", tm.atom_poly(("opaque", "not tracked"))))
        # simpler: conformance through a return-less reference is not expressible; check the loop structurally
        loops = [n for n in astx.walk_fn(f.node) if isinstance(n, ast.For)]
        if len(loops) != 1:
            o.undecided("count_edge_types is not a single loop", f)
        else:
            lp = loops[0]
            full = rules.full_iteration_of(lp.iter, Scope(f.node), ["self._G.edges()", "self._G.edges"])
            stores = [s for s in astx.stmts_in(lp.body) if isinstance(s, (ast.Assign, ast.AugAssign))
                      and isinstance((s.targets[0] if isinstance(s, ast.Assign) else s.target), ast.Subscript)
                      and txt((s.targets[0] if isinstance(s, ast.Assign) else s.target).value) == "self._num_edges"]
            if full is False:
                o.violated(f, lp.iter, "edge counts are taken over a slice of the edges only")
            elif full is None:
                o.undecided(f"`{txt(lp.iter)}` not recognised as all edges", f, lp.iter)
            elif len(stores) != 1 or not any(stores[0] is s for s in lp.body):
                # another spelling of the same counting loop: compare the summarised table with the reference
                from gcmstatic import conform as _cf
                import textwrap as _tw
                ref = ast.parse(_tw.dedent('''
                def count_edge_types(self):
                    self._num_edges = {}
                    for e in self._G.edges():
                        self._num_edges[self._G.edges[e][NetworkNames.TOPOLOGY]] = self._num_edges.get(self._G.edges[e][NetworkNames.TOPOLOGY], 0) + 1
                ''')).body[0]
                got_t = _cf.attr_term_of_node(f.node, "_num_edges")
                want_t = _cf.attr_term_of_node(ref, "_num_edges")
                if got_t == want_t:
                    o.holds(f, lp, "each edge adds exactly 1 to the count of its own topology (normal form equals the reference loop)")
                elif tm.has_opaque(got_t):
                    o.undecided("counter update not recognised / conditional", f, lp)
                else:
                    o.violated(f, lp, f"the per-topology edge counts are  {tm.show(got_t)[:200]}  - each edge must add exactly 1 under its own topology name")
            else:
                s0 = stores[0]
                sc = Scope(f.node)
                tgt = s0.targets[0] if isinstance(s0, ast.Assign) else s0.target
                key = sc.resolve(tgt.slice)
                e = txt(lp.target)
                if match(pat(f"self._G.edges[{e}][NetworkNames.TOPOLOGY]"), key) is None:
                    o.violated(f, s0, f"edges are counted under key `{txt(key)}`, not under their own topology name")
                else:
                    if isinstance(s0, ast.AugAssign):
                        inc = rules.term_of(s0.value, sc) if isinstance(s0.op, ast.Add) else None
                    else:
                        v = s0.value
                        inc = None
                        if isinstance(v, ast.BinOp) and isinstance(v.op, ast.Add):
                            for a, b in ((v.left, v.right), (v.right, v.left)):
                                if isinstance(a, ast.Call) and txt(a.func) == "self._num_edges.get" and astx.same(sc.resolve(a.args[0]), key):
                                    inc = rules.term_of(b, sc)
                    if inc is not None and inc == tm.ONE:
                        o.holds(f, s0, "each edge adds exactly 1 to the count of its own topology")
                    elif inc is not None and tm.is_const(inc) is not None:
                        o.violated(f, s0, f"each edge adds {tm.show(inc)} to its topology's count: every matrix entry is scaled by 1/{tm.show(inc)}")
                    else:
                        o.undecided("counter increment not recognised", f, s0)

    with ctx.obligation("C13.5", "excess key lists: jd - e_i for every observed jd with jd[i] > 0") as o:
        f = prog.method(ci, "resolve_excess_degree_keys")
        loops = [n for n in astx.walk_fn(f.node) if isinstance(n, ast.For)]
        outer = [l for l in loops if match(pat("enumerate(self._topology_names)"), l.iter) is not None]
        if len(outer) != 1 or not isinstance(outer[0].target, ast.Tuple):
            o.undecided("outer loop over enumerate(self._topology_names) not found", f)
        else:
            i, name = (txt(e) for e in outer[0].target.elts)
            inner = [l for l in outer[0].body if isinstance(l, ast.For)]
            if len(inner) != 1 or txt(inner[0].iter) not in ("self._degree_keys", "list(self._degree_keys)"):
                o.undecided("inner loop over self._degree_keys not found", f)
            else:
                jd = txt(inner[0].target)
                ifs = [s for s in inner[0].body if isinstance(s, ast.If)]
                decs = [n for n in ast.walk(inner[0]) if isinstance(n, ast.AugAssign)]
                ok_guard = len(ifs) == 1 and rules.compare_with_pivot(ifs[0].test, lambda x: txt(x) == f"{jd}[{i}]") in ((">", ifs[0].test.comparators[0]),) \
                    and astx.const_value(ifs[0].test.comparators[0]) == 0 if ifs and isinstance(ifs[0].test, ast.Compare) else False
                if not ok_guard:
                    g = ifs[0].test if ifs else inner[0]
                    if ifs and isinstance(ifs[0].test, ast.Compare) and f"{jd}[" in txt(ifs[0].test.left) and txt(ifs[0].test.left) != f"{jd}[{i}]":
                        o.violated(f, g, f"guard `{txt(g)}` tests a different position than the topology index `{i}`")
                    elif ifs and isinstance(ifs[0].test, ast.Compare) and txt(ifs[0].test.left) == f"{jd}[{i}]":
                        o.violated(f, g, f"guard `{txt(g)}`: excess keys must be produced exactly for joint degrees with {jd}[{i}] > 0")
                    else:
                        o.undecided("guard jd[i] > 0 not recognised", f, g)
                elif len(decs) != 1 or not (isinstance(decs[0].op, ast.Sub) and astx.const_value(decs[0].value) == 1
                                           and isinstance(decs[0].target, ast.Subscript) and txt(decs[0].target.slice) == i):
                    d = decs[0] if decs else inner[0]
                    o.violated(f, d, f"the excess key is not `jd` with exactly position {i} decremented by 1: `{txt(d)}`")
                else:
                    o.holds(f, decs[0], f"keys of topology {name}: jd with jd[{i}] > 0, position {i} decremented by 1")
                st_ = [s for s in outer[0].body if isinstance(s, ast.Assign) and isinstance(s.targets[0], ast.Subscript) and txt(s.targets[0].value) == "self._excess_degree_keys"]
                if len(st_) == 1 and txt(st_[0].targets[0].slice) == name:
                    o.holds(f, st_[0], f"stored under the topology's own name `{name}`")
                elif st_:
                    o.violated(f, st_[0], f"keys of topology {name} stored under `{txt(st_[0].targets[0].slice)}`")
                elif not any(isinstance(n_, ast.Attribute) and isinstance(n_.ctx, ast.Store) and n_.attr == "_excess_degree_keys" for n_ in astx.walk_fn(f.node)) \
                        and not any(isinstance(n_, ast.Call) and isinstance(n_.func, ast.Attribute) and n_.func.attr in ("update", "setdefault") and txt(n_.func.value) == "self._excess_degree_keys" for n_ in astx.walk_fn(f.node)):
                    o.violated(f, outer[0], f"the excess keys of topology {name} are computed but never stored in self._excess_degree_keys: every consumer sees an empty key list")
                # the decremented key has to be collected
                colls = [n_ for n_ in ast.walk(inner[0]) if isinstance(n_, ast.Call) and isinstance(n_.func, ast.Attribute) and n_.func.attr in ("append", "add")]
                comp_form = any(isinstance(n_, (ast.ListComp, ast.SetComp, ast.GeneratorExp)) for s_ in outer[0].body for n_ in ast.walk(s_))
                if not colls and not comp_form and ok_guard:
                    o.violated(f, inner[0], "the decremented joint degree is never collected (no append / add in the loop): the key lists stay empty")
        # the keys are computed when the object is built, from every vertex, and handed to the matrices object
        init_ = prog.method(ci, "__init__")
        ge_ = prog.method(ci, "get_ejks")
        if init_ is not None:
            calls_ = [n_ for n_ in astx.walk_fn(init_.node) if isinstance(n_, ast.Call) and txt(n_.func) == "self.resolve_excess_degree_keys"]
            dk_ = [n_ for n_ in astx.walk_fn(init_.node) if isinstance(n_, ast.Assign) and any(astx.self_attr(t_) == "_degree_keys" for t_ in n_.targets)
                   and any(isinstance(x_, (ast.ListComp, ast.SetComp, ast.GeneratorExp, ast.For)) for x_ in ast.walk(n_.value))]
            lazily_ = any(isinstance(n_, ast.Call) and txt(n_.func) == "self.resolve_excess_degree_keys" for m_ in ci.methods.values() if m_ is not init_ for n_ in astx.walk_fn(m_.node))
            if calls_:
                o.holds(init_, calls_[0], "the constructor resolves the excess degree keys")
            elif lazily_:
                o.undecided("resolve_excess_degree_keys is not called by the constructor but elsewhere: whether every consumer sees the keys is not recognised", init_)
            else:
                o.violated(init_, init_.node, "nothing calls resolve_excess_degree_keys(): self._excess_degree_keys stays empty, the matrices carry no keys")
            if not dk_ and not any(isinstance(n_, ast.For) and any(astx.self_attr(getattr(c_.func, "value", None)) == "_degree_keys" for c_ in ast.walk(n_) if isinstance(c_, ast.Call) and isinstance(c_.func, ast.Attribute))
                                   for n_ in astx.walk_fn(init_.node)):
                o.violated(init_, init_.node, "self._degree_keys is never computed from the vertices' joint degrees: there is nothing to derive excess keys from")
        if ge_ is not None:
            for fld_, src_ in (("excess_degree_keys", "_excess_degree_keys"), ("topology_names", "_topology_names")):
                handed = any(isinstance(n_, ast.Assign) and any(isinstance(t_, ast.Attribute) and t_.attr.lstrip("_") == fld_ and astx.self_attr(t_.value) == "_ejks" for t_ in n_.targets)
                             for n_ in astx.walk_fn(ge_.node)) or \
                    any(isinstance(n_, ast.Call) and txt(n_.func).split(".")[-1] == "JointExcessJointDegreeMatrices" and (n_.args or n_.keywords) for n_ in astx.walk_fn(ge_.node))
                if handed:
                    o.holds(ge_, ge_.node, f"get_ejks hands {fld_} to the matrices object")
                else:
                    o.violated(ge_, ge_.node, f"get_ejks no longer hands `{fld_}` (self.{src_}) to the matrices object it returns: consumers of the matrices (key views, degree-distribution algebra) find none")

    with ctx.obligation("C13.6", "overall-degree variant: (deg(u)-1, deg(v)-1) and its mirror, 1/(2E) each") as o:
        f = prog.func("JointExcessDegree.get_ejk")
        conform(o, f, REF_OVERALL, "JointExcessDegree.get_ejk(G)")
