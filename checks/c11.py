"""C11 - MCMC rewiring preserves vertices, degrees and motif structure.

Per-swap invariant, each clause checked on the source: the input network is only copied (C11.1); no vertex is
added or removed (C11.2); the documented defaults are well-typed (C11.3); every new edge inherits the topology
and motif id of the corner it JOINS (C11.4 - violated today at both call sites: recorded known finding D11);
no self-loop can be proposed (C11.5: every pair tested with has_edge also has an equality test that rejects);
mutation happens only after a true suitability test and a true swap condition on the same corners, and the
suitability routine rejects on every failed test (C11.6); partners are paired within one topology (C11.7);
proposals added = old edges removed (C11.8); the drawable set mirrors every graph mutation (C11.9); a corner is
all edges at the focal vertex with the drawn edge's motif id (C11.10).  With C11.4 repaired the post-state of
a swap is clean again, so the invariant holds after any number of swaps; termination is not decided."""
import ast

from gcmstatic import astx, rules, tm
from gcmstatic.astx import Scope, txt, pat, match
from gcmstatic.cfg import CFG
from gcmstatic.conform import conform
from gcmstatic.pm import AnalysisError

EXPLANATION = __doc__
CLS = "MarkovChainMonteCarloRewiring"

REF_GET_ALL_EDGES = ['''
def get_all_edges(self, G, u0, edge):
    es = []
    for e in G.edges(u0):
        if G.edges[e][NetworkNames.MOTIF_IDS] == G.edges[edge][NetworkNames.MOTIF_IDS]:
            es.append((u0, self.get_other_vertex(u0, e)))
    return es
''']

REF_HASHMAP = ['''
def get_hashmap(self, G, es):
    hashmap_es = {}
    for e in es:
        hashmap_es[G.edges[e][NetworkNames.TOPOLOGY]] = hashmap_es.get(G.edges[e][NetworkNames.TOPOLOGY], []) + [e]
    return hashmap_es
''']

REF_OTHER = ['''
def get_other_vertex(self, u, e):
    if e[0] == u:
        return e[1]
    elif e[1] == u:
        return e[0]
    else:
        raise ValueError()
''']


def swap_roles(sw):
    """Role names for swap_condition's locals from its parameter positions: (self, G, e0s, e1s, u0, v0)."""
    p = sw.params
    if len(p) < 6:
        raise AnalysisError("swap_condition signature changed")
    Gp, e0s, e1s, u0, v0 = p[1:6]
    return Gp, e0s, e1s, u0, v0


def _partners_of(sc, expr):
    """(A, name) when expr is a collection of `self.get_other_vertex(A, e)` over some edges (comprehension, set()/list() of
    one, or a local filled by an append loop); else None"""
    name = expr.id if isinstance(expr, ast.Name) else None
    e = sc.resolve(expr)
    while isinstance(e, ast.Call) and txt(e.func) in ("set", "list", "tuple", "frozenset") and len(e.args) == 1:
        e = e.args[0]
    if isinstance(e, ast.Name):
        comp = rules.as_comprehension(sc, e.id)
        name = name or e.id
        if comp is not None:
            e = comp
    if isinstance(e, (ast.ListComp, ast.SetComp, ast.GeneratorExp)) and isinstance(e.elt, ast.Call) and txt(e.elt.func) == "self.get_other_vertex" and e.elt.args:
        return txt(e.elt.args[0]), name
    return None


def _other_vertex_names(fn, sc, A, pname):
    """locals that stand for `the other end point of one of A's corner edges`"""
    out = set()
    for nm, sites in sc.assigns.items():
        if any(isinstance(s_.value, ast.Call) and txt(s_.value.func) == "self.get_other_vertex" and s_.value.args and txt(s_.value.args[0]) == A for s_ in sites):
            out.add(nm)
    if pname:
        for n in astx.walk_fn(fn.node):
            if isinstance(n, ast.For):
                if isinstance(n.iter, ast.Name) and n.iter.id == pname and isinstance(n.target, ast.Name):
                    out.add(n.target.id)
                if isinstance(n.iter, ast.Call) and txt(n.iter.func) == "zip" and isinstance(n.target, ast.Tuple) and len(n.target.elts) == len(n.iter.args):
                    for te, a in zip(n.target.elts, n.iter.args):
                        if isinstance(a, ast.Name) and a.id == pname and isinstance(te, ast.Name):
                            out.add(te.id)
    return sorted(out)


def run(ctx):
    prog = ctx.prog
    ctx.trust("networkx Graph.copy copies nodes, edges and their attribute dicts; add_edge/remove_edge; G.edges(u) lists all edges at u",
              "DrawSet behaves as a set (C20)")
    ci = prog.cls(CLS)
    rw = prog.method(ci, "rewire")
    sw = prog.method(ci, "swap_condition")
    su = prog.method(ci, "is_edge_choice_suitable")
    ap = prog.method(ci, "append_proposal_edges")
    init = prog.method(ci, "__init__")
    sc = Scope(rw.node)
    par = sc.parents
    cfg = CFG(rw.node)

    copies = [nm for nm in sc.assigns if rules.is_copy_of(sc, nm, ["self._network.G", "self.network.G"])]
    G = copies[0] if copies else None

    with ctx.obligation("C11.1", "rewire never writes through the input network; it works on and returns a copy", floor=2) as o:
        net_aliases = [nm for nm, sites in sc.assigns.items() if len(sites) == 1 and (astx.attr_path(sites[0].value) or "").startswith("self._network")]
        effs = [e for e in rules.effects_on(prog, rw, ["self"] + net_aliases, scope=sc) if e.path.startswith("self._network") or e.root in net_aliases]
        for f in (sw, su, ap, prog.method(ci, "get_all_edges"), prog.method(ci, "get_hashmap")):
            effs += [e for e in rules.effects_on(prog, f, ["self"]) if e.path.startswith("self._network")]
        for n in astx.walk_fn(rw.node):
            if isinstance(n, (ast.Assign, ast.AugAssign)):
                for t in (n.targets if isinstance(n, ast.Assign) else [n.target]):
                    if (astx.attr_path(t) or "").startswith("self._network"):
                        effs.append(rules.Effect(n, "rebind", "self", txt(t)))
        # a name that is the caller's graph on SOME path (`G = self._network.G; if ..: G = G.copy()`) and is edited afterwards
        cond_alias = [nm for nm, sites in sc.assigns.items() if len(sites) > 1 and any((astx.attr_path(getattr(s_, "value", None)) or "").startswith("self._network") for s_ in sites)]
        cond_effs = []
        for nm in cond_alias:
            try:
                cond_effs += [(nm, e) for e in rules.effects_on(prog, rw, [nm], scope=sc) if e.root == nm]
            except Exception:
                pass
        if effs:
            for e in effs:
                o.violated(rw, e.node, f"the caller's network is modified: {e.kind} on {e.path}")
        elif cond_effs:
            nm, e = cond_effs[0]
            o.violated(rw, e.node, f"`{nm}` is the caller's own graph on the path where it is not copied (the copy is conditional), and `{txt(e.node)[:50]}` edits it: "
                                   "the input network is rewired in place", shape_free=True)
        elif G is None:
            bad = [nm for nm in net_aliases if any(x.root == nm for x in rules.effects_on(prog, rw, [nm], scope=sc))]
            rets_ = [n for n in astx.walk_fn(rw.node) if isinstance(n, ast.Return) and isinstance(n.value, ast.Name)]
            fresh = None
            if len(rets_) == 1 and sc.def_stmt(rets_[0].value.id) is not None:
                dv = sc.def_stmt(rets_[0].value.id).value
                if isinstance(dv, ast.Call) and prog.external(rw.module, dv.func) in ("networkx.Graph", "networkx.MultiGraph") and not dv.args:
                    fresh = rets_[0].value.id
            if net_aliases:
                o.violated(rw, sc.def_stmt(net_aliases[0]), "rewire works on the input graph itself (no .copy())")
            elif fresh is not None:
                addn = [n for n in astx.walk_fn(rw.node) if isinstance(n, ast.Call) and isinstance(n.func, ast.Attribute) and n.func.attr in ("add_nodes_from", "add_node", "update")
                        and txt(n.func.value) == fresh and "self._network" in txt(sc.resolve(n.args[0]) if n.args else n)]
                adde = [n for n in astx.walk_fn(rw.node) if isinstance(n, ast.Call) and isinstance(n.func, ast.Attribute) and n.func.attr == "add_edges_from" and txt(n.func.value) == fresh]
                if adde and not addn:
                    o.violated(rw, adde[0], f"the working graph `{fresh}` is rebuilt from the EDGES of the input network: vertices that have no edge are not carried over "
                                            "(networkx.set_node_attributes silently skips absent nodes), so the returned network has a smaller vertex set than the input")
                else:
                    o.undecided(f"working graph `{fresh}` is rebuilt by hand instead of self._network.G.copy(): not recognised", rw)
            else:
                o.undecided("working copy self._network.G.copy() not found", rw)
        else:
            o.holds(rw, sc.def_stmt(G), f"all graph mutators act on `{G} = self._network.G.copy()`")
            rets = [n for n in astx.walk_fn(rw.node) if isinstance(n, ast.Return)]
            if rets and all(r_.value is not None and txt(r_.value) == G for r_ in rets):
                o.holds(rw, rets[0], f"returns the rewired copy `{G}`" + (f" (all {len(rets)} exits)" if len(rets) > 1 else ""))
            else:
                badr = next((r_ for r_ in rets if r_.value is None or txt(r_.value) != G), None)
                o.violated(rw, badr if badr is not None else rw.node, f"rewire does not return the rewired copy `{G}`")
    if G is None:
        return

    with ctx.obligation("C11.2", "vertex set and vertex annotations untouched") as o:
        bad = []
        for f in (rw, sw, su, ap, prog.method(ci, "get_all_edges"), prog.method(ci, "get_hashmap")):
            for n in astx.walk_fn(f.node):
                if isinstance(n, ast.Call) and isinstance(n.func, ast.Attribute) and n.func.attr in ("add_node", "add_nodes_from", "remove_node", "remove_nodes_from", "clear"):
                    bad.append((f, n))
                if isinstance(n, ast.Call) and prog.external(f.module, n.func) in ("networkx.set_node_attributes", "networkx.relabel_nodes"):
                    bad.append((f, n))
                if isinstance(n, (ast.Assign, ast.AugAssign)):
                    for t in (n.targets if isinstance(n, ast.Assign) else [n.target]):
                        if isinstance(t, ast.Subscript) and ".nodes[" in txt(t):
                            bad.append((f, n))
        if bad:
            for f, n in bad:
                o.violated(f, n, f"`{txt(n)[:80]}` changes the vertex set / vertex annotations")
        else:
            o.holds(rw, rw.node, "no node mutator and no write to node attributes in rewire and its helpers", construct="effect scan of 6 methods")

    with ctx.obligation("C11.3", "constructor defaults are well-typed; both optional limits have a usable default", floor=2) as o:
        isc = Scope(init.node)
        ipar = isc.parents
        assigns = {}
        for n in astx.walk_fn(init.node):
            if isinstance(n, (ast.Assign, ast.AnnAssign)) and n.value is not None:
                a = astx.self_attr(n.targets[0] if isinstance(n, ast.Assign) else n.target)
                if a:
                    assigns.setdefault(a, []).append(n)
        for attr, key in (("_convergence_limit", "CONVERGENCE_LIMIT"), ("_search_limit", "SEARCH_LIMIT")):
            sites = assigns.get(attr, [])
            defaults = [s for s in sites if not (isinstance(s.value, ast.Subscript) and rules.enum_member(s.value.slice, "ToolsNames"))
                        and not (isinstance(s.value, ast.Constant) and s.value.value is None)]
            if not defaults:
                o.violated(init, sites[0] if sites else init.node, f"`self.{attr}` has no default when params lacks {key}: the documented default is unusable")
                continue
            for d in defaults:
                bad_ops = []
                for n in ast.walk(d.value):
                    if isinstance(n, ast.BinOp):
                        for opnd in (n.left, n.right):
                            if isinstance(opnd, ast.Call) and isinstance(opnd.func, ast.Attribute) and opnd.func.attr in ("edges", "nodes", "items", "keys", "values", "adjacency"):
                                bad_ops.append(opnd)
                            elif isinstance(opnd, ast.Attribute) and opnd.attr in ("edges", "nodes", "adj"):
                                bad_ops.append(opnd)
                            elif isinstance(opnd, (ast.List, ast.Dict, ast.Set, ast.JoinedStr)) or (isinstance(opnd, ast.Constant) and isinstance(opnd.value, str)):
                                bad_ops.append(opnd)
                if bad_ops:
                    o.violated(init, d, f"default `{txt(d)}`: `{txt(bad_ops[0])}` is a view/container, not a number - arithmetic on it raises TypeError, so leaving {key} "
                                        "to its default fails at construction")
                else:
                    # reachable exactly when the key is absent (else-branch of `KEY in params`) or unconditionally before
                    guards = [a for a in ipar.ancestors(d) if isinstance(a, ast.If)]
                    if guards:
                        g = guards[0]
                        br = ipar.branch_of(d, g)
                        t = txt(g.test)
                        if (t == f"ToolsNames.{key} in params" and br == "orelse") or (t == f"ToolsNames.{key} not in params" and br == "body"):
                            o.holds(init, d, f"default for {key}: `{txt(d.value)}` (numeric) when the key is absent")
                        elif isinstance(g.test, ast.Compare) and len(g.test.ops) == 1 and isinstance(g.test.ops[0], (ast.In, ast.NotIn)) and txt(g.test.comparators[0]) == "params" \
                                and rules.enum_member(g.test.left, "ToolsNames") not in (None, key):
                            o.violated(init, d, f"the default of `self.{attr}` hangs off `{t}` (a DIFFERENT option): with {key} absent the limit is left unset / with it present "
                                                f"the caller's value is overwritten, depending on whether {rules.enum_member(g.test.left, 'ToolsNames')} was passed", shape_free=True)
                        else:
                            o.undecided(f"default of {attr} guarded by `{t}`", init, d)
                    else:
                        o.holds(init, d, f"default for {key}: `{txt(d.value)}`")

    # ------------------------------------------------------------------ C11.4
    Gp, e0s_p, e1s_p, u0_p, v0_p = swap_roles(sw)
    ssc = Scope(sw.node)
    spar = ssc.parents
    # the numerator loop: `for e0 in e0s`
    nl = [n for n in sw.body if isinstance(n, ast.For) and txt(n.iter) == e0s_p]
    e0v = txt(nl[0].target) if nl else None
    # e1: popped from hashmap of e1s
    e1v = None
    pop_st = None
    if nl:
        for n in ast.walk(nl[0]):
            if isinstance(n, (ast.Assign, ast.AnnAssign)) and isinstance(n.value, ast.Call) and isinstance(n.value.func, ast.Attribute) and n.value.func.attr == "pop":
                e1v = txt(n.targets[0] if isinstance(n, ast.Assign) else n.target)
                pop_st = n
    roles = {u0_p: "u0", v0_p: "v0"}
    if e0v:
        roles[e0v] = "<corner edge of u0>"
    if e1v:
        roles[e1v] = "<corner edge of v0>"
    own_corner = {u0_p: e0v, v0_p: e1v}
    other_corner = {u0_p: e1v, v0_p: e0v}

    def role(x):
        return roles.get(txt(x), txt(x))

    with ctx.obligation("C11.4", "a new edge inherits topology and motif id from the corner it joins", floor=4) as o:
        calls = [n for n in astx.walk_fn(sw.node) if isinstance(n, ast.Call) and txt(n.func) == "self.append_proposal_edges"]
        if len(calls) != 2 or not nl or e1v is None:
            o.undecided(f"expected two append_proposal_edges calls in the numerator loop, found {len(calls)}", sw)
        for c in calls:
            if len(c.args) != 4:
                o.undecided("append_proposal_edges called with unexpected arguments", sw, c)
                continue
            _, F, OLD, NEW = c.args
            b = match(pat("($f, self.get_other_vertex($f2, $e))"), NEW)
            key = None
            if b is not None:
                key = f"append_proposal_edges(focal={role(F)}, old_edge={role(OLD)}, new_edge=({role(b['f'])}, other({role(b['f2'])}, {role(b['e'])})))"
            if b is None or txt(b["f"]) != txt(F):
                o.undecided(f"new edge `{txt(NEW)}` is not (focal, other end of the partner's corner edge)", sw, c)
                continue
            Fx = txt(F)
            E = txt(b["e"])
            # the new edge (F, other(F2, E)) joins F to the motif of E; it must carry E's annotations
            if Fx in other_corner and E == other_corner[Fx] and txt(b["f2"]) != Fx:
                if txt(OLD) == E:
                    o.holds(sw, c, f"new edge ({role(F)}, far end of {role(b['e'])}) inherits from {role(OLD)}: the motif it joins")
                elif txt(OLD) == own_corner.get(Fx):
                    o.violated(sw, c, f"the new edge ({role(F)}, other({role(b['f2'])}, {role(b['e'])})) joins the motif of {role(b['e'])} but inherits topology and motif id "
                                      f"from {role(OLD)} (the focal vertex's OWN old corner): edges sharing a motif id stop forming a motif of that shape", key=key)
                else:
                    o.violated(sw, c, f"the new edge inherits its motif id from `{txt(OLD)}`, which is neither corner edge of this pairing", key=key)
            else:
                o.violated(sw, c, f"proposal `{txt(NEW)}` does not connect the focal vertex {role(F)} to the far end of the partner corner's edge", key=key)
        # the two proposals of one pairing inherit from the two DIFFERENT corner edges: each of the two motifs loses one edge (its
        # corner) and must gain exactly one - whichever of the two conventions above is used
        olds = [txt(c.args[2]) for c in calls if len(c.args) == 4]
        if len(olds) == 2 and e1v is not None:
            if set(olds) == {e0v, e1v}:
                o.holds(sw, calls[0], f"the two proposals inherit from the two corner edges {role(calls[0].args[2])} and {role(calls[1].args[2])}, one each")
            elif olds[0] == olds[1] and olds[0] in (e0v, e1v):
                o.violated(sw, calls[1], f"both proposals of a pairing inherit topology and motif id from {role(calls[1].args[2])}: that motif gains two edges and the other corner's motif "
                                         "none, although each loses exactly one - the number of edges per motif id is not preserved", shape_free=True,
                           key=f"both proposals inherit from {role(calls[1].args[2])}")
        # provenance inside append_proposal_edges
        asc = Scope(ap.node)
        pG, pF, pOLD, pNEW = ap.params[1:5]
        stores = {}
        for n in astx.walk_fn(ap.node):
            if isinstance(n, ast.Assign) and isinstance(n.targets[0], ast.Attribute) and isinstance(n.targets[0].value, ast.Name):
                stores[n.targets[0].attr.lstrip("_")] = n
        # the fields may also be handed to the constructor:  ProposalEdge(topology=..., motif_id=..., new_edge=...)
        ctor_calls = [n for n in astx.walk_fn(ap.node) if isinstance(n, ast.Call) and txt(n.func).split(".")[-1] == "ProposalEdge"]
        ctor_opaque = False
        for cc in ctor_calls:
            if cc.args or any(k.arg is None for k in cc.keywords):
                ctor_opaque = True
            for k in cc.keywords:
                if k.arg is not None and k.arg.lstrip("_") not in stores:
                    synth = ast.copy_location(ast.Assign(targets=[ast.Attribute(value=ast.Name(id="p", ctx=ast.Load()), attr=k.arg, ctx=ast.Store())], value=k.value, lineno=cc.lineno, col_offset=cc.col_offset), cc)
                    stores[k.arg.lstrip("_")] = synth
        want = {"topology": f"{pG}.edges[{pOLD}][NetworkNames.TOPOLOGY]", "motif_id": f"{pG}.edges[{pOLD}][NetworkNames.MOTIF_IDS]"}
        for fld, w in want.items():
            st = stores.get(fld)
            if st is None and (ctor_opaque or not ctor_calls):
                o.undecided(f"how the proposal's {fld} is set was not recognised", ap)
            elif st is None:
                o.violated(ap, ap.node, f"the proposal's {fld} is never set: the new edge loses its annotation")
            elif txt(asc.resolve(st.value)) == w:
                o.holds(ap, st, f"proposal.{fld} <- G.edges[old_edge][{w.split('.')[-1][:-1]}]")
            elif "NetworkNames" in txt(st.value) and pOLD in txt(st.value):
                o.violated(ap, st, f"proposal.{fld} is read from `{txt(st.value)}`: topology and motif id are cross-wired")
            else:
                o.violated(ap, st, f"proposal.{fld} = `{txt(st.value)}` does not come from the old edge's annotation")
        # the proposal carries its new edge and is recorded: rewire() adds exactly the recorded proposals and removes both old
        # corners, so a proposal that is not recorded (or has no edge) is an edge lost
        st_ne = stores.get("new_edge")
        if st_ne is None and (ctor_opaque or not ctor_calls):
            o.undecided("how the proposal's new edge is set was not recognised", ap)
        elif st_ne is None:
            o.violated(ap, ap.node, "the proposal's new edge is never set: rewire() has nothing to add for it while the old corner edges are removed")
        else:
            v_ = asc.resolve(st_ne.value)
            if isinstance(v_, ast.Tuple) and len(v_.elts) == 2 and txt(v_.elts[0]) == pF and match(pat(f"self.get_other_vertex({pF}, {pNEW})"), v_.elts[1]) is not None:
                o.holds(ap, st_ne, "proposal.new_edge <- (focal, other end of new_edge)")
            elif isinstance(v_, ast.Tuple) and len(v_.elts) == 2 and pF in [txt(x) for x in v_.elts] and any(match(pat(f"self.get_other_vertex({pF}, {pNEW})"), x) is not None for x in v_.elts):
                o.holds(ap, st_ne, "proposal.new_edge joins the focal vertex and the other end of new_edge")
            elif txt(v_) == pNEW or isinstance(v_, ast.Tuple):
                o.undecided(f"proposal.new_edge = `{txt(v_)[:60]}` not recognised as (focal, other end)", ap, st_ne)
            else:
                o.undecided(f"proposal.new_edge = `{txt(v_)[:60]}` not recognised", ap, st_ne)
        recs = [n for n in astx.walk_fn(ap.node) if isinstance(n, ast.Call) and isinstance(n.func, ast.Attribute) and n.func.attr in ("append", "extend", "insert", "add")
                and astx.self_attr(n.func.value) == "_proposal_edges"] + \
               [n for n in astx.walk_fn(ap.node) if isinstance(n, ast.AugAssign) and astx.self_attr(n.target) == "_proposal_edges"]
        if not recs:
            o.violated(ap, ap.node, "append_proposal_edges never records the proposal in self._proposal_edges: rewire() removes the old corner edges but adds nothing for this one "
                                    "(an edge is lost, degrees drop)")
        elif any(astx.Parents(ap.node).stmt_of(r) in list(ap.node.body) for r in recs):
            o.holds(ap, recs[0], "the proposal is recorded in self._proposal_edges unconditionally")
        else:
            o.undecided("the proposal is recorded only conditionally", ap, recs[0])
        # application in rewire
        app_st = {}
        for n in astx.walk_fn(rw.node):
            if isinstance(n, ast.Assign) and isinstance(n.targets[0], ast.Subscript) and rules.enum_member(n.targets[0].slice, "NetworkNames"):
                app_st[rules.enum_member(n.targets[0].slice, "NetworkNames")] = n
        # the annotations may travel with the edge: add_edges_from([(u, v, {KEY: value, ..})]) / add_edge(u, v, **{KEY: value})
        for n in astx.walk_fn(rw.node):
            if isinstance(n, ast.Call) and isinstance(n.func, ast.Attribute) and n.func.attr in ("add_edges_from", "add_edge"):
                for d_ in [x for x in ast.walk(n) if isinstance(x, ast.Dict)]:
                    for k_, v_ in zip(d_.keys, d_.values):
                        mem_ = rules.enum_member(k_, "NetworkNames") if k_ is not None else None
                        if mem_ and mem_ not in app_st:
                            app_st[mem_] = ast.copy_location(ast.Assign(targets=[ast.Subscript(value=ast.Name(id="_edge_attrs", ctx=ast.Load()), slice=k_, ctx=ast.Store())], value=v_,
                                                                        lineno=n.lineno, col_offset=n.col_offset), n)
        for mem, fld in (("TOPOLOGY", "topology"), ("MOTIF_IDS", "motif_id")):
            st = app_st.get(mem)
            if st is None and any(isinstance(n, ast.Call) and isinstance(n.func, ast.Attribute) and n.func.attr == "add_edge" and n.keywords for n in astx.walk_fn(rw.node)):
                o.undecided(f"new edges are added with keyword attributes: the {mem} annotation was not recognised", rw)
            elif st is None:
                o.violated(rw, rw.node, f"new edges are added without their {mem} annotation")
            elif txt(st.value).split(".")[-1].lstrip("_") == fld:
                o.holds(rw, st, f"new edge's {mem} <- proposal.{fld}")
            else:
                o.violated(rw, st, f"new edge's {mem} is set from `{txt(st.value)}`")

    # ------------------------------------------------------------------ C11.5 / C11.6 (suitability routine)
    with ctx.obligation("C11.5", "no self-loop can be proposed: every has_edge(a, b) test has an a == b rejection") as o, \
            ctx.obligation("C11.6", "suitability rejects on every failed test; mutation only after suitable + swap condition on the same corners", floor=4) as o6:
        usc = Scope(su.node)
        upar = usc.parents
        has = [n for n in astx.walk_fn(su.node) if isinstance(n, ast.Call) and isinstance(n.func, ast.Attribute) and n.func.attr == "has_edge" and len(n.args) == 2]
        pairs = [frozenset((txt(n.args[0]), txt(n.args[1]))) for n in has]
        eqs = []
        identity = []
        unknown = []
        joint_only = []
        ifs = [n for n in astx.walk_fn(su.node) if isinstance(n, ast.If)]

        def _alternatives(test, pol):
            # the ways in which `test` being `pol` can come about, each as (expr, polarity)
            while isinstance(test, ast.UnaryOp) and isinstance(test.op, ast.Not):
                test, pol = test.operand, not pol
            # `not all(C for ..)` holds when C fails for some element; `any(C for ..)` when C holds for some element
            if isinstance(test, ast.Call) and txt(test.func) in ("all", "any") and len(test.args) == 1 and isinstance(test.args[0], (ast.GeneratorExp, ast.ListComp)) \
                    and pol == (txt(test.func) == "any") and not any(g_.ifs for g_ in test.args[0].generators):
                return _alternatives(test.args[0].elt, pol)
            if isinstance(test, ast.BoolOp) and ((isinstance(test.op, ast.Or) and pol) or (isinstance(test.op, ast.And) and not pol)):
                out_ = []
                for v_ in test.values:
                    out_ += _alternatives(v_, pol)
                return out_
            return [(test, pol)]
        # every `return False` is reached under path conditions; the innermost one is the failed test it answers
        # (this reads `if bad: return False` and `if not bad: continue` + `return False` alike)
        rejecting_tests = set()
        for r_ in [n for n in astx.walk_fn(su.node) if isinstance(n, ast.Return) and isinstance(n.value, ast.Constant) and n.value.value is False]:
            pcs_ = rules.path_conditions(upar, r_)
            if not pcs_:
                continue
            test_, pol_ = pcs_[-1]
            rejecting_tests.add(id(test_))
            for d, dp in _alternatives(test_, pol_):
                t = txt(d)
                if isinstance(d, ast.Compare) and len(d.ops) == 1 and isinstance(d.ops[0], (ast.Eq, ast.NotEq)) and isinstance(d.left, ast.Name) and isinstance(d.comparators[0], ast.Name):
                    if dp == isinstance(d.ops[0], ast.Eq):
                        eqs.append(frozenset((txt(d.left), txt(d.comparators[0]))))
                elif isinstance(d, ast.Compare) and len(d.ops) == 1 and isinstance(d.ops[0], (ast.Is, ast.IsNot)) and isinstance(d.left, ast.Name) and isinstance(d.comparators[0], ast.Name):
                    identity.append((frozenset((txt(d.left), txt(d.comparators[0]))), d))
                elif isinstance(d, ast.Compare) and len(d.ops) == 1 and isinstance(d.ops[0], (ast.In, ast.NotIn)) and isinstance(d.left, ast.Name) \
                        and _partners_of(usc, d.comparators[0]) is not None:
                    # `x in partners`, partners = the other end points of A's corner edges: x == other(A, e) for some e, i.e. the
                    # equality test of x with every local that stands for such an other end point
                    A_, pname_ = _partners_of(usc, d.comparators[0])
                    if dp == isinstance(d.ops[0], ast.In):
                        for nm_ in _other_vertex_names(su, usc, A_, pname_):
                            eqs.append(frozenset((txt(d.left), nm_)))
                elif isinstance(d, ast.Call) and isinstance(d.func, ast.Attribute) and d.func.attr == "has_edge":
                    if not dp:
                        o6.violated(su, r_, f"the pairing is rejected when the prospective edge `{t}` is ABSENT: swaps that would duplicate an existing edge go through, "
                                            "valid ones are refused")
                elif isinstance(d, ast.BoolOp) and isinstance(d.op, ast.And) and dp and all(isinstance(v_, ast.Call) and isinstance(v_.func, ast.Attribute) and v_.func.attr == "has_edge" for v_ in d.values):
                    o6.violated(su, r_, f"the pairing is rejected only when ALL of `{t}` already exist: a swap that duplicates one existing edge goes through (multi-edge collapses, an edge is lost)")
                elif isinstance(d, ast.Compare) and len(d.ops) == 1 and isinstance(d.ops[0], (ast.Eq, ast.NotEq)) and "MOTIF_IDS" in t:
                    if dp != isinstance(d.ops[0], ast.Eq):
                        o6.violated(su, r_, f"corners are rejected when their motif ids DIFFER (`{t}`): only swaps inside one motif are allowed, which tears the motif apart")
                elif isinstance(d, ast.Compare) and len(d.ops) == 1 and isinstance(d.ops[0], (ast.Eq, ast.NotEq)) and ("len(" in t or ".keys()" in t):
                    if dp != isinstance(d.ops[0], ast.NotEq):
                        o6.violated(su, r_, f"corners are rejected when `{t}` says they MATCH: only corners of different shape are paired, per-topology degrees are not preserved")
                elif "len(" in t or ".keys()" in t or "MOTIF_IDS" in t:
                    pass
                elif isinstance(d, ast.BoolOp) and all(isinstance(v_, ast.Compare) and len(v_.ops) == 1 and isinstance(v_.ops[0], (ast.Eq, ast.NotEq)) and isinstance(v_.left, ast.Name)
                                                        and isinstance(v_.comparators[0], ast.Name) for v_ in d.values) \
                        and ((isinstance(d.op, ast.Or) and not dp and all(isinstance(v_.ops[0], ast.NotEq) for v_ in d.values))
                             or (isinstance(d.op, ast.And) and dp and all(isinstance(v_.ops[0], ast.Eq) for v_ in d.values))):
                    # rejects only when ALL the listed pairs coincide at once: no single coincidence is rejected
                    joint_only.append((d, [frozenset((txt(v_.left), txt(v_.comparators[0]))) for v_ in d.values]))
                else:
                    unknown.append(t)
        for i in ifs:
            if id(i.test) not in rejecting_tests:
                t = txt(i.test)
                if "has_edge" in t or "len(" in t or ".keys()" in t or "MOTIF_IDS" in t or (isinstance(i.test, ast.Compare) and isinstance(i.test.ops[0], (ast.Eq, ast.NotEq))):
                    o6.violated(su, i, f"the failed test `{txt(i.test)}` does not end in `return False`: an unsuitable pairing is let through")
                else:
                    o6.undecided(f"`if {t}` in is_edge_choice_suitable is not a rejecting test", su, i)
        if not has:
            o.undecided("no has_edge test of prospective edges found", su)
        else:
            missing = [p for p in pairs if p not in eqs]
            by_identity = [(p, d) for p, d in identity if p in missing]
            if by_identity:
                o.violated(su, by_identity[0][1], f"`{txt(by_identity[0][1])}` compares vertex ids by object identity: equal ids held in different int objects (labels above 256, ids read "
                                                  "from different containers) pass the test, the shared vertex is not detected and the swap creates a self-loop")
            elif missing and any(set(missing) <= set(ps_) for _, ps_ in joint_only):
                d_ = [d for d, ps_ in joint_only if set(missing) <= set(ps_)][0]
                o.violated(su, d_, f"`{txt(d_)}` rejects a pairing only when ALL of {sorted(sorted(p) for p in missing)} coincide at once: one shared vertex alone passes, and the swap "
                                   "creates a self-loop (the two coincidence tests have to be alternatives, not a conjunction)")
            elif not missing:
                o.holds(su, has[0], f"pairs tested for presence {sorted(sorted(p) for p in pairs)} are also rejected when their ends coincide")
            elif unknown:
                o.undecided(f"tests not recognised by the rule: {unknown}", su)
            else:
                o.violated(su, has[0], f"prospective edge(s) {sorted(sorted(p) for p in missing)} are only tested with has_edge(a, b), which is false for a == b on a loop-free graph: "
                                       "two motifs that share a vertex pass every test and the swap creates a self-loop")
        rets = [n for n in astx.walk_fn(su.node) if isinstance(n, ast.Return)]
        trues = [r for r in rets if isinstance(r.value, ast.Constant) and r.value.value is True]
        last = su.body[-1] if su.body else None
        if len(trues) == 1 and trues[0] is last:
            o6.holds(su, trues[0], f"`return True` only after all {len(ifs)} rejecting tests were passed")
        elif trues:
            # an acceptance that is not the last statement skips exactly the rejecting tests written after it
            skipped = [i for r_ in trues for i in ifs if id(i.test) in rejecting_tests and (i.lineno, i.col_offset) > (r_.lineno, r_.col_offset)]
            if skipped:
                o6.violated(su, trues[0], f"`return True` at line {trues[0].lineno} is reachable without passing the rejecting test `{txt(skipped[0].test)[:60]}` that follows it")
            else:
                conds_ = [txt(t_)[:50] for r_ in trues for t_, _p in rules.path_conditions(upar, r_)]
                o6.undecided(f"`return True` is conditional ({conds_[:1]}): whether the condition contains every remaining test is not recognised", su, trues[0])
        else:
            o6.undecided("return structure of is_edge_choice_suitable not recognised", su)
        # rewire: mutation guarded by swap_condition, found through is_edge_choice_suitable
        muts = [n for n in astx.walk_fn(rw.node) if isinstance(n, ast.Call) and isinstance(n.func, ast.Attribute) and n.func.attr in ("add_edge", "remove_edge") and txt(n.func.value) == G]
        swc = [n for n in astx.walk_fn(rw.node) if isinstance(n, ast.Call) and txt(n.func) == "self.swap_condition"]
        suc = [n for n in astx.walk_fn(rw.node) if isinstance(n, ast.Call) and txt(n.func) == "self.is_edge_choice_suitable"]
        if len(swc) != 1 or len(suc) != 1 or not muts:
            o6.undecided("calls of swap_condition / is_edge_choice_suitable / mutations not found in rewire", rw)
        else:
            gi = par.stmt_of(swc[0])
            def _under_true_swap(m_):
                for t_, p_ in rules.path_conditions(par, m_):
                    tt = t_
                    pp = p_
                    while isinstance(tt, ast.UnaryOp) and isinstance(tt.op, ast.Not):
                        tt, pp = tt.operand, not pp
                    if tt is swc[0] or (isinstance(tt, ast.Name) and sc.def_stmt(tt.id) is not None and sc.def_stmt(tt.id).value is swc[0]):
                        return pp
                return None
            verdicts = [_under_true_swap(m_) for m_ in muts]
            if all(v_ is True for v_ in verdicts):
                o6.holds(rw, gi, f"all {len(muts)} graph mutations run only when self.swap_condition(...) returned true")
            elif any(v_ is False for v_ in verdicts):
                o6.violated(rw, gi, "graph mutations are not confined to a true swap condition (the result is negated)")
            else:
                o6.violated(rw, gi, "graph mutations are not confined to a true swap condition")
            a_sw = [txt(a) for a in swc[0].args]
            a_su = [txt(a) for a in suc[0].args]
            if len(a_sw) == 5 and len(a_su) == 5 and a_sw[0] == a_su[0] == G and a_sw[1:3] == a_su[3:5] and a_sw[3:5] == a_su[1:3]:
                o6.holds(rw, swc[0], "swap_condition and is_edge_choice_suitable receive the same graph, corners and focal vertices")
            else:
                o6.violated(rw, swc[0], f"swap_condition({', '.join(a_sw)}) and is_edge_choice_suitable({', '.join(a_su)}) are not called on the same corners/focal vertices")
            si = par.stmt_of(suc[0])
            sloop = par.loops_of(suc[0])
            brk = isinstance(si, ast.If) and si.test is suc[0] and any(isinstance(s, ast.Break) for s in si.body)
            breaks = [x for x in ast.walk(sloop[0]) if isinstance(x, ast.Break)] if sloop else []
            if brk and len(breaks) == 1:
                # after the search loop, an exhausted search must skip the mutation
                after = [s for s in par.parent(sloop[0]).body[par.parent(sloop[0]).body.index(sloop[0]) + 1:] if isinstance(s, ast.If)]
                skip = [s for s in after if any(isinstance(x, ast.Continue) for x in s.body) and "search" in txt(s.test)]
                if skip and skip[0] is not gi and cfg.dominates(skip[0], gi):
                    r = rules.compare_with_pivot(skip[0].test, lambda x: isinstance(x, ast.Name))
                    lim = rules.compare_with_pivot(sloop[0].test, lambda x: isinstance(x, ast.Name))
                    if r and lim and txt(r[1]) == txt(lim[1]) and ((lim[0] == "<=" and r[0] in (">=", ">")) or (lim[0] == "<" and r[0] in (">=",))):
                        o6.holds(rw, skip[0], "the search loop is left by `break` only on a suitable pair; an exhausted search skips the swap")
                    else:
                        o6.violated(rw, skip[0], f"after an exhausted search (`{txt(sloop[0].test)}` false) the guard `{txt(skip[0].test)}` does not skip the swap: an unsuitable pair is swapped")
                else:
                    o6.violated(rw, sloop[0], "an exhausted search is not skipped before the swap")
            else:
                o6.violated(rw, si, "the search loop can be left without a suitable pair") if not brk else o6.undecided("several breaks in the search loop", rw, sloop[0])
            # corners are computed with the drawn edges
            ga = [n for n in astx.walk_fn(rw.node) if isinstance(n, ast.Call) and txt(n.func) == "self.get_all_edges"]
            defs = {}
            for n in ga:
                st = par.stmt_of(n)
                if isinstance(st, (ast.Assign, ast.AnnAssign)):
                    defs[txt(st.targets[0] if isinstance(st, ast.Assign) else st.target)] = [txt(a) for a in n.args]
            U, V, u0, v0 = a_sw[1], a_sw[2], a_sw[3], a_sw[4]
            okc = True
            for corner, focal in ((U, u0), (V, v0)):
                d = defs.get(corner)
                fdef = sc.rtxt(ast.Name(id=focal, ctx=ast.Load()))
                if not d or d[0] != G or d[1] != focal:
                    okc = False
                    o6.violated(rw, swc[0], f"corner `{corner}` is not get_all_edges({G}, {focal}, <drawn edge>)")
                else:
                    e = d[2]
                    fd = [s for s in astx.stmts_in(rw.body) if isinstance(s, (ast.Assign, ast.AnnAssign)) and txt(s.targets[0] if isinstance(s, ast.Assign) else s.target) == focal]
                    if not (fd and match(pat(f"{e}[$i]"), fd[0].value) is not None):
                        okc = False
                        o6.violated(rw, swc[0], f"focal vertex `{focal}` is not an end point of the drawn edge `{e}`")
            if okc:
                o6.holds(rw, ga[0], "each corner is computed at an end point of its drawn edge")

    # ------------------------------------------------------------------ C11.7
    with ctx.obligation("C11.7", "partner edges are paired within one topology") as o:
        if not nl or pop_st is None:
            o.undecided("numerator loop / partner pop not found", sw)
        else:
            recv = ssc.resolve(pop_st.value.func.value, allow_mutated=True)
            b = match(pat("$h[$t]"), recv)
            if b is None or pop_st.value.args:
                o.undecided(f"partner is popped from `{txt(recv)}`", sw, pop_st)
            else:
                hm = ssc.resolve(b["h"], allow_mutated=True)
                t = ssc.resolve(b["t"])
                hm_ok = match(pat(f"self.get_hashmap({Gp}, {e1s_p})"), hm) is not None
                t_ok = txt(t) == f"{Gp}.edges[{e0v}][NetworkNames.TOPOLOGY]"
                if hm_ok and t_ok:
                    o.holds(sw, pop_st, f"partner popped from the {e1s_p}-bucket of topology({e0v})")
                elif not t_ok and "TOPOLOGY" in txt(t):
                    o.violated(sw, pop_st, f"partner is popped from the bucket of `{txt(t)}`, not of the topology of the edge `{e0v}` it is paired with: per-topology degrees change")
                elif not hm_ok and "get_hashmap" in txt(hm):
                    o.violated(sw, pop_st, f"partner buckets are built from `{txt(hm)}`, not from the other corner `{e1s_p}`")
                else:
                    o.violated(sw, pop_st, f"partner is taken from `{txt(recv)}`: not constrained to the same topology")
        gh = prog.method(ci, "get_hashmap")
        hsc = Scope(gh.node)
        keys = [n for n in astx.walk_fn(gh.node) if isinstance(n, ast.Assign) and isinstance(n.targets[0], ast.Subscript)]
        if keys:
            k = hsc.resolve(keys[0].targets[0].slice)
            if match(pat("$g.edges[$e][NetworkNames.TOPOLOGY]"), k) is None:
                o.violated(gh, keys[0], f"corner edges are bucketed by `{txt(k)}`, not by their topology")

    # ------------------------------------------------------------------ C11.8
    with ctx.obligation("C11.8", "edge count: proposals appended = old edges removed", floor=3) as o:
        calls = [n for n in astx.walk_fn(sw.node) if isinstance(n, ast.Call) and txt(n.func) == "self.append_proposal_edges"]
        resets = [n for n in sw.body if isinstance(n, (ast.Assign, ast.AnnAssign)) and astx.self_attr(n.targets[0] if isinstance(n, ast.Assign) else n.target) == "_proposal_edges"]
        if nl and resets and sw.body.index(resets[0]) < sw.body.index(nl[0]) and txt(resets[0].value) in ("[]", "list()"):
            o.holds(sw, resets[0], "proposal list is reset before the numerator loop")
        else:
            o.violated(sw, nl[0] if nl else sw.node, "the proposal list is not reset at the start of swap_condition: proposals of rejected trials are applied too")
        top_level = [c for c in calls if nl and any(spar.stmt_of(c) is s for s in nl[0].body)]
        if len(top_level) == 2 and len(calls) == 2:
            o.holds(sw, calls[0], "exactly two proposals per paired corner edge")
        else:
            o.violated(sw, nl[0] if nl else sw.node, f"{len(top_level)} unconditional proposal(s) per paired corner edge instead of 2: the edge count changes")
        adds = [n for n in astx.walk_fn(rw.node) if isinstance(n, ast.Call) and isinstance(n.func, ast.Attribute) and n.func.attr == "add_edge" and txt(n.func.value) == G]
        rems = [n for n in astx.walk_fn(rw.node) if isinstance(n, ast.Call) and isinstance(n.func, ast.Attribute) and n.func.attr == "remove_edge" and txt(n.func.value) == G]
        if len(adds) == 1 and par.loops_of(adds[0]) and txt(par.loops_of(adds[0])[0].iter) == "self._proposal_edges":
            al = par.loops_of(adds[0])[0]
            pe = txt(al.target)
            arg = sc.resolve(adds[0].args[0].value if isinstance(adds[0].args[0], ast.Starred) else adds[0].args[0]) if adds[0].args else None
            # local alias e = pe._new_edge inside loop
            argt = txt(adds[0].args[0].value) if adds[0].args and isinstance(adds[0].args[0], ast.Starred) else ""
            edef = [s for s in al.body if isinstance(s, (ast.Assign, ast.AnnAssign)) and txt(s.targets[0] if isinstance(s, ast.Assign) else s.target) == argt]
            src = txt(edef[0].value) if edef else argt
            if src in (f"{pe}._new_edge", f"{pe}.new_edge"):
                o.holds(rw, adds[0], "every proposal of the accepted trial is added")
            else:
                o.violated(rw, adds[0], f"the edge added is `{src}`, not the proposal's new edge")
        elif adds and par.loops_of(adds[0]) and isinstance(par.loops_of(adds[0])[0].iter, ast.Subscript):
            o.violated(rw, adds[0], "only part of the proposals is added")
        else:
            o.undecided("proposal application loop not recognised", rw)
        if len(rems) == 2 and par.loops_of(rems[0]) and par.loops_of(rems[0])[0] is par.loops_of(rems[1])[0]:
            rl = par.loops_of(rems[0])[0]
            b = match(pat("zip($a, $b)"), rl.iter)
            swc = [n for n in astx.walk_fn(rw.node) if isinstance(n, ast.Call) and txt(n.func) == "self.swap_condition"]
            if b is not None and swc and [txt(b["a"]), txt(b["b"])] == [txt(a) for a in swc[0].args[1:3]] and isinstance(rl.target, ast.Tuple):
                t0, t1 = (txt(e) for e in rl.target.elts)
                got = sorted(txt(r.args[0]) for r in rems)
                if got == sorted([f"*{t0}", f"*{t1}"]):
                    o.holds(rw, rl, "both old edges of every paired corner position are removed")
                else:
                    o.violated(rw, rems[0], f"removed edges are {got}, expected both (*{t0}) and (*{t1})")
            else:
                o.violated(rw, rl, f"old edges are removed over `{txt(rl.iter)}`, not over the two corners of the accepted swap")
        elif len(rems) == 1:
            o.violated(rw, rems[0], "only one of the two old edges per corner position is removed: the edge count grows")
        else:
            o.undecided("old-edge removal loop not recognised", rw)

    # ------------------------------------------------------------------ C11.9
    with ctx.obligation("C11.9", "the drawable edge set mirrors the graph", floor=4) as o:
        ds = [nm for nm, sites in sc.assigns.items() if len(sites) == 1 and isinstance(sites[0].value, ast.Call) and txt(sites[0].value.func) == "DrawSet"]
        if len(ds) != 1:
            o.undecided("EdgeSet = DrawSet() not found", rw)
        else:
            S = ds[0]
            fills = [n for n in astx.walk_fn(rw.node) if isinstance(n, ast.Call) and txt(n.func) == f"{S}.add"]
            init_fill = [n for n in fills if par.loops_of(n) and txt(par.loops_of(n)[0].iter) in (f"{G}.edges()", f"{G}.edges")]
            if init_fill and txt(init_fill[0].args[0]) == f"tuple(sorted({txt(par.loops_of(init_fill[0])[0].target)}))":
                o.holds(rw, init_fill[0], "initial fill: every edge of the copy, in canonical (sorted) form")
            elif init_fill:
                o.violated(rw, init_fill[0], f"initial fill adds `{txt(init_fill[0].args[0])}`, not the canonical tuple(sorted(e))")
            else:
                sl = [n for n in fills if par.loops_of(n) and G in txt(par.loops_of(n)[0].iter)]
                o.violated(rw, sl[0] if sl else rw.node, "the drawable set is not filled from all edges of the copy")
            for n in astx.walk_fn(rw.node):
                if isinstance(n, ast.Call) and isinstance(n.func, ast.Attribute) and txt(n.func.value) == G and n.func.attr in ("add_edge", "remove_edge"):
                    arg = txt(n.args[0].value) if n.args and isinstance(n.args[0], ast.Starred) else None
                    blk = par.parent(par.stmt_of(n))
                    body = blk.body if hasattr(blk, "body") else []
                    meth = "add" if n.func.attr == "add_edge" else "remove"
                    mates = [s for s in body if isinstance(s, ast.Expr) and isinstance(s.value, ast.Call) and txt(s.value.func) == f"{S}.{meth}"
                             and txt(s.value.args[0]) == f"tuple(sorted({arg}))"]
                    nested = []
                    if arg and not mates:
                        # the mirror call may name its key first (`k = tuple(sorted(e))`) and, for `add`, sit under the test the set's own
                        # `add` starts with (`if k not in S:`)
                        for s_ in body:
                            for c_ in ast.walk(s_):
                                if isinstance(c_, ast.Call) and txt(c_.func) == f"{S}.{meth}" and c_.args and txt(sc.resolve(c_.args[0])) == f"tuple(sorted({arg}))":
                                    nested.append((s_, c_))
                    if arg and mates:
                        o.holds(rw, n, f"{G}.{n.func.attr}(*{arg}) is mirrored by {S}.{meth}(tuple(sorted({arg}))) in the same block")
                    elif nested:
                        s_, c_ = nested[0]
                        key_ = txt(c_.args[0])
                        if isinstance(s_, ast.Expr) and s_.value is c_:
                            o.holds(rw, n, f"{G}.{n.func.attr}(*{arg}) is mirrored by {S}.{meth}({key_}) in the same block")
                        elif meth == "add" and isinstance(s_, ast.If) and not s_.orelse and txt(s_.test) in (f"{key_} not in {S}", f"not {key_} in {S}") \
                                and len(s_.body) == 1 and isinstance(s_.body[0], ast.Expr) and s_.body[0].value is c_:
                            o.holds(rw, n, f"{G}.add_edge(*{arg}) is mirrored by {S}.add({key_}) under `{txt(s_.test)}` (the test {S}.add itself starts with)")
                        else:
                            o.undecided(f"{S}.{meth}({key_}) that mirrors {G}.{n.func.attr}(*{arg}) is conditional", rw, c_)
                    else:
                        o.violated(rw, n, f"{G}.{n.func.attr}(*{arg}) has no matching {S}.{meth}(tuple(sorted({arg}))) in the same block: later draws return edges that "
                                          "no longer exist / miss new edges")

    # ------------------------------------------------------------------ C11.10
    with ctx.obligation("C11.10", "corner = all edges at the focal vertex with the drawn edge's motif id, oriented (focal, other)", floor=2) as o:
        conform(o, prog.method(ci, "get_all_edges"), REF_GET_ALL_EDGES, "get_all_edges")
        conform(o, prog.method(ci, "get_other_vertex"), REF_OTHER, "get_other_vertex")
        conform(o, prog.method(ci, "get_hashmap"), REF_HASHMAP, "get_hashmap groups the corner's edges by topology (every edge, under its own topology)")
