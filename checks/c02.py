"""C02 - edge-list columns stay parallel and motif identities are well formed.

Per motif iteration and on every branch the three columns grow by the same symbolic length (C02.1,
path-sensitive: a guard `len(es) == 2` refines Len(es) to 2 on its branch); the bare-edge re-pack branch
cannot be taken by a list of two edges (C02.2); exactly one id is drawn per motif instance from one
generator created outside the loops and it is the only provenance of the id column (C02.3); the generator
is strictly increasing (C02.4); every edge gets its topology's name / the naming callback of the same motif
type (C02.5); the converter reads the three columns through one zip (C02.6)."""
import ast
import re

from gcmstatic import astx, rules, tm
from gcmstatic.astx import Scope, txt, pat, match
from gcmstatic.pm import AnalysisError
from . import gen_common

EXPLANATION = __doc__
COLS = ("edge_list", "topologies", "motif_id")


def _paths(stmts, refine=None, limit=16):
    """Acyclic paths through a statement list: [(list of simple stmts/for-loops, [(test, outcome)])]."""
    paths = [([], [])]
    for s in stmts:
        if isinstance(s, ast.If):
            new = []
            for p, conds in paths:
                for sub, outcome in ((s.body, True), (s.orelse, False)):
                    for sp, sc in _paths(sub, limit=limit):
                        new.append((p + sp, conds + [(s.test, outcome)] + sc))
            paths = new
            if len(paths) > limit:
                raise AnalysisError("too many paths through the motif iteration")
        else:
            paths = [(p + [s], c) for p, c in paths]
    return paths


def _conjuncts(test, outcome):
    """Facts known on a branch: list of (expr, truth).  `a and b` true -> both true; `a or b` false -> both
    false; not handled otherwise."""
    if isinstance(test, ast.BoolOp) and isinstance(test.op, ast.And) and outcome:
        out = []
        for v in test.values:
            out += _conjuncts(v, True)
        return out
    if isinstance(test, ast.BoolOp) and isinstance(test.op, ast.Or) and not outcome:
        out = []
        for v in test.values:
            out += _conjuncts(v, False)
        return out
    if isinstance(test, ast.UnaryOp) and isinstance(test.op, ast.Not):
        return _conjuncts(test.operand, not outcome)
    return [(test, outcome)]


class Lengths:
    """Symbolic length of the argument of a column extend."""

    def __init__(self, g, es_name, build_call, naming_idx):
        self.g, self.es, self.build_call, self.naming_idx = g, es_name, build_call, naming_idx
        self.assumed_names_contract = False

    def env_for(self, conds):
        env = {}
        for test, outcome in conds:
            for c, truth in _conjuncts(test, outcome):
                if truth and isinstance(c, ast.Compare) and len(c.ops) == 1 and isinstance(c.ops[0], ast.Eq):
                    l, r = c.left, c.comparators[0]
                    for a, b in ((l, r), (r, l)):
                        if txt(a) == f"len({self.es})" and astx.const_value(b) is not None:
                            env["L"] = tm.const(astx.const_value(b))
        return env

    def hook(self, env):
        def call_hook(name, node, tr):
            if name == "len" and len(node.args) == 1 and txt(node.args[0]) == self.es:
                return env.get("L", tm.sym("Len(es)"))
            return None
        return call_hook

    def length(self, x, env):
        """Term for len(x) or None."""
        L = env.get("L", tm.sym("Len(es)"))
        x = self.g.sc.resolve(x, keep=[self.es])
        ml = rules.memo_lookup(self.g.fn.node, self.g.sc, x)
        if ml is not None and txt(self.g.sc.resolve(ml[1], keep=[self.es])) == txt(self.g.sc.resolve(ml[2].targets[0].slice, keep=[self.es])):
            x = self.g.sc.resolve(ml[2].value, keep=[self.es])  # value served from a memo table: its length is the stored value's
        if isinstance(x, ast.Name) and x.id == self.es:
            return L
        if isinstance(x, ast.Call) and x is not None and astx.same(x, self.build_call):
            return L
        if isinstance(x, ast.List):
            if any(isinstance(e, ast.Starred) for e in x.elts):
                return None
            return tm.const(len(x.elts))
        if isinstance(x, ast.BinOp) and isinstance(x.op, ast.Mult):
            for a, b in ((x.left, x.right), (x.right, x.left)):
                la = self.length(a, env) if isinstance(a, (ast.List,)) else None
                if la is not None:
                    return tm.mul(la, tm.translate(b, call_hook=self.hook(env)))
        if isinstance(x, ast.Call) and isinstance(x.func, ast.Subscript) and txt(x.func.value) == "self._edge_names" and not x.args:
            # documented contract of the naming callback: one name per edge of its build callback
            self.assumed_names_contract = True
            return L
        if isinstance(x, ast.Call) and txt(x.func) in ("list", "tuple") and len(x.args) == 1:
            return self.length(x.args[0], env)
        if isinstance(x, ast.Subscript) and isinstance(x.slice, ast.Slice):
            return None
        return None


def _col_of(g, s):
    """('edge_list', kind, arg) if statement s grows a column of the edge list."""
    if isinstance(s, ast.Expr) and isinstance(s.value, ast.Call) and isinstance(s.value.func, ast.Attribute):
        f = s.value.func
        if isinstance(f.value, ast.Attribute) and txt(f.value.value) == g.edgelist and f.value.attr in COLS and f.attr in ("extend", "append"):
            return f.value.attr, f.attr, s.value.args[0] if len(s.value.args) == 1 else None
    if isinstance(s, ast.AugAssign) and isinstance(s.op, ast.Add) and isinstance(s.target, ast.Attribute) \
            and txt(s.target.value) == g.edgelist and s.target.attr in COLS:
        return s.target.attr, "extend", s.value
    return None


def _edge_list_receivers(f):
    """Locals / parameters of f that are known to hold a LightWeightEdgeList."""
    out = set()
    a = f.node.args
    for p in a.posonlyargs + a.args + a.kwonlyargs:
        if p.annotation is not None and "LightWeightEdgeList" in txt(p.annotation):
            out.add(p.arg)
    for n in astx.walk_fn(f.node):
        if isinstance(n, (ast.Assign, ast.AnnAssign)) and n.value is not None and isinstance(n.value, ast.Call):
            t = n.targets[0] if isinstance(n, ast.Assign) else n.target
            cn = txt(n.value.func)
            if isinstance(t, ast.Name) and (cn == "LightWeightEdgeList" or cn.endswith(".random_clustered_graph") or cn == "NetworkToEdgeList.convert"):
                out.add(t.id)
            if isinstance(n, ast.AnnAssign) and isinstance(t, ast.Name) and "LightWeightEdgeList" in txt(n.annotation):
                out.add(t.id)
    return out


def _iteration_loop(g):
    """The innermost loop that contains the build call = one motif instance per iteration."""
    builds = g.build_calls()
    if len(builds) != 1:
        raise AnalysisError(f"{g.fn.qualname}: expected one build call, found {len(builds)}")
    bc = builds[0]
    loops = g.par.loops_of(bc)
    if not loops:
        raise AnalysisError("build call is not inside a loop")
    st = g.par.stmt_of(bc)
    es = None
    if isinstance(st, (ast.Assign, ast.AnnAssign)):
        es = txt(st.targets[0] if isinstance(st, ast.Assign) else st.target)
    return loops[0], bc, es


def run(ctx):
    prog = ctx.prog
    ctx.trust("list.extend/append grow a list by len(arg)/1; sequence repetition [x]*n has length n; generator protocol (next)",
              "naming callback contract: self._edge_names[j]() returns one name per edge returned by self._build_functions[j]")
    gens = {qn: gen_common.Gen(prog, qn) for qn in gen_common.GENERATORS}

    for qn, g in gens.items():
        fn = g.fn
        with ctx.obligation("C02.1", "the three columns grow by the same symbolic length on every path of a motif iteration") as o, \
                ctx.obligation("C02.3", "exactly one id per motif instance, from one generator created outside the loops", floor=2) as o3, \
                ctx.obligation("C02.5", "each edge carries the name its topology prescribes") as o5:
            loop, bc, es = _iteration_loop(g)
            if es is None:
                o.undecided("build result is not bound to a local", fn, bc)
                continue
            # the entries sharing a motif id are EXACTLY the edges the callback returned: the result is recorded as it comes
            bst = g.par.stmt_of(bc)
            bval = bst.value if isinstance(bst, (ast.Assign, ast.AnnAssign)) else None
            w_ = bval
            while isinstance(w_, ast.Call) and w_ is not bc and txt(w_.func) in ("list", "tuple") and len(w_.args) == 1:
                w_ = w_.args[0]
            if w_ is bc:
                o.holds(fn, bst, f"`{es}` is what the build callback returned")
            elif isinstance(w_, ast.Call) and txt(w_.func) in ("set", "frozenset", "sorted", "dict.fromkeys", "filter", "reversed") and any(x is bc for x in ast.walk(w_)):
                o.violated(fn, bst, f"the build callback's result is passed through `{txt(w_.func)}(..)` before it is recorded: repeated pairs (a vertex drawn twice into one motif "
                                    "returns the same pair twice) collapse / the edges are re-ordered - the entries sharing the motif id are no longer exactly the edges the callback "
                                    "returned", shape_free=True)
            else:
                o.undecided(f"`{es}` is not the build callback's result itself (`{txt(bval)[:60] if bval is not None else '?'}`)", fn, bst)
            # ... and is not FILTERED afterwards either: `es = [e for e in es if ..]` / `es = list(filter(.., es))` drops edges while the names
            # (one per edge the callback returned) stay complete
            for rb in [n for n in ast.walk(loop) if isinstance(n, ast.Assign) and len(n.targets) == 1 and txt(n.targets[0]) == es and n is not bst]:
                v_ = rb.value
                while isinstance(v_, ast.Call) and txt(v_.func) in ("list", "tuple") and len(v_.args) == 1:
                    v_ = v_.args[0]
                filt = (isinstance(v_, (ast.ListComp, ast.GeneratorExp)) and len(v_.generators) == 1 and txt(v_.generators[0].iter) == es and v_.generators[0].ifs
                        and txt(v_.elt) == txt(v_.generators[0].target)) or (isinstance(v_, ast.Call) and txt(v_.func) == "filter" and len(v_.args) == 2 and txt(v_.args[1]) == es)
                if filt:
                    o.violated(fn, rb, f"`{txt(rb)[:70]}` drops some of the edges the build callback returned before they are recorded, while the naming callback still yields one "
                                       "name per returned edge: the edge column and the name column of that motif differ in length", shape_free=True)
            L = Lengths(g, es, bc, None)
            paths = _paths(loop.body)
            # all column growth must be at path level (not in deeper loops)
            deep = []
            for n in ast.walk(loop):
                if isinstance(n, (ast.Expr, ast.AugAssign)) and _col_of(g, n) and g.par.loops_of(n)[0] is not loop:
                    deep.append(n)
            if deep:
                # per-edge loop form is a different correct strategy unless it breaks the id discipline (C02.3)
                o.undecided("a column is grown inside a nested loop of the motif iteration (per-edge form not recognised)", fn, deep[0])
            n_ok = 0
            for stmts, conds in paths:
                env = L.env_for(conds)
                grown = {c: [] for c in COLS}
                for s in stmts:
                    c = _col_of(g, s)
                    if c:
                        col, kind, arg = c
                        if kind == "append":
                            grown[col].append((s, tm.ONE))
                        else:
                            ln = L.length(arg, env) if arg is not None else None
                            grown[col].append((s, ln))
                where = " and ".join(f"{'' if oc else 'not '}({txt(t)})" for t, oc in conds) or "always"
                missing = [c for c in COLS if not grown[c]]
                multi = [c for c in COLS if len(grown[c]) > 1]
                if missing and len(missing) < 3:
                    o.violated(fn, loop, f"on the path [{where}] column(s) {missing} are not extended while {[c for c in COLS if grown[c]]} are: columns lose alignment")
                    continue
                if len(missing) == 3:
                    continue  # a path that adds nothing (e.g. guarded continue) keeps the columns parallel
                unknown = [c for c in COLS for s, ln in grown[c] if ln is None]
                if unknown:
                    o.undecided(f"length of the value appended to {unknown} not derivable on path [{where}]", fn, grown[unknown[0]][0][0])
                    continue
                tot = {c: tm.ZERO for c in COLS}
                for c in COLS:
                    for s, ln in grown[c]:
                        tot[c] = tm.add(tot[c], ln)
                if tot["edge_list"] == tot["topologies"] == tot["motif_id"]:
                    n_ok += 1
                    o.holds(fn, grown["edge_list"][0][0], f"path [{where}]: edges, names, ids all grow by {tm.show(tot['edge_list'])}")
                else:
                    desc = ", ".join(f"{c} += {tm.show(tot[c])}" for c in COLS)
                    st = grown["motif_id"][0][0] if tot["motif_id"] != tot["edge_list"] else grown["topologies"][0][0]
                    o.violated(fn, st, f"path [{where}]: {desc} - the columns are no longer parallel")
            if L.assumed_names_contract:
                ctx.notes.append("C02.1 custom generator: Len(naming callback result) = Len(build callback result) is the documented callback contract (assumed)")

            # ---- C02.3
            loop_body_override = None
            nexts = [n for n in astx.walk_fn(fn.node) if isinstance(n, ast.Call) and txt(n.func) == "next" and n.args]
            gens_defs = [(nm, sites[0]) for nm, sites in g.sc.assigns.items() if len(sites) == 1 and isinstance(sites[0].value, ast.Call)
                         and txt(sites[0].value.func) == "self.infinite_sequence"]
            id_nexts = [n for n in nexts if gens_defs and txt(n.args[0]) in [d[0] for d in gens_defs]]
            inline_gen = [n for n in nexts if isinstance(n.args[0], ast.Call) and txt(n.args[0].func) == "self.infinite_sequence"]
            # ids taken from an enumerate() of the motif iteration itself: the count restarts at 0 with every pass of the enclosing
            # (per-topology / per-motif-type) loop
            enum_ids = None
            if isinstance(loop, ast.For) and isinstance(loop.iter, ast.Call) and txt(loop.iter.func) == "enumerate" and isinstance(loop.target, ast.Tuple) and loop.target.elts \
                    and isinstance(loop.target.elts[0], ast.Name) and g.par.loops_of(loop):
                idn = loop.target.elts[0].id
                for n in ast.walk(loop):
                    if isinstance(n, (ast.Expr, ast.AugAssign)):
                        c = _col_of(g, n)
                        if c and c[0] == "motif_id" and idn in astx.names_in(c[2]) and not any(k.arg == "start" for k in loop.iter.keywords) and len(loop.iter.args) == 1:
                            enum_ids = n
            if enum_ids is not None:
                o3.violated(fn, loop, f"the motif ids are the counter of `{txt(loop.iter)[:60]}`, which restarts at 0 on every pass of the enclosing loop: the first motif of every "
                                      "topology / motif type gets id 0 - distinct instances share an id", shape_free=True)
            elif inline_gen:
                o3.violated(fn, inline_gen[0], "next(self.infinite_sequence()) creates a fresh counter for every draw: every motif gets id 0")
            elif len(gens_defs) != 1:
                relooped = [n for n in astx.walk_fn(fn.node) if isinstance(n, ast.Assign) and isinstance(n.value, ast.Call) and txt(n.value.func) == "self.infinite_sequence"]
                if len(relooped) > 1:
                    o3.violated(fn, relooped[1], "the id generator is created more than once: ids restart and distinct motifs share ids")
                else:
                    o3.undecided("id generator (self.infinite_sequence()) not found", fn)
            else:
                gname, gdef = gens_defs[0]
                if g.par.loops_of(gdef):
                    o3.violated(fn, gdef, f"`{gname} = self.infinite_sequence()` is inside a loop: ids restart at 0 and distinct motifs share ids")
                else:
                    o3.holds(fn, gdef, "one id generator, created outside all loops")
                if len(id_nexts) == 2:
                    # one draw in each branch of an if / else that is a statement of the motif iteration: one draw per path
                    ifs_ = [s_ for s_ in loop.body if isinstance(s_, ast.If) and s_.orelse]
                    for i_ in ifs_:
                        sides = [g.par.branch_of(n, i_) if g.par.inside(n, i_) else None for n in id_nexts]
                        if sorted(x for x in sides if x) == ["body", "orelse"] and all(g.par.loops_of(n)[0] is loop and not g.par.comps_of(n) for n in id_nexts) \
                                and all(any(g.par.stmt_of(n) is s_ for s_ in (i_.body if sd == "body" else i_.orelse)) for n, sd in zip(id_nexts, sides)):
                            o3.holds(fn, id_nexts[1], "one unconditional next(gen) in each branch of the motif iteration's if / else")
                            id_nexts = [id_nexts[0]]
                            loop_body_override = list(i_.body if sides[0] == "body" else i_.orelse)
                            break
                if len(id_nexts) > 1:
                    # ids only have to be DISTINCT per motif instance: a draw outside the motif iteration whose value is
                    # overwritten by the per-motif draw merely leaves a gap in the numbering
                    per_motif = [n for n in id_nexts if g.par.loops_of(n) and g.par.loops_of(n)[0] is loop and any(g.par.stmt_of(n) is s_ for s_ in loop.body)]
                    others = [n for n in id_nexts if n not in per_motif]
                    if len(per_motif) == 1 and all(not g.par.inside(n, loop) for n in others):
                        for n in others:
                            o3.holds(fn, n, "an extra draw outside the motif iteration only leaves a gap in the ids (they stay distinct)")
                        id_nexts = per_motif
                    elif len(per_motif) == 1:
                        o3.undecided(f"{len(id_nexts)} draws from the id generator, some nested inside the motif iteration", fn, others[0])
                        id_nexts = None
                if id_nexts is None:
                    pass
                elif len(id_nexts) != 1:
                    if not id_nexts:
                        o3.violated(fn, loop, "no id is drawn per motif")
                    else:
                        o3.violated(fn, id_nexts[1], f"{len(id_nexts)} draws from the id generator per motif iteration")
                else:
                    nx_ = id_nexts[0]
                    st = g.par.stmt_of(nx_)
                    lp = g.par.loops_of(nx_)
                    comps = g.par.comps_of(nx_)
                    if comps:
                        o3.violated(fn, nx_, "an id is drawn per element of a comprehension (per edge), not once per motif instance")
                    elif not lp or lp[0] is not loop:
                        if lp and g.par.inside(lp[0], loop):
                            o3.violated(fn, nx_, "an id is drawn inside a nested loop (per edge), not once per motif instance")
                        else:
                            o3.violated(fn, nx_, "the id is drawn outside the motif iteration: several motif instances share one id")
                    elif not any(st is s for s in (loop_body_override or loop.body)):
                        o3.violated(fn, nx_, "the id draw is conditional inside the motif iteration")
                    else:
                        o3.holds(fn, nx_, "one unconditional next(gen) per motif iteration")
                    # provenance of the id column elements
                    idname = txt(st.targets[0]) if isinstance(st, ast.Assign) and len(st.targets) == 1 else None
                    for n in ast.walk(loop):
                        if isinstance(n, (ast.Expr, ast.AugAssign)):
                            c = _col_of(g, n)
                            if c and c[0] == "motif_id":
                                arg = c[2]
                                elems = None
                                a = arg
                                if isinstance(a, ast.BinOp) and isinstance(a.op, ast.Mult):
                                    a = a.left if isinstance(a.left, ast.List) else a.right
                                if isinstance(a, ast.List):
                                    elems = [txt(e) for e in a.elts]
                                elif c[1] == "append":
                                    elems = [txt(arg)]
                                if elems is None:
                                    o3.undecided(f"id column value `{txt(arg)}` not recognised", fn, n)
                                elif all(e == idname or e == txt(nx_) for e in elems):
                                    o3.holds(fn, n, f"id column elements are exactly the drawn id `{idname}`")
                                else:
                                    o3.violated(fn, n, f"id column receives {elems}, not the id drawn for this motif")

            # ---- C02.5
            for n in ast.walk(loop):
                if isinstance(n, (ast.Expr, ast.AugAssign)):
                    c = _col_of(g, n)
                    if c and c[0] == "topologies":
                        arg = c[2]
                        a = arg
                        ml = rules.memo_lookup(fn.node, g.sc, g.sc.resolve(a, keep=[es]))
                        if ml is not None:
                            D, key, store = ml
                            gaps = rules.memo_key_gaps(g.sc, D, store)
                            if gaps:
                                o5.violated(fn, store, f"names are served from the memo table `{D}`, whose entry `{txt(store)}` depends on the loop variable(s) {gaps} but is keyed by "
                                                       f"`{txt(store.targets[0].slice)}` only: a later topology with an equal key inherits an earlier topology's names")
                                continue
                            a = store.value
                        # the naming callback returns one name PER EDGE (a sequence): `[names]` stores that sequence itself as ONE name
                        # (only a wrap CHOSEN by a conditional expression on the length: in the bare-edge branch of the pinned tree the callback's
                        # result for a lone edge is wrapped by design)
                        branches_ = [a.body, a.orelse] if isinstance(a, ast.IfExp) and "len(" in txt(a.test) else []
                        nested_ = None
                        for br_ in branches_:
                            if isinstance(br_, ast.List) and len(br_.elts) == 1:
                                e0_ = g.sc.resolve(br_.elts[0], keep=[es])
                                if isinstance(e0_, ast.Call) and not e0_.args and isinstance(e0_.func, ast.Subscript) and txt(e0_.func.value) == "self._edge_names":
                                    nested_ = br_
                        if nested_ is not None:
                            o5.violated(fn, n, f"`{txt(nested_)}` wraps what the naming callback returned: the callback yields a SEQUENCE with one name per edge, so the edge's topology "
                                               "entry becomes that sequence (e.g. `('link',)`) instead of the name", shape_free=True)
                            continue
                        if isinstance(a, ast.BinOp) and isinstance(a.op, ast.Mult):
                            a = a.left if isinstance(a.left, ast.List) else a.right
                        elems = a.elts if isinstance(a, ast.List) else [a]
                        oks = []
                        for e in elems:
                            e = g.sc.resolve(e, keep=[es])
                            base = e.func if isinstance(e, ast.Call) and not e.args else e
                            oks.append(isinstance(base, ast.Subscript) and txt(base.value) == "self._edge_names")
                        if all(oks):
                            o5.holds(fn, n, f"names come from self._edge_names[.] (index coherence: C01.4): {txt(arg)}")
                        elif any(isinstance(x, ast.Constant) and isinstance(x.value, str) for e in elems for x in ast.walk(e)):
                            o5.violated(fn, n, f"topology column receives a literal name `{txt(arg)}`, not the configured edge name")
                        else:
                            o5.undecided(f"topology column value `{txt(arg)}` not recognised", fn, n)

    # ------------------------------------------------------------------ C02.7
    with ctx.obligation("C02.7", "the vertex list handed to a build callback is a fresh object per motif instance", floor=2) as o:
        for qn, g in gens.items():
            fn = g.fn
            loop, bc, es = _iteration_loop(g)
            arg = bc.args[0] if len(bc.args) == 1 else None
            if arg is None:
                o.undecided("build callback called with unexpected arguments", fn, bc)
                continue
            a = arg
            if isinstance(a, ast.Call) and txt(a.func) in ("list", "tuple", "sorted") or isinstance(a, (ast.ListComp, ast.List, ast.Tuple)):
                o.holds(fn, bc, f"`{txt(a)}` builds a new sequence for every call")
                continue
            if isinstance(a, ast.Name):
                binds_in = [s_ for s_ in ast.walk(loop) if isinstance(s_, (ast.Assign, ast.AnnAssign)) and s_.value is not None
                            and txt(s_.targets[0] if isinstance(s_, ast.Assign) else s_.target) == a.id]
                is_target = any(a.id in astx.names_in(l.target) for l in [loop])
                muts = [n for n in ast.walk(loop) if isinstance(n, ast.Call) and isinstance(n.func, ast.Attribute) and n.func.attr in ("clear", "extend", "append", "insert", "pop")
                        and txt(n.func.value) == a.id]
                if binds_in or is_target:
                    o.holds(fn, bc, f"`{a.id}` is bound to a new object inside every motif iteration")
                elif muts:
                    o.violated(fn, muts[0], f"`{a.id}` is ONE list created outside the motif loop and refilled in place ({txt(muts[0])[:40]}) for every motif: a build callback that returns its "
                                            "argument (the supported bare-edge form) makes every stored row alias this buffer, so all rows are rewritten by the next motif")
                else:
                    o.undecided(f"origin of the build argument `{a.id}` not recognised", fn, bc)
            else:
                o.undecided(f"build argument `{txt(a)}` not recognised", fn, bc)

    # ------------------------------------------------------------------ C02.2 (fast generator: no re-pack on the pinned tree)
    with ctx.obligation("C02.2", "the fast generator stores what the builder returns; a re-pack, if any, looks at an ELEMENT") as o:
        gf = gens[gen_common.GENERATORS[0]]
        n_wrap = 0
        for st_ in [n for n in astx.walk_fn(gf.fn.node) if isinstance(n, ast.Assign) and len(n.targets) == 1 and isinstance(n.targets[0], ast.Name)
                    and isinstance(n.value, (ast.List, ast.Tuple)) and len(n.value.elts) == 1 and txt(n.value.elts[0]) == txt(n.targets[0])]:
            es_ = txt(st_.targets[0])
            if not any(isinstance(d_.value, ast.Call) and "_build_functions" in txt(d_.value.func) for d_ in gf.sc.assigns.get(es_, []) if getattr(d_, "value", None) is not None):
                continue
            n_wrap += 1
            ifs_ = [a_ for a_ in gf.par.ancestors(st_) if isinstance(a_, ast.If)]
            tests_ = " and ".join(txt(i_.test) for i_ in ifs_)
            rtests_ = [gf.sc.resolve(i_.test) for i_ in ifs_]
            elem = any(isinstance(x_, ast.Call) and txt(x_.func) == "isinstance" and x_.args and txt(x_.args[0]) in (f"{es_}[0]", f"{es_}[-1]", f"{es_}[1]") for t_ in rtests_ for x_ in ast.walk(t_))
            opaque_test = any(isinstance(t_, ast.Name) or any(isinstance(x_, ast.Call) and txt(x_.func) not in ("isinstance", "len", "type") for x_ in ast.walk(t_)) for t_ in rtests_)
            if ifs_ and not elem and opaque_test:
                o.undecided(f"re-pack `{txt(st_)}` under `{tests_[:80]}` (test not resolved)", gf.fn, st_)
            elif not ifs_:
                o.violated(gf.fn, st_, f"`{txt(st_)}` wraps every motif's edges as ONE entry", shape_free=True)
            elif elem:
                o.undecided(f"re-pack `{txt(st_)}` under `{tests_[:80]}`", gf.fn, st_)
            else:
                o.violated(gf.fn, st_, f"`{txt(st_)}` under `{tests_[:80]}`: the test looks at the container only - a builder that returns exactly two edges as a tuple "
                                       "(a wedge, a two-edge path) satisfies it too and its two edges are stored as ONE malformed entry with one name and one id", shape_free=True)
        if not n_wrap:
            o.holds(gf.fn, gf.fn.node, "the fast generator never re-packs the builder's result")

    # ------------------------------------------------------------------ C02.2
    with ctx.obligation("C02.2", "the re-pack branch can only be taken by a bare edge, never by a list of two edges") as o:
        g = gens[gen_common.GENERATORS[1]]
        fn = g.fn
        loop, bc, es = _iteration_loop(g)
        wraps = []
        for n in ast.walk(loop):
            if isinstance(n, (ast.Expr, ast.AugAssign)):
                c = _col_of(g, n)
                if c and c[0] == "edge_list":
                    arg = c[2]
                    if isinstance(arg, ast.Name) and len(g.sc.assigns.get(arg.id, [])) == 1:
                        arg = getattr(g.sc.assigns[arg.id][0], "value", arg)         # `edges = [es]` bound once, on this branch
                    if (c[1] == "extend" and isinstance(arg, ast.List) and [txt(e) for e in arg.elts] == [es]) or (c[1] == "append" and txt(arg) == es):
                        wraps.append(n)
        if not wraps:
            # no re-pack at all: then a bare 2-tuple edge would be split into two ints
            o.undecided("no branch re-packs a bare edge (a builder returning a single bare 2-tuple is then stored as two ints)", fn, loop)
        for w in wraps:
            ifs = [a for a in g.par.ancestors(w) if isinstance(a, ast.If) and g.par.inside(a, loop)]
            if not ifs:
                o.violated(fn, w, "every motif's edge list is wrapped as one entry")
                continue
            facts = []
            for i in ifs:
                br = g.par.branch_of(w, i)
                facts += _conjuncts(i.test, br == "body")
            has_len = has_kind = False
            unknown = []
            bad_len = []
            for c, truth in facts:
                t = txt(c)
                if isinstance(c, ast.Compare) and t in (f"len({es}) == 2", f"2 == len({es})") and truth:
                    has_len = True
                elif isinstance(c, ast.Compare) and len(c.ops) == 1 and f"len({es})" in (txt(c.left), txt(c.comparators[0])) \
                        and astx.const_value(c.comparators[0] if txt(c.left) == f"len({es})" else c.left) is not None:
                    # a length test that does not say "exactly two": a bare edge (u, v) has length 2
                    k_ = astx.const_value(c.comparators[0] if txt(c.left) == f"len({es})" else c.left)
                    op_ = type(c.ops[0]).__name__
                    says_two = (op_ == "Eq" and k_ == 2 and truth) or (op_ == "NotEq" and k_ == 2 and not truth)
                    if not says_two:
                        bad_len.append(t if truth else f"not ({t})")
                elif isinstance(c, ast.Call) and txt(c.func) == "isinstance" and len(c.args) == 2 and txt(c.args[0]) in (f"{es}[0]", f"{es}[1]", f"{es}[-1]"):
                    karg = c.args[1]
                    if isinstance(karg, ast.BoolOp):
                        karg = karg.values[0]      # `tuple or list` IS `tuple`: a class is truthy, `or` returns its first operand
                    kset = {txt(x) for x in (karg.elts if isinstance(karg, ast.Tuple) else [karg])}
                    kinds = " ".join(sorted(kset))
                    covers_both = {"tuple", "list"} <= kset or any(k.split(".")[-1] in ("Sequence", "Iterable", "Collection", "Sized", "Container") for k in kset)
                    is_container = bool(kset & {"tuple", "list"}) or covers_both
                    is_scalar = bool(kset & {"int", "numbers.Integral", "Integral", "np.integer"}) and not is_container
                    if is_container and not covers_both and not truth:
                        miss = sorted({"tuple", "list"} - kset)[0]
                        o.violated(fn, c, f"`{txt(c)}` recognises an edge list only by `{kinds}`" + (" (`A or B` between classes evaluates to A)" if isinstance(c.args[1], ast.BoolOp) else "")
                                   + f": a builder that returns its two edges as {miss}s is taken for ONE bare edge - the pair of edges is stored as a single malformed entry", shape_free=True)
                        has_kind = True
                    elif (is_container and not truth) or (is_scalar and truth):
                        has_kind = True
                    else:
                        unknown.append(t)
                elif isinstance(c, ast.Call) and txt(c.func) == "isinstance" and len(c.args) == 2 and txt(c.args[0]) == es:
                    kinds = txt(c.args[1])
                    if truth and ("Sequence" in kinds or ("list" in kinds and "tuple" in kinds)):
                        pass        # a bare edge (a tuple) and a list / tuple of two edges both are sequences: says nothing
                    elif (not truth) and all(k_ in ("str", "bytes", "bytearray") for k_ in re.findall(r"[A-Za-z_]+", kinds)):
                        pass        # neither of them is a string
                    else:
                        unknown.append(t)
                elif isinstance(c, ast.Compare) and t.replace(" ", "").startswith(f"type({es}[0])"):
                    unknown.append(t)
                else:
                    unknown.append(t)
            if bad_len:
                o.violated(fn, ifs[0], f"the re-pack branch requires `{bad_len[0]}`, which a bare edge (a 2-tuple) does not satisfy: a builder returning one bare edge is stored as two "
                                       "integers in the edge column while the other columns get one entry")
            elif has_kind:
                o.holds(fn, ifs[0], f"re-pack guarded by an element-kind test: `{txt(ifs[0].test)}`")
            elif unknown:
                o.undecided(f"re-pack guard contains tests the rule does not recognise: {unknown}", fn, ifs[0])
            elif has_len:
                o.violated(fn, ifs[0], f"re-pack guarded by `{txt(ifs[0].test)}` alone: a builder returning exactly two edges is stored as ONE malformed entry")
            else:
                o.undecided("re-pack guard not recognised", fn, ifs[0])

    # ------------------------------------------------------------------ C02.4
    with ctx.obligation("C02.4", "the id counter is strictly increasing: distinct motif instances never share an id") as o:
        f = prog.func("GCMAlgorithm.infinite_sequence")
        yields = [n for n in astx.walk_fn(f.node) if isinstance(n, (ast.Yield, ast.YieldFrom))]
        if len(yields) == 1 and isinstance(yields[0], ast.YieldFrom) and match(pat("itertools.count($*ARGS)"), yields[0].value) is not None:
            o.holds(f, yields[0], "yield from itertools.count()")
        elif len(yields) == 2 and all(isinstance(y_, ast.Yield) and isinstance(y_.value, ast.Name) for y_ in yields) and yields[0].value.id == yields[1].value.id \
                and not Scope(f.node).parents.loops_of(yields[0]) and Scope(f.node).parents.loops_of(yields[1]) \
                and isinstance(Scope(f.node).parents.stmt_of(yields[1]), ast.Expr) and Scope(f.node).parents.loops_of(yields[1])[0].body[0] is Scope(f.node).parents.stmt_of(yields[1]) \
                and not [n for n in astx.walk_fn(f.node) if isinstance(n, (ast.Assign, ast.AugAssign, ast.AnnAssign)) and yields[0].value.id in [txt(t) for t in (n.targets if isinstance(n, ast.Assign) else [n.target])]
                         and yields[0].lineno < n.lineno < yields[1].lineno]:
            o.violated(f, yields[0], f"`{yields[0].value.id}` is yielded once before the loop and again, unchanged, as the loop's first value: the first two motif instances share an id", shape_free=True)
        elif len(yields) != 1 or not isinstance(yields[0], ast.Yield) or not isinstance(yields[0].value, ast.Name):
            rets = [n for n in astx.walk_fn(f.node) if isinstance(n, ast.Return) and n.value is not None]
            if not yields and len(rets) == 1 and match(pat("itertools.count($*ARGS)"), rets[0].value) is not None:
                o.holds(f, rets[0], "returns itertools.count()")
            else:
                o.undecided("infinite_sequence is not `num = c; while True: yield num; num += step`", f)
        else:
            sc = Scope(f.node)
            par = sc.parents
            y = yields[0]
            var = y.value.id
            loops = par.loops_of(y)
            if len(loops) == 1 and isinstance(loops[0], ast.For) and isinstance(loops[0].target, ast.Name) and loops[0].target.id == var \
                    and prog.external(f.module, loops[0].iter.func if isinstance(loops[0].iter, ast.Call) else loops[0].iter) == "itertools.count" \
                    and not [n for n in ast.walk(loops[0]) if isinstance(n, (ast.Assign, ast.AugAssign, ast.AnnAssign))
                             and var in [txt(t) for t in (n.targets if isinstance(n, ast.Assign) else [n.target])]]:
                step = loops[0].iter.args[1] if len(loops[0].iter.args) > 1 else next((k.value for k in loops[0].iter.keywords if k.arg == "step"), None)
                if step is None or (astx.const_value(step) or 0) > 0:
                    o.holds(f, loops[0], f"`{var}` walks itertools.count() and nothing else writes it")
                elif astx.const_value(step) is not None:
                    o.violated(f, loops[0], f"itertools.count with step {txt(step)} does not increase the counter: ids repeat")
                else:
                    o.undecided(f"step `{txt(step)}` of itertools.count not decided", f, loops[0])
            elif not loops or not isinstance(loops[0], ast.While) or not (isinstance(loops[0].test, ast.Constant) and loops[0].test.value):
                o.undecided("the yield is not inside `while True`", f, y)
            else:
                lp = loops[0]
                writes = [n for n in ast.walk(lp) if isinstance(n, (ast.Assign, ast.AugAssign, ast.AnnAssign))
                          and var in [txt(t) for t in (n.targets if isinstance(n, ast.Assign) else [n.target])]]
                jumps = [n for n in ast.walk(lp) if isinstance(n, (ast.Break, ast.Continue, ast.Return))]
                if len(writes) == 1 and isinstance(writes[0], ast.AugAssign) and isinstance(writes[0].op, ast.Add) \
                        and (astx.const_value(writes[0].value) or 0) > 0 and any(writes[0] is s for s in lp.body) and not jumps:
                    o.holds(f, writes[0], f"every cycle through the yield passes `{txt(writes[0])}` and nothing else writes `{var}`")
                elif len(writes) == 1 and isinstance(writes[0], ast.AugAssign) and astx.const_value(writes[0].value) is not None \
                        and (astx.const_value(writes[0].value) <= 0 and isinstance(writes[0].op, ast.Add)):
                    o.violated(f, writes[0], f"`{txt(writes[0])}` does not increase the counter: ids repeat")
                elif not writes:
                    o.violated(f, lp, f"`{var}` is never advanced: every motif receives the same id")
                elif any(isinstance(w, ast.Assign) and astx.const_value(w.value) is not None for w in writes):
                    o.violated(f, writes[0], f"`{var}` is reset inside the loop: ids repeat")
                elif len(writes) == 1 and isinstance(writes[0], ast.AugAssign) and isinstance(writes[0].op, (ast.Mod, ast.Sub, ast.FloorDiv)):
                    o.violated(f, writes[0], f"`{txt(writes[0])}` does not strictly increase the counter: ids repeat")
                elif len(writes) == 1 and isinstance(writes[0], ast.Assign):
                    t = rules.term_of(writes[0].value)
                    step = tm.sub(t, tm.sym(var))
                    c = tm.is_const(step)
                    if c is not None and c > 0:
                        o.holds(f, writes[0], f"{var} advances by {c} per yield")
                    elif c is not None:
                        o.violated(f, writes[0], f"`{txt(writes[0])}` does not increase the counter")
                    else:
                        o.violated(f, writes[0], f"`{txt(writes[0])}` is not a strictly increasing update: ids can repeat") if "mod" in tm.show(t) or "%" in txt(writes[0]) else o.undecided("counter update not recognised", f, writes[0])
                else:
                    o.undecided("counter update not recognised", f, lp)

    # ------------------------------------------------------------------ C02.1 who-may-write (repo-wide)
    with ctx.obligation("C02.1", "no other code grows or rewrites a single column of an edge list") as o:
        allowed = set(gen_common.GENERATORS) | {"NetworkToEdgeList.convert"}
        bad = 0
        names = COLS + tuple("_" + c for c in COLS)
        for f in prog.all_functions():
            if f.qualname in allowed or (f.cls is not None and f.cls.name == "LightWeightEdgeList"):
                continue
            recv = _edge_list_receivers(f)
            # a function that does not exist on the pinned tree and fills an edge list it has just constructed itself is a
            # new PRODUCER (new functionality), not a writer of somebody's edge list: outside what C02 speaks about
            from gcmstatic.normalize import load_vocabulary
            vocab_ = load_vocabulary()
            if vocab_ and f.qualname not in vocab_:
                fsc = Scope(f.node)
                recv = {r for r in recv if not (len(fsc.assigns.get(r, [])) == 1 and isinstance(fsc.assigns[r][0].value, ast.Call)
                                                and txt(fsc.assigns[r][0].value.func) == "LightWeightEdgeList" and r not in f.params)}
            if not recv:
                continue
            for n in astx.walk_fn(f.node):
                if isinstance(n, ast.Call) and isinstance(n.func, ast.Attribute) and n.func.attr in astx.MUTATOR_METHODS \
                        and isinstance(n.func.value, ast.Attribute) and n.func.value.attr in names and txt(n.func.value.value) in recv:
                    r_ = txt(n.func.value.value)
                    col_ = n.func.value.attr.lstrip("_")
                    uses = [x for x in astx.walk_fn(f.node) if isinstance(x, ast.Name) and x.id == r_ and isinstance(x.ctx, ast.Load)]
                    fpar = astx.Parents(f.node)
                    def _only_converted(x):
                        p_ = fpar.parent(x)
                        if isinstance(p_, ast.Attribute):
                            return True         # a column / field access
                        return isinstance(p_, ast.Call) and txt(p_.func) in ("EdgeListToNetwork.convert", "EdgeListToNetwork().convert") and x in p_.args
                    if n.func.attr in ("append", "extend") and col_ in ("topologies", "motif_id") and r_ not in f.params and all(_only_converted(x) for x in uses):
                        # surplus entries at the END of the name / id column of a list that only ever reaches the converter:
                        # the converter pairs the columns (zip), so whether anything observable changes is not decided here
                        o.undecided(f"`{txt(n)}` grows one column of a local edge list that is only handed to the converter afterwards: the columns of that object lose alignment, "
                                    "whether any emitted edge list or network shows it is not decided", f, n)
                        continue
                    bad += 1
                    o.violated(f, n, f"`{txt(n)}` changes one column of an edge list outside the generators: columns lose alignment")
                if isinstance(n, (ast.Assign, ast.AugAssign)):
                    for t in (n.targets if isinstance(n, ast.Assign) else [n.target]):
                        if isinstance(t, ast.Attribute) and t.attr in names and txt(t.value) in recv:
                            bad += 1
                            o.violated(f, n, f"`{txt(t)}` is rebound outside the generators / NetworkToEdgeList.convert")
        if not bad:
            o.holds(None, None, "columns are written only by the two generators, LightWeightEdgeList itself and NetworkToEdgeList.convert", construct="repo-wide scan")

    # ------------------------------------------------------------------ C02.6
    with ctx.obligation("C02.6", "the converter reads the three columns through one zip, position by position") as o:
        from . import conv_common
        conv_common.columns_travel_together(ctx, o)
