"""C20 - the drawable edge set behaves as a set under any add/remove history.

Representation invariant I: the map is a bijection from the members onto 0..len(list)-1 with
list[map[e]] == e.  Each method preserves I and implements the set operation by a short Hoare argument
whose *premises* are checked here on the current source (so the conclusion holds for every history):
  add:      e in map -> no effect;  else append(e); map[e] = len(list)-1          (C20.2)
  remove:   pos = map.pop(e) raises KeyError for an absent e before anything is written (C20.3);
            last = list.pop(); if pos != len(list): list[pos] = last; map[last] = pos  (C20.4)
  observers read list / map only                                                  (C20.5)
  nobody else touches the two fields                                              (C20.1)
A different correct representation strategy is undecided (exit 2), not accused."""
import ast

from gcmstatic import astx, rules, tm
from gcmstatic.astx import Parents, Scope, txt, pat, match
from gcmstatic.cfg import CFG

EXPLANATION = __doc__


def _fields(prog, ci):
    """(list_field, map_field, init assignments) from DrawSet.__init__."""
    init = prog.method(ci, "__init__")
    if init is None:
        return None, None, {}
    lst = mp = None
    assigns = {}
    for n in astx.walk_fn(init.node):
        tgt = val = None
        if isinstance(n, ast.Assign) and len(n.targets) == 1:
            tgt, val = n.targets[0], n.value
        elif isinstance(n, ast.AnnAssign) and n.value is not None:
            tgt, val = n.target, n.value
        a = astx.self_attr(tgt) if tgt is not None else None
        if a:
            assigns.setdefault(a, []).append((n, val))
            t = txt(val)
            if t in ("[]", "list()"):
                lst = a if lst is None else lst
            elif t in ("{}", "dict()"):
                mp = a if mp is None else mp
    return lst, mp, assigns


def run(ctx):
    prog = ctx.prog
    ci = prog.cls("DrawSet")
    ctx.trust("list.append/pop, dict pop/__setitem__/__contains__", "random.choice is uniform over a non-empty sequence")
    L, Mp, assigns = _fields(prog, ci)
    init = prog.method(ci, "__init__")

    def _ob_52(o):
        if L is None or Mp is None:
            o.undecided("DrawSet.__init__ does not bind one fresh list and one fresh dict: different representation strategy", init)
            return
        for f in (L, Mp):
            sites = assigns.get(f, [])
            if len(sites) == 1:
                o.holds(init, sites[0][0], f"self.{f} bound once in __init__ to a fresh empty container")
            else:
                o.undecided(f"self.{f} bound {len(sites)} times in __init__", init)
            if f in ci.class_attrs:
                # a class-level `_edges = []` is shadowed by the instance attribute that __init__ binds unconditionally:
                # every method goes through self, so nothing is shared (independent differential audit: identical behaviour)
                if len(sites) == 1 and any(sites[0][0] is s_ for s_ in init.node.body):
                    o.holds(init, ci.node, f"{f} is also a class attribute, but __init__ binds a fresh instance attribute unconditionally: the class-level object is never reached through self")
                else:
                    o.undecided(f"{f} is also a class attribute and the binding in __init__ is not unconditional", init, ci.node)
        # default-argument containers
        for a, d in zip(reversed(init.node.args.args), reversed(init.node.args.defaults)):
            if isinstance(d, (ast.List, ast.Dict)):
                o.violated(init, d, f"mutable default argument `{a.arg}` would be shared between instances")
        # repo-wide who-may-access
        outside = 0
        for fn in prog.all_functions():
            inside_cls = fn.cls is not None and ci in prog.mro(fn.cls)
            for n in astx.walk_fn(fn.node, into_defs=False):
                if isinstance(n, ast.Attribute) and n.attr in (L, Mp):
                    recv_self = isinstance(n.value, ast.Name) and n.value.id == "self"
                    if inside_cls and recv_self:
                        continue
                    if recv_self and not inside_cls:
                        continue  # another class's own attribute of the same name
                    if inside_cls:
                        # DrawSet's own method working on ANOTHER DrawSet (copy(), merge): reading is inside the
                        # abstraction; a store must give the other object containers of its own
                        if isinstance(n.ctx, ast.Load):
                            continue
                        st_ = Parents(fn.node).stmt_of(n)
                        v_ = st_.value if isinstance(st_, ast.Assign) and len(st_.targets) == 1 and st_.targets[0] is n else None
                        fresh = isinstance(v_, (ast.List, ast.Dict, ast.ListComp, ast.DictComp)) or \
                            (isinstance(v_, ast.Call) and (txt(v_.func) in ("list", "dict", "copy.copy", "copy.deepcopy", "sorted") or (isinstance(v_.func, ast.Attribute) and v_.func.attr == "copy")))
                        if fresh:
                            continue
                        outside += 1
                        o.violated(fn, n, f"`{txt(st_) if st_ is not None else txt(n)}` gives another DrawSet a container that is not its own (shared or foreign): two sets then change together")
                        continue
                    outside += 1
                    o.violated(fn, n, f"`{txt(n)}` reaches into DrawSet's private field {n.attr} from outside the class")
        # methods of DrawSet writing the fields other than add/remove/__init__
        for mname, m in ci.methods.items():
            if mname in ("__init__", "add", "remove"):
                continue
            effs = [e for e in _self_field_effects(m, (L, Mp))]
            for e in effs:
                o.violated(m, e, f"method {mname} writes DrawSet.{L}/{Mp}; only add/remove may")
        if outside == 0:
            o.holds(None, None, f"no access to .{L} / .{Mp} outside DrawSet in {len(prog.functions)} functions", construct="repo-wide scan")
    with ctx.obligation("C20.1", "encapsulation: only DrawSet touches its two fields; fresh containers per instance", floor=2) as o:
        _ob_52(o)

    if L is None or Mp is None:
        return
    selfL, selfM = f"self.{L}", f"self.{Mp}"

    # ------------------------------------------------------------------ add
    with ctx.obligation("C20.2", "add: membership test first; append then index = len-1", floor=3) as o:
        add = prog.method(ci, "add")
        if add is None:
            raise rules.AnalysisError("DrawSet.add not found")
        e = add.params[1] if len(add.params) > 1 else None
        body = astx.strip_logging(add.body)
        effects = _self_field_effects(add, (L, Mp))
        # guard forms
        guarded_body = None
        if body and isinstance(body[0], ast.If):
            t = body[0].test
            # `e in self` goes through __contains__: read what that method tests
            cont = prog.method(ci, "__contains__")
            if cont is not None and len(cont.params) == 2:
                cb = astx.strip_logging(cont.body)
                if len(cb) == 1 and isinstance(cb[0], ast.Return) and txt(cb[0].value) in (f"{cont.params[1]} in {selfM}", f"{cont.params[1]} in {selfL}"):
                    via = selfM if txt(cb[0].value).endswith(selfM) else selfL
                    if txt(t) in (f"{e} in self", f"{e} not in self", f"not {e} in self"):
                        t = ast.parse(txt(t).replace(" in self", f" in {via}"), mode="eval").body
            # `M.get(e) is not None` is membership (the stored positions are ints); bare `M.get(e)` is NOT: position 0 is falsy
            if txt(t) in (f"{selfM}.get({e}) is not None", f"{selfM}.get({e}, None) is not None"):
                t = ast.parse(f"{e} in {selfM}", mode="eval").body
            elif txt(t) in (f"{selfM}.get({e}) is None", f"{selfM}.get({e}, None) is None"):
                t = ast.parse(f"{e} not in {selfM}", mode="eval").body
            elif txt(t) in (f"{selfM}.get({e})", f"{selfM}.get({e}, None)", f"not {selfM}.get({e})", f"{selfM}.get({e}, 0)", f"{selfM}.get({e}, False)"):
                o.violated(add, body[0], f"`{txt(t)}` tests the TRUTH of the stored position: the element in slot 0 has position 0, which is falsy - it counts as absent, a second add "
                                         "appends a duplicate and orphans the slot", shape_free=True)
                t = ast.parse(f"{e} in {selfM}" if not txt(t).startswith("not ") else f"{e} not in {selfM}", mode="eval").body
            if txt(t) in (f"{e} in {selfM}", f"{e} in {selfL}") and len(body[0].body) == 1 and isinstance(body[0].body[0], ast.Return) and not body[0].orelse:
                guarded_body = body[1:]
                o.holds(add, body[0], "present element -> return with no effect")
            elif txt(t) in (f"{e} not in {selfM}", f"not {e} in {selfM}", f"{e} not in {selfL}") and not body[0].orelse and len(body) == 1:
                guarded_body = body[0].body
                o.holds(add, body[0], "effects only when the element is absent")
        if guarded_body is None:
            if effects and not any(isinstance(s, ast.If) for s in body):
                o.violated(add, add.node, "add has no membership test: inserting a present element appends a duplicate and orphans its old slot")
            else:
                o.undecided("membership guard of add not recognised", add)
        else:
            apps = [(i, s) for i, s in enumerate(guarded_body) if match(pat(f"{selfL}.append($x)"), s.value if isinstance(s, ast.Expr) else s)]
            stores = [(i, s) for i, s in enumerate(guarded_body) if isinstance(s, ast.Assign) and len(s.targets) == 1
                      and isinstance(s.targets[0], ast.Subscript) and txt(s.targets[0].value) == selfM]
            temps = {txt(s.targets[0] if isinstance(s, ast.Assign) else s.target): (i, s) for i, s in enumerate(guarded_body)
                     if isinstance(s, (ast.Assign, ast.AnnAssign)) and s.value is not None and isinstance((s.targets[0] if isinstance(s, ast.Assign) else s.target), ast.Name)
                     and not any(isinstance(x, ast.Call) and txt(x.func) != "len" for x in ast.walk(s.value))}
            others = [s for s in guarded_body if s not in [a for _, a in apps] and s not in [a for _, a in stores] and not isinstance(s, (ast.Return, ast.Pass))
                      and s not in [t_[1] for t_ in temps.values()]]
            if len(apps) != 1 or len(stores) != 1 or others:
                if len(apps) == 1 and not stores and not others:
                    o.violated(add, apps[0][1], "element appended but its index is never recorded in the map")
                elif len(stores) == 1 and not apps and not others:
                    o.violated(add, stores[0][1], "index recorded but the element is never appended")
                else:
                    o.undecided("add body is not {append; map[e] = index}", add)
            else:
                (ia, sa), (im, sm) = apps[0], stores[0]
                arg = sa.value.args[0]
                key = sm.targets[0].slice
                if txt(arg) != e or txt(key) != e:
                    o.violated(add, sm, f"append({txt(arg)}) / map[{txt(key)}] do not both use the inserted element `{e}`")
                else:
                    o.holds(add, sa, "append and map store use the inserted element")
                idx_expr = sm.value
                if isinstance(idx_expr, ast.Name) and idx_expr.id in temps and Scope(add.node).n_bindings(idx_expr.id) == 1:
                    # the index is computed into a local first: what counts is where that local is evaluated
                    im, idx_expr = temps[idx_expr.id][0], temps[idx_expr.id][1].value
                idx = rules.term_of(idx_expr, Scope(add.node), keep=tuple(temps))
                ln = tm.parse(f"len({selfL})")
                want = tm.sub(ln, tm.ONE) if im > ia else ln
                res = tm.compare(idx, want)
                if res == "equal":
                    o.holds(add, sm, f"index = {tm.show(idx)} evaluated {'after' if im > ia else 'before'} the append")
                elif res == "different":
                    o.violated(add, sm, f"index stored is {tm.show(idx)} but the element's slot is {tm.show(want)} ({'after' if im > ia else 'before'} the append)")
                else:
                    o.undecided(f"index expression {tm.show(idx)} not comparable", add, sm)

    # ------------------------------------------------------------------ remove
    rem = prog.method(ci, "remove")
    if rem is None:
        with ctx.obligation("C20.3", "remove") as o:
            o.undecided("DrawSet.remove not found")
        return
    e = rem.params[1] if len(rem.params) > 1 else None
    sc = Scope(rem.node)
    cfg = CFG(rem.node)
    par = astx.Parents(rem.node)
    stmts = list(astx.stmts_in(rem.body))
    writes = [s for s in stmts if not isinstance(s, (ast.If, ast.Try, ast.For, ast.While, ast.With)) and _stmt_writes_fields(s, (L, Mp))]

    # raising lookup: position = self._M.pop(e) | del self._M[e] | position = self._M[e]
    lookup = None
    lookup_kind = None
    for s in stmts:
        v = s.value if isinstance(s, (ast.Assign, ast.AnnAssign, ast.Expr)) else None
        if v is not None:
            b = match(pat(f"{selfM}.pop($k)"), v)
            if b is not None and txt(b["k"]) == e:
                lookup, lookup_kind = s, "pop"
                break
            b2 = match(pat(f"{selfM}.pop($k, $d)"), v)
            if b2 is not None and txt(b2["k"]) == e:
                lookup, lookup_kind = s, "pop-default"
                break
            if isinstance(v, ast.Subscript) and txt(v.value) == selfM and txt(v.slice) == e:
                lookup, lookup_kind = s, "getitem"
                break
        if isinstance(s, ast.Delete) and any(isinstance(t, ast.Subscript) and txt(t.value) == selfM and txt(t.slice) == e for t in s.targets):
            lookup, lookup_kind = s, "del"
            break

    with ctx.obligation("C20.3", "remove: the raising lookup precedes every mutation and is not swallowed", floor=2) as o:
        if lookup is None:
            o.undecided(f"no lookup of `{e}` in the map found in remove", rem)
        elif lookup_kind == "pop-default":
            o.violated(rem, lookup, "map.pop(e, default) does not raise for an absent element: the list is then corrupted by the swap-remove")
        else:
            o.holds(rem, lookup, f"{txt(lookup)} raises KeyError when the element is absent")
            bad = [w for w in writes if w is not lookup and not cfg.dominates(lookup, w)]
            if bad:
                for w in bad:
                    o.violated(rem, w, "this write is reachable before the raising lookup: removing an absent element corrupts the structure before/without raising")
            else:
                o.holds(rem, lookup, f"dominates all {len([w for w in writes if w is not lookup])} other writes to the fields")
            # swallowed?
            for a in par.ancestors(lookup):
                if isinstance(a, ast.Try):
                    for h in a.handlers:
                        ht = txt(h.type) if h.type is not None else ""
                        if ht in ("", "KeyError", "Exception", "BaseException", "LookupError") or "KeyError" in ht:
                            from gcmstatic.cfg import handler_always_raises
                            if not handler_always_raises(h):
                                o.violated(rem, h, "KeyError of the lookup is swallowed: removing an absent element must raise")
            # membership pre-test that returns silently
            for s in rem.body:
                if isinstance(s, ast.If) and txt(s.test) in (f"{e} not in {selfM}", f"not {e} in {selfM}", f"{e} not in {selfL}") \
                        and any(isinstance(x, ast.Return) for x in s.body):
                    o.violated(rem, s, "absent element returns silently: removing an absent element must raise")

    def _ob_241(o):
        pops = [s for s in stmts if isinstance(s, (ast.Assign, ast.AnnAssign, ast.Expr)) and (match(pat(f"{selfL}.pop()"), s.value) is not None
                                                                                             or match(pat(f"{selfL}.pop(-1)"), s.value) is not None
                                                                                             or match(pat(f"{selfL}.pop(len({selfL}) - 1)"), s.value) is not None)]
        # `del L[-1]` / `del L[len(L) - 1]` drops the final slot like a bare `L.pop()`
        pops += [s for s in stmts if isinstance(s, ast.Delete) and len(s.targets) == 1
                 and (match(pat(f"{selfL}[-1]"), s.targets[0]) is not None or match(pat(f"{selfL}[len({selfL}) - 1]"), s.targets[0]) is not None)]
        if len(pops) != 1 or lookup is None or lookup_kind not in ("pop", "getitem", "del"):
            o.undecided("remove is not {pos = map.pop(e); last = list.pop(); guarded swap}", rem)
            return
        pop_st = pops[0]
        read_last_form = isinstance(pop_st, (ast.Expr, ast.Delete))
        if read_last_form:
            # `last = L[-1]` ... `L.pop()` : the tail is read first and dropped afterwards
            reads = [s for s in stmts if isinstance(s, (ast.Assign, ast.AnnAssign)) and (match(pat(f"{selfL}[-1]"), s.value) is not None
                                                                                       or match(pat(f"{selfL}[len({selfL}) - 1]"), s.value) is not None)]
            if len(reads) != 1:
                o.undecided("the tail element is dropped with list.pop() but never read into a local", rem, pop_st)
                return
            last = txt(reads[0].targets[0] if isinstance(reads[0], ast.Assign) else reads[0].target)
            if not cfg.dominates(reads[0], pop_st):
                o.undecided("tail read does not precede the pop", rem, pop_st)
                return
        else:
            last = txt(pop_st.targets[0] if isinstance(pop_st, ast.Assign) else pop_st.target)
        pos = None
        if lookup_kind in ("pop", "getitem") and isinstance(lookup, (ast.Assign, ast.AnnAssign)):
            pos = txt(lookup.targets[0] if isinstance(lookup, ast.Assign) else lookup.target)
        if pos is None:
            o.undecided("position of the removed element is not bound to a local", rem, lookup)
            return
        o.holds(rem, pop_st, f"the final slot is taken off the list (`{txt(pop_st)}`), its element is `{last}`")
        st_list = [s for s in stmts if isinstance(s, ast.Assign) and len(s.targets) == 1 and isinstance(s.targets[0], ast.Subscript)
                   and txt(s.targets[0].value) == selfL]
        st_map = [s for s in stmts if isinstance(s, ast.Assign) and len(s.targets) == 1 and isinstance(s.targets[0], ast.Subscript)
                  and txt(s.targets[0].value) == selfM]
        extra = [w for w in writes if w not in (lookup, pop_st) and w not in st_list and w not in st_map]
        if extra:
            o.undecided(f"unexpected extra write in remove: {txt(extra[0])}", rem, extra[0])
            return
        if len(st_list) != 1:
            if not st_list:
                o.violated(rem, pop_st, f"the popped last element is never moved into the vacated slot (no {selfL}[{pos}] = {last})")
            else:
                o.undecided("several list stores in remove", rem)
            return
        if len(st_map) != 1:
            if not st_map:
                o.violated(rem, st_list[0], f"the moved element's index is not updated in the map (no {selfM}[{last}] = {pos}): stale entry")
            else:
                o.undecided("several map stores in remove", rem)
            return
        sl, smp = st_list[0], st_map[0]
        ok_l = txt(sl.targets[0].slice) == pos and txt(sl.value) == last
        ok_m = txt(smp.targets[0].slice) == last and txt(smp.value) == pos
        if ok_l and ok_m:
            o.holds(rem, sl, f"{txt(sl)} ; {txt(smp)}")
        else:
            o.violated(rem, sl if not ok_l else smp, f"swap stores are `{txt(sl)}` / `{txt(smp)}`, expected {selfL}[{pos}] = {last} and {selfM}[{last}] = {pos}")
        # guard
        # the guard is a path condition of the two stores: an enclosing `if`, or a preceding `if <last slot>: return`
        conds_l = rules.path_conditions(par, sl)
        conds_m = rules.path_conditions(par, smp)
        if not conds_m:
            # when the removed element sits in the final slot, last IS the removed element: the unguarded map store
            # re-inserts the key that the lookup has just popped
            o.violated(rem, smp, f"`{txt(smp)}` runs unguarded: when the removed element is in the final slot (last-inserted or only member) `{last}` is the removed element "
                                 "itself, so its key is re-inserted into the map - membership stays true, re-adding is a no-op, a second remove does not raise"
                                 + ("" if read_last_form else "; and the list store indexes past the end (IndexError)"))
            return
        if read_last_form and not conds_l:
            conds_l = conds_m  # the list self-assignment L[pos] = L[-1] is harmless for the final slot
        same = len(conds_l) == len(conds_m) and all(a_[0] is b_[0] and a_[1] == b_[1] for a_, b_ in zip(conds_l, conds_m))
        if len(conds_m) != 1 or not same:
            o.undecided("guard structure of the swap not recognised", rem, sl)
            return
        gtest, gpol = conds_m[0]
        g = par.stmt_of(gtest)
        branch = "body" if gpol else "orelse"
        # the comparison may be evaluated into a local before the pop (`is_last = pos == len(L) - 1`)
        test, eval_point = gtest, g
        neg0 = not gpol
        while isinstance(test, ast.UnaryOp) and isinstance(test.op, ast.Not):
            neg0, test = not neg0, test.operand
        if isinstance(test, ast.Name) and sc.def_stmt(test.id) is not None and test.id not in sc.mutated:
            eval_point = sc.def_stmt(test.id)
            test = eval_point.value
        after_pop = cfg.dominates(pop_st, eval_point)
        r = rules.compare_with_pivot(test, lambda x: txt(x) == pos, negated=neg0)
        if r is not None and r[0] == "==":
            r = None  # `if pos == last_slot: <swap>` would be the inverted guard; left to the generic report below
            o.violated(rem, g, "the swap runs exactly when the removed element WAS in the final slot (inverted guard)")
            return
        if r is None:
            # identity form: last != e  (the popped element is not the removed one)
            t = txt(gtest)
            cf = rules.canon_fact(gtest, gpol)
            if cf == rules.canon_fact(astx.pat(f"{last} == {e}"), False):
                o.holds(rem, g, f"guard `{t}`: swap only when the removed element was not in the final slot")
            else:
                o.undecided(f"guard `{t}` not recognised", rem, g)
            return
        op, other = r
        ot = rules.term_of(other, sc)
        ln = tm.parse(f"len({selfL})")
        want = ln if after_pop else tm.sub(ln, tm.ONE)
        if op not in ("!=", "<"):
            o.violated(rem, g, f"swap guarded by `{pos} {op} {tm.show(ot)}`; it must run exactly when {pos} != {tm.show(want)}")
        else:
            res = tm.compare(ot, want)
            if res == "equal":
                o.holds(rem, g, f"guard {pos} {op} {tm.show(ot)} ({'after' if after_pop else 'before'} the pop)")
            elif res == "different":
                o.violated(rem, g, f"guard compares {pos} with {tm.show(ot)} but the vacated-slot test {'after' if after_pop else 'before'} the pop is {tm.show(want)}: "
                                   "off by one (stale map entry / IndexError)")
            else:
                o.undecided(f"guard operand {tm.show(ot)} not comparable", rem, g)
    with ctx.obligation("C20.4", "remove: swap-with-last under the guard position != len(list) after the pop", floor=3) as o:
        _ob_241(o)

    # ------------------------------------------------------------------ observers
    with ctx.obligation("C20.5", "observers read the list / map", floor=4) as o:
        specs = {
            "__len__": ([f"len({selfL})", f"len({selfM})"], "length = number of members"),
            "__iter__": ([f"iter({selfL})", f"iter({selfM})", f"iter({selfM}.keys())", f"iter(list({selfL}))"], "each member once"),
            "__contains__": (None, "membership"),
            "draw": (None, "uniform member"),
        }
        for name, (accepted, what) in specs.items():
            m = prog.method(ci, name)
            if m is None:
                o.undecided(f"DrawSet.{name} not found")
                continue
            body = astx.strip_logging(m.body)
            if name == "__iter__" and len(body) == 1 and isinstance(body[0], ast.Expr) and isinstance(body[0].value, ast.YieldFrom):
                # `yield from X` as the whole body is a generator over X: the same members, once each, as `return iter(X)`
                body = [ast.Return(value=ast.parse(f"iter({txt(body[0].value.value)})", mode="eval").body)]
            if len(body) != 1 or not isinstance(body[0], ast.Return) or body[0].value is None:
                o.undecided(f"{name} is not a single return", m)
                continue
            v = body[0].value
            if name == "__contains__":
                p = m.params[1] if len(m.params) > 1 else "?"
                if txt(v) in (f"{p} in {selfM}", f"{p} in {selfL}", f"{selfM}.get({p}) is not None", f"{selfM}.get({p}, None) is not None",
                              f"{p} in {selfM}.keys()", f"{selfM}.__contains__({p})", f"{p} in set({selfM})", f"{p} in set({selfL})"):
                    o.holds(m, v, what)
                elif txt(v) in (f"{selfM}.get({p})", f"bool({selfM}.get({p}))", f"{selfM}.get({p}, False)", f"bool({selfM}.get({p}, False))"):
                    o.violated(m, v, f"`{txt(v)}` is the TRUTH of the stored position: the element in slot 0 (position 0) tests as absent", shape_free=True)
                elif txt(v) in (f"{p} not in {selfM}", f"{p} not in {selfL}"):
                    o.violated(m, v, "membership test is negated")
                elif isinstance(v, ast.Compare) and len(v.ops) == 1 and isinstance(v.ops[0], ast.In) and txt(v.comparators[0]) in (selfM, selfL, f"{selfM}.keys()") \
                        and txt(v.left) != p and p in astx.names_in(v.left):
                    # the element is looked up under a RE-WRITTEN key; `add` decides what the stored keys look like
                    addm = prog.method(ci, "add")
                    akeys = [txt(n.targets[0].slice).replace(addm.params[1], p) for n in astx.walk_fn(addm.node) if isinstance(n, ast.Assign) and len(n.targets) == 1
                             and isinstance(n.targets[0], ast.Subscript) and txt(n.targets[0].value) == selfM] if addm is not None and len(addm.params) > 1 else []
                    if akeys and all(k_ == txt(v.left) for k_ in akeys):
                        o.undecided(f"members are stored and looked up under `{txt(v.left)}`; whether draw / remove use the same key is not decided", m, v)
                    else:
                        o.violated(m, v, f"membership looks the element up under `{txt(v.left)}`, but `add` stores it under the element itself: an element whose re-written form "
                                         "differs from it tests as absent (or one that was never added tests as present, and `remove` then fails)", shape_free=True)
                else:
                    o.undecided(f"`{txt(v)}` not recognised", m, v)
            elif name == "draw":
                ok = isinstance(v, ast.Call) and prog.external(m.module, v.func) == "random.choice" and len(v.args) == 1
                if ok and txt(v.args[0]) in (selfL, f"list({selfM})", f"list({selfM}.keys())"):
                    o.holds(m, v, "random.choice over the members: every draw is a member, every member can be drawn")
                elif ok and isinstance(v.args[0], ast.Subscript):
                    o.violated(m, v, "draw is taken from a slice of the members: some member can never be drawn")
                elif isinstance(v, ast.Subscript) and txt(v.value) == selfL:
                    idx = v.slice
                    ext_ = prog.external(m.module, idx.func) if isinstance(idx, ast.Call) else None
                    ia = [tm.parse(txt(a)) for a in idx.args] if isinstance(idx, ast.Call) and not idx.keywords and all(not isinstance(a, ast.Starred) for a in idx.args) else []
                    nL = tm.parse(f"len({selfL})")
                    lo_hi = None        # half-open [lo, hi) of the drawn index
                    if ext_ == "random.randrange" and len(ia) == 1:
                        lo_hi = (tm.ZERO, ia[0])
                    elif ext_ == "random.randrange" and len(ia) == 2:
                        lo_hi = (ia[0], ia[1])
                    elif ext_ == "random.randint" and len(ia) == 2:
                        lo_hi = (ia[0], tm.add(ia[1], tm.ONE))
                    if lo_hi is not None and lo_hi == (tm.ZERO, nL):
                        o.holds(m, v, "uniform index over the members")
                    elif lo_hi is not None and not tm.has_opaque(lo_hi[0]) and not tm.has_opaque(lo_hi[1]):
                        o.violated(m, v, f"the index is drawn from [{tm.show(lo_hi[0])}, {tm.show(lo_hi[1])}) but the members occupy [0, len): "
                                         + ("some member can never be drawn (and a one-element set raises)" if tm.is_const(tm.sub(nL, lo_hi[1])) is not None and tm.is_const(tm.sub(nL, lo_hi[1])) > 0 or lo_hi[0] != tm.ZERO
                                            else "an index past the end can be drawn (IndexError)"), shape_free=True)
                    elif False:
                        pass
                    elif astx.const_value(idx) is not None:
                        o.violated(m, v, "draw always returns the same slot: not every member can be drawn")
                    else:
                        o.undecided(f"`{txt(v)}` not recognised", m, v)
                else:
                    o.undecided(f"`{txt(v)}` not recognised", m, v)
            else:
                gi = v.args[0] if name == "__iter__" and isinstance(v, ast.Call) and txt(v.func) == "iter" and len(v.args) == 1 else v
                if name == "__iter__" and isinstance(gi, (ast.GeneratorExp, ast.ListComp)) and len(gi.generators) == 1 and txt(gi.generators[0].iter) in (selfL, selfM) \
                        and isinstance(gi.generators[0].target, ast.Name) and txt(gi.elt) == gi.generators[0].target.id and gi.generators[0].ifs:
                    ev_ = gi.generators[0].target.id
                    truthy = [c_ for c_ in gi.generators[0].ifs if txt(c_) in (f"{selfM}.get({ev_})", f"{selfM}[{ev_}]", f"bool({selfM}.get({ev_}))", f"{selfM}.get({ev_}, 0)", f"{selfM}.get({ev_}, False)")]
                    always = [c_ for c_ in gi.generators[0].ifs if txt(c_) in (f"{ev_} in {selfM}", f"{ev_} in {selfM}.keys()", f"{selfM}.get({ev_}) is not None")]
                    if truthy:
                        o.violated(m, truthy[0], f"iteration keeps a member only when `{txt(truthy[0])}` is TRUE, i.e. its stored position is not 0: the member in slot 0 is never "
                                                 "iterated (len() and iteration disagree)", shape_free=True)
                    elif len(always) == len(gi.generators[0].ifs):
                        o.holds(m, v, what + " (the filter is true for every member)")
                    else:
                        o.undecided(f"`{txt(v)[:70]}` filters the members", m, v)
                elif txt(v) in accepted:
                    o.holds(m, v, what)
                else:
                    tv = rules.term_of(v)
                    if name == "__len__" and tm.compare(tv, tm.parse(f"len({selfL})")) == "different" and tm.leaves(tv) <= {selfL, selfM, "len()"}:
                        o.violated(m, v, f"__len__ returns {txt(v)}, not the number of members")
                    else:
                        o.undecided(f"`{txt(v)}` not recognised", m, v)


def _stmt_writes_fields(s, fields):
    for n in ast.walk(s):
        if isinstance(n, ast.Call) and isinstance(n.func, ast.Attribute) and n.func.attr in astx.MUTATOR_METHODS \
                and astx.self_attr(n.func.value) in fields:
            return True
    tg = []
    if isinstance(s, ast.Assign):
        tg = s.targets
    elif isinstance(s, (ast.AugAssign, ast.AnnAssign)):
        tg = [s.target]
    elif isinstance(s, ast.Delete):
        tg = s.targets
    for t in tg:
        base = t
        while isinstance(base, ast.Subscript):
            base = base.value
        if astx.self_attr(base) in fields:
            return True
    return False


def _self_field_effects(m, fields):
    return [s for s in astx.stmts_in(m.body) if not isinstance(s, (ast.If, ast.Try, ast.For, ast.While, ast.With)) and _stmt_writes_fields(s, fields)]
