"""Generic obligation Cnn.Z - no truthiness test on a value whose domain legitimately contains 0.

Vertices are numbered from 0, motif ids start at 0, the first topology has index 0, bounds such as a support minimum
may be 0.  `x or default`, `if x:`, `filter(None, xs)` and `any(x for x in xs)` treat exactly that element as absent.
None of these idioms occurs on such a value on the pinned tree; they arrive with defaulting code for new optional
features (`root = root or ..`, `if index:`, padding removed with `filter(None, group)`).  The rule needs POSITIVE evidence
of the value's kind before it accuses:

  vertex      the identifier is used in a vertex position of a networkx call somewhere in the same module
              (`G.nodes[x]`, `G.neighbors(x)`, `nx.node_connected_component(G, x)`, `G.has_edge(x, _)` ...), or is the
              loop variable over `G.nodes()` / an end point of `G.edges()` / an element of a neighbourhood
  motif id    loop variable bound from a `.motif_id` column (directly or through zip), or `next(<id generator>)`
  index       bound from `enumerate` / `range` / `.index(..)` / a repo function whose name ends in `_index`
  literal     a call site in the repo passes the literal 0 / 0.0 for the parameter

Scope: the property's anchor files plus the modules that do not exist on the pinned tree and that an anchor file
imports.  Decides the structural clause "0 is handled like every other value"; a hit is a behaviour change for the
element 0 by construction (there is no behaviour-preserving way to drop a legitimate 0)."""
from __future__ import annotations

import ast
import json
import os

from gcmstatic import astx
from gcmstatic.astx import txt
from .common_state import property_files, VERIF

VERTEX_ARG0 = {"neighbors", "has_node", "remove_node", "add_node", "degree", "adj", "successors", "predecessors"}
VERTEX_ANY_ARG = {"has_edge", "add_edge", "remove_edge"}
NX_VERTEX_ARG1 = {"node_connected_component", "shortest_path", "shortest_path_length", "common_neighbors", "has_path", "descendants", "ego_graph"}
INDEX_CALLS = ("index",)


def _pinned_modules():
    try:
        return set(json.load(open(os.path.join(VERIF, "known_functions.json"))).get("modules", []))
    except Exception:
        return set()


def _scope_modules(prog, files):
    mods = [m for m in prog.modules.values() if m.relpath in files]
    pinned = _pinned_modules()
    if pinned:
        new = {m.name: m for m in prog.modules.values() if m.name not in pinned}
        for m in list(mods):
            for tgt in m.imports.values():
                for nm, nmod in new.items():
                    if (tgt == nm or tgt.startswith(nm + ".")) and nmod not in mods:
                        mods.append(nmod)
        # a helper spliced in from a new module leaves that module imported by nobody: include new modules whose
        # functions are still called by name from an anchor module
        for nm, nmod in new.items():
            if nmod in mods:
                continue
            fnames = set(nmod.functions) | {c for c in nmod.classes}
            if any(isinstance(n, ast.Name) and n.id in fnames for m in mods for n in ast.walk(m.tree)):
                mods.append(nmod)
    return mods


def _vertex_uses(tree) -> set:
    """identifiers that occur in a vertex position somewhere in the module"""
    out = set()
    for n in ast.walk(tree):
        if isinstance(n, ast.Subscript) and isinstance(n.value, ast.Attribute) and n.value.attr in ("nodes", "_node", "adj", "_adj") and isinstance(n.slice, ast.Name):
            out.add(n.slice.id)
        if isinstance(n, ast.Call) and isinstance(n.func, ast.Attribute):
            a = n.func.attr
            if a in VERTEX_ARG0 and n.args and isinstance(n.args[0], ast.Name):
                out.add(n.args[0].id)
            if a in VERTEX_ANY_ARG:
                out |= {x.id for x in n.args[:2] if isinstance(x, ast.Name)}
            if a in NX_VERTEX_ARG1 and len(n.args) >= 2:
                out |= {x.id for x in n.args[1:3] if isinstance(x, ast.Name)}
        if isinstance(n, (ast.For, ast.comprehension)):
            it = n.iter
            src = txt(it)
            t = n.target
            if isinstance(t, ast.Name) and (src.endswith(".nodes()") or src.endswith(".nodes") or ".neighbors(" in src or "common_neighbors(" in src or "common_neighbours(" in src):
                out.add(t.id)
            if isinstance(t, ast.Tuple) and len(t.elts) == 2 and all(isinstance(x, ast.Name) for x in t.elts) and (src.endswith(".edges()") or src.endswith(".edges")):
                out |= {x.id for x in t.elts}
    return out


def _id_and_index_names(tree) -> dict:
    """identifier -> kind for loop variables / assignments with a recognisable source"""
    out = {}
    for n in ast.walk(tree):
        if isinstance(n, (ast.For, ast.comprehension)):
            it, t = n.iter, n.target
            if isinstance(it, ast.Call) and txt(it.func) == "enumerate" and isinstance(t, ast.Tuple) and t.elts and isinstance(t.elts[0], ast.Name):
                out[t.elts[0].id] = "index"
            if isinstance(it, ast.Call) and txt(it.func) == "range" and isinstance(t, ast.Name):
                out[t.id] = "index"
            if isinstance(it, ast.Call) and txt(it.func) in ("zip", "itertools.zip_longest", "zip_longest") and isinstance(t, ast.Tuple) and len(t.elts) == len(it.args):
                for te, a in zip(t.elts, it.args):
                    if isinstance(te, ast.Name) and isinstance(a, ast.Attribute) and a.attr in ("motif_id", "_motif_id", "motif_ids", "_motif_ids"):
                        out[te.id] = "motif id"
            if isinstance(t, ast.Name) and isinstance(it, ast.Attribute) and it.attr in ("motif_id", "_motif_id", "motif_ids", "_motif_ids"):
                out[t.id] = "motif id"
        # a (low, high) degree bound unpacked from the configuration: the support minimum may be 0
        if isinstance(n, ast.Assign) and len(n.targets) == 1 and isinstance(n.targets[0], (ast.Tuple, ast.List)) and all(isinstance(e, ast.Name) for e in n.targets[0].elts) \
                and ("LOW_HIGH_DEGREE_BOUND" in txt(n.value) or "_low_high_degree_bound" in txt(n.value)) and not isinstance(n.value, (ast.Tuple, ast.List)):
            for e in n.targets[0].elts:
                out[e.id] = "degree bound (a support minimum / maximum)"
        if isinstance(n, (ast.For, ast.comprehension)) and isinstance(n.target, (ast.Tuple, ast.List)) and all(isinstance(e, ast.Name) for e in n.target.elts) \
                and isinstance(n.iter, (ast.Attribute, ast.Subscript)) and ("LOW_HIGH_DEGREE_BOUND" in txt(n.iter) or "_low_high_degree_bound" in txt(n.iter)):
            for e in n.target.elts:
                out[e.id] = "degree bound (a support minimum / maximum)"
        if isinstance(n, ast.Assign) and len(n.targets) == 1 and isinstance(n.targets[0], ast.Name) and isinstance(n.value, ast.Call):
            f = n.value.func
            nm = f.attr if isinstance(f, ast.Attribute) else (f.id if isinstance(f, ast.Name) else "")
            if nm == "index" or nm.endswith("_index"):
                out[n.targets[0].id] = "index"
            if nm == "next" and n.value.args:
                out.setdefault(n.targets[0].id, "motif id" if "id" in n.targets[0].id.lower() else None)
    return {k: v for k, v in out.items() if v}


def _parents(f):
    out = []
    pf = f.parent
    while pf is not None:
        out.append(pf)
        pf = pf.parent
    return out


def _truthiness_sites(fn_node):
    """(node, identifier, how) for truthiness tests applied to a bare name"""
    for n in ast.walk(fn_node):
        if isinstance(n, ast.BoolOp) and isinstance(n.op, ast.Or) and isinstance(n.values[0], ast.Name) and len(n.values) >= 2:
            yield n, n.values[0].id, f"`{txt(n)[:60]}` replaces a falsy `{n.values[0].id}`"
        if isinstance(n, (ast.If, ast.IfExp, ast.While)):
            t = n.test
            if isinstance(t, ast.UnaryOp) and isinstance(t.op, ast.Not):
                t = t.operand
            if isinstance(t, ast.Name):
                yield n, t.id, f"`{'if' if not isinstance(n, ast.While) else 'while'} {txt(n.test)}` branches on the truthiness of `{t.id}`"
        if isinstance(n, ast.Call) and txt(n.func) == "filter" and len(n.args) == 2 and isinstance(n.args[0], ast.Constant) and n.args[0].value is None:
            yield n, ("<elements>", n.args[1]), f"`{txt(n)[:60]}` drops every falsy element"
        if isinstance(n, ast.Call) and txt(n.func) in ("any", "all") and len(n.args) == 1 and isinstance(n.args[0], ast.Name):
            yield n, ("<elements>", n.args[0]), f"`{txt(n)[:70]}` tests the truthiness of the elements themselves"
        if isinstance(n, ast.Call) and txt(n.func) in ("any", "all") and len(n.args) == 1 and isinstance(n.args[0], (ast.GeneratorExp, ast.ListComp)) \
                and isinstance(n.args[0].elt, ast.Name) and len(n.args[0].generators) == 1 and isinstance(n.args[0].generators[0].target, ast.Name) \
                and n.args[0].elt.id == n.args[0].generators[0].target.id:
            yield n, ("<elements>", n.args[0].generators[0].iter), f"`{txt(n)[:70]}` tests the truthiness of the elements themselves"
        if isinstance(n, (ast.ListComp, ast.GeneratorExp, ast.SetComp)) and len(n.generators) == 1 and isinstance(n.generators[0].target, ast.Name):
            g = n.generators[0]
            for c in g.ifs:
                if isinstance(c, ast.Name) and c.id == g.target.id and isinstance(n.elt, ast.Name) and n.elt.id == g.target.id:
                    yield n, ("<elements>", g.iter), f"`{txt(n)[:60]}` keeps only the truthy elements"


def run_identity(ctx, mods):
    """Cnn.Z (second clause): VALUES are compared with == / !=, never with `is` / `is not`.  Identity agrees with equality only
    for the objects CPython happens to share (ints from -5 to 256, interned literals): vertex ids above 256, strings built at run
    time, numpy integers, equal tuples are equal but not identical.  Singletons (None, True, False, ...), classes and sentinel
    objects are what `is` is for and are left alone; an operand of unknown kind is UNDECIDED."""
    prog = ctx.prog
    with ctx.obligation(f"{ctx.prop}.Z", "values are compared by equality, not by identity") as o:
        n_sites = 0
        for mi in mods:
            for f in [x for x in prog.all_functions() if x.module is mi]:
                eq_names = set()
                idx_names = set()
                for n in astx.walk_fn(f.node):
                    if isinstance(n, ast.Compare) and any(isinstance(op, (ast.Eq, ast.NotEq, ast.Lt, ast.Gt, ast.LtE, ast.GtE)) for op in n.ops):
                        eq_names |= {x.id for x in [n.left] + n.comparators if isinstance(x, ast.Name)}
                    if isinstance(n, (ast.For, ast.comprehension)):
                        idx_names |= astx.names_in(n.target)
                for n in astx.walk_fn(f.node):
                    if not (isinstance(n, ast.Compare) and len(n.ops) == 1 and isinstance(n.ops[0], (ast.Is, ast.IsNot))):
                        continue
                    a, b = n.left, n.comparators[0]
                    def singleton(x):
                        if isinstance(x, ast.Constant) and (x.value is None or x.value is True or x.value is False or x.value is Ellipsis):
                            return True
                        t = txt(x)
                        return t in ("NotImplemented", "cls", "self.__class__") or t.startswith("type(") or t.split(".")[-1][:1].isupper() or t.split(".")[-1].startswith("_SENTINEL") \
                            or t.split(".")[-1].isupper()
                    if singleton(a) or singleton(b):
                        continue
                    n_sites += 1
                    def valueish(x):
                        if isinstance(x, ast.Constant) or isinstance(x, (ast.BinOp, ast.Tuple, ast.JoinedStr)):
                            return True
                        if isinstance(x, ast.Call) and txt(x.func) in ("len", "int", "str", "float", "sum", "abs", "min", "max", "tuple", "round"):
                            return True
                        if isinstance(x, ast.Name) and (x.id in eq_names or x.id in idx_names):
                            return True         # compared by value elsewhere in the function / an index or element produced by a loop
                        if isinstance(x, ast.Attribute) and x.attr.lstrip("_") in ("target_k", "m0", "phi", "n_samples", "iterations"):
                            return True         # numeric configuration
                        return False
                    if valueish(a) or valueish(b):
                        o.violated(f, n, f"`{txt(n)}` compares values by IDENTITY: equal ints above 256, strings built at run time, numpy integers or equal tuples are distinct objects, so the "
                                         "test fails (or passes) where `==` / `!=` would not - the behaviour depends on how the value was produced, not on the value", shape_free=True)
                    else:
                        o.undecided(f"`{txt(n)}`: identity comparison of operands of unknown kind", f, n)
        if not n_sites:
            o.holds(None, None, "no identity comparison between non-singleton operands in the anchor files", construct="scan of is / is not")


def run(ctx):
    prog = ctx.prog
    files = set(property_files(ctx.prop))
    if not files:
        return
    try:
        run_identity(ctx, _scope_modules(prog, files))
    except Exception as e_:      # never let the second clause mask the first
        with ctx.obligation(f"{ctx.prop}.Z", "values are compared by equality, not by identity") as o_:
            o_.undecided(f"identity-comparison scan failed: {type(e_).__name__}: {e_}")
    with ctx.obligation(f"{ctx.prop}.Z", "no truthiness test on a value whose domain legitimately contains 0 (vertex 0, motif id 0, topology index 0, bound 0)") as o:
        mods = _scope_modules(prog, files)
        if not mods:
            o.undecided("none of the anchor files exists")
            return
        n_sites = 0
        found = False
        # literal falsy arguments passed anywhere in the repo:  function name -> {param name or position: literal}
        falsy_args = {}
        for f in prog.all_functions():
            for n in astx.walk_fn(f.node):
                if isinstance(n, ast.Call):
                    nm = n.func.attr if isinstance(n.func, ast.Attribute) else (n.func.id if isinstance(n.func, ast.Name) else None)
                    if nm is None:
                        continue
                    for i, a in enumerate(n.args):
                        if isinstance(a, ast.Constant) and a.value is not None and not isinstance(a.value, (bool, str)) and a.value == 0:
                            falsy_args.setdefault(nm, {})[i] = (f, n)
                    for k in n.keywords:
                        if k.arg and isinstance(k.value, ast.Constant) and k.value.value is not None and not isinstance(k.value.value, (bool, str)) and k.value.value == 0:
                            falsy_args.setdefault(nm, {})[k.arg] = (f, n)
        for mi in mods:
            prog.note(mi)
            vertex_ids = _vertex_uses(mi.tree)
            kinds = _id_and_index_names(mi.tree)
            for f in [x for x in prog.all_functions() if x.module is mi]:
                params = [p for p in f.params if p not in ("self", "cls")]
                for node, ident, how in _truthiness_sites(f.node):
                    if any(node is not f.node and isinstance(d, (ast.FunctionDef, ast.Lambda)) and any(x is node for x in ast.walk(d)) and d is not f.node for d in ast.walk(f.node) if d is not f.node):
                        continue        # judged with the nested function it belongs to
                    n_sites += 1
                    if isinstance(ident, tuple):
                        src = ident[1]
                        stext = txt(src)
                        why = None
                        if "zip_longest" in stext or any(isinstance(x, ast.Name) and x.id in ("group", "chunk") for x in ast.walk(src)) and "zip_longest" in txt(f.node):
                            why = "the elements are stubs (vertex numbers) padded by zip_longest: the padding is None, but vertex 0 is falsy too"
                        elif any(isinstance(x, ast.Subscript) and (txt(x.value).endswith("G") or txt(x.value).endswith(".adj") or txt(x.value).endswith("._adj")) for x in ast.walk(src)):
                            why = "the elements are neighbours of a vertex (adjacency lookup), i.e. vertices"
                        elif ".neighbors(" in stext or "common_neighbors(" in stext or "common_neighbours(" in stext or stext.endswith(".nodes()") or stext.endswith(".nodes") \
                                or (isinstance(src, ast.Name) and src.id in vertex_ids):
                            why = "the elements are vertices"
                        elif isinstance(src, ast.Name) and any(
                                isinstance(x, ast.Call) and isinstance(x.func, ast.Attribute) and x.func.attr in ("add_edge", "has_edge", "remove_edge")
                                and any(isinstance(a_, ast.Starred) and isinstance(a_.value, ast.Name) and a_.value.id == src.id for a_ in x.args) for x in ast.walk(f.node)):
                            why = f"`{src.id}` is an edge (it is unpacked into add_edge / has_edge / remove_edge), its elements are vertices"
                        elif isinstance(src, ast.Name):
                            # group produced by zip_longest in an enclosing loop
                            for x in ast.walk(f.node):
                                if isinstance(x, (ast.For, ast.comprehension)) and isinstance(x.target, ast.Name) and x.target.id == src.id and "zip_longest" in txt(x.iter):
                                    why = "the elements are stubs (vertex numbers) padded by zip_longest: the padding is None, but vertex 0 is falsy too"
                                if isinstance(x, (ast.For, ast.comprehension)) and isinstance(x.target, ast.Name) and x.target.id == src.id and isinstance(x.iter, ast.Call) \
                                        and txt(x.iter.func).split(".")[-1] == "grouper":
                                    why = "the elements are stubs (vertex numbers) grouped by grouper(..): a fill value may be None, but vertex 0 is falsy too"
                        if why:
                            found = True
                            o.violated(f, node, f"{how}; {why}: the element 0 is silently lost / never counts", sure=True)
                        continue
                    kind = None
                    if ident in vertex_ids:
                        kind = "a vertex (it is used as one in this module), and vertices are numbered from 0"
                    elif ident in kinds:
                        kind = f"a{'n' if kinds[ident][0] in 'aeiou' else ''} {kinds[ident]}, which starts at 0"
                    elif ident in params or any(ident in [q for q in pf.params if q not in ("self", "cls")] for pf in _parents(f)):
                        owner = f if ident in params else next(pf for pf in _parents(f) if ident in pf.params)
                        oparams = [q for q in owner.params if q not in ("self", "cls")]
                        pos = oparams.index(ident)
                        hit = falsy_args.get(owner.name, {})
                        site = hit.get(ident) or hit.get(pos)
                        if site is not None:
                            kind = f"a parameter for which `{site[0].qualname}` passes the literal 0 (`{txt(site[1])[:50]}`)"
                        else:
                            # the argument handed in by callers has a recognisable kind
                            for cf in prog.all_functions():
                                cm = cf.module
                                ck = None
                                for c in astx.walk_fn(cf.node):
                                    cn_ = c.func.attr if isinstance(c, ast.Call) and isinstance(c.func, ast.Attribute) else (c.func.id if isinstance(c, ast.Call) and isinstance(c.func, ast.Name) else None)
                                    if cn_ is not None and cn_ in {owner.name} | ({owner.cls.name} if owner.cls is not None and owner.name == "__init__" else set()):
                                        arg = next((k.value for k in c.keywords if k.arg == ident), c.args[pos] if pos < len(c.args) else None)
                                        if isinstance(arg, ast.Name):
                                            if arg.id in _vertex_uses(cm.tree):
                                                ck = "a vertex at the call in " + cf.qualname
                                            elif arg.id in _id_and_index_names(cm.tree):
                                                ck = f"bound from a{'n' if _id_and_index_names(cm.tree)[arg.id][0] in 'aeiou' else ''} {_id_and_index_names(cm.tree)[arg.id]} at the call in {cf.qualname}, which starts at 0"
                                if ck:
                                    kind = ck
                                    break
                    if kind:
                        found = True
                        o.violated(f, node, f"{how}, but `{ident}` is {kind}: the legitimate value 0 is treated as \"not given\"", sure=True)
                    elif isinstance(node, ast.BoolOp) and isinstance(ident, str) and ident in params:
                        # `p or <non-empty default>` on a CONTAINER parameter: the empty list / dict the caller passes on purpose is replaced
                        a_ = next((x for x in f.node.args.posonlyargs + f.node.args.args + f.node.args.kwonlyargs if x.arg == ident), None)
                        ann = txt(a_.annotation) if a_ is not None and a_.annotation is not None else ""
                        cont = ann.split("[")[0].split(".")[-1].lower() in ("list", "dict", "set", "tuple", "sequence", "iterable", "mapping", "collection")
                        if not cont:
                            cont = any((isinstance(x, ast.Compare) and len(x.ops) == 1 and isinstance(x.ops[0], (ast.In, ast.NotIn)) and isinstance(x.comparators[0], ast.Name) and x.comparators[0].id == ident)
                                       or (isinstance(x, (ast.For, ast.comprehension)) and isinstance(x.iter, ast.Name) and x.iter.id == ident) for x in ast.walk(f.node))
                        dflt = node.values[1]
                        empty_default = (isinstance(dflt, (ast.List, ast.Tuple, ast.Set)) and not dflt.elts) or (isinstance(dflt, ast.Dict) and not dflt.keys) \
                            or (isinstance(dflt, ast.Call) and txt(dflt.func) in ("list", "dict", "set", "tuple") and not dflt.args and not dflt.keywords)
                        if cont and not empty_default:
                            found = True
                            o.violated(f, node, f"{how}, but `{ident}` is a container parameter ({ann or 'it is iterated / searched'}): the EMPTY one a caller passes on purpose "
                                                f"is replaced by `{txt(dflt)[:40]}`", sure=True)
        if not found:
            o.holds(None, None, f"{n_sites} truthiness tests on bare names / element filters in {len(mods)} modules; none on a vertex, motif id, index or 0-able bound",
                    construct="falsy-zero scan of " + ", ".join(sorted(m.relpath for m in mods)))
