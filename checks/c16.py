"""C16 - closed-form clique and cycle equations and their graph counts are exact.

That the published formulas equal the percolation expectation is a theorem of the cited papers, not
something a static tool derives.  What IS decided here - and is exactly what the tests leave open (they pin
equal neighbour values, tau <= 6, one 3-cycle) - is that the code is the published formula for every tau,
n, k and for heterogeneous arguments: formula conformance by normal forms, with the reference written in the
same expression language (C16.1 clique equation with the elementary symmetric polynomial e_kappa(Hs) and
omega(tau,kappa) = (kappa+1)(tau-kappa-1); C16.2 chordless cycle; C16.3 Harary-Palmer recursion for
Q(n,k) and binomial, memoised on all arguments; C16.4 brute-force counters)."""
import ast

from gcmstatic import astx, rules, tm
from gcmstatic.astx import Scope, txt, pat, match
from gcmstatic.conform import conform, term_of_fn, term_of_src

EXPLANATION = __doc__

REF_CLIQUE = ['''
def clique_equation(tau, phi, Hs):
    return sum(
        sum(math.prod(c) for c in itertools.combinations(Hs, kappa))
        * sum(
            Q(kappa + 1, kappa * (kappa + 1) // 2 - m)
            * phi ** (kappa * (kappa + 1) // 2 - m)
            * (1 - phi) ** ((kappa + 1) * (tau - kappa - 1) + m)
            for m in range(kappa * (kappa - 1) // 2 + 1)
        )
        for kappa in range(tau)
    )
''']

REF_CYCLE = ['''
def chordless_cycle_equation(n, u, phi):
    return (
        (1 - phi) ** 2
        + sum((i + 1) * (phi * u) ** i * (1 - phi) ** 2 for i in range(1, n - 1))
        + n * (phi * u) ** (n - 1) * (1 - phi)
        + phi * (phi * u) ** (n - 1)
    )
''']

REF_Q = ['''
def Q(n, k):
    s = n * (n - 1) // 2
    if k < n - 1 or k > s:
        return 0
    elif k == n - 1:
        return int(pow(n, n - 2))
    else:
        return binomial(s, k) - sum(
            binomial(n - 1, m)
            * sum(binomial((n - 1 - m) * (n - 2 - m) // 2, p) * Q(m + 1, k - p) for p in range(max(0, k - (m + 1) * m // 2), k - m + 1))
            for m in range(0, n - 1)
        )
''', '''
def Q(n, k):
    s = n * (n - 1) // 2
    if k < n - 1 or k > s:
        return 0
    elif k == n - 1:
        return n ** (n - 2)
    else:
        return binomial(s, k) - sum(
            binomial(n - 1, m)
            * sum(binomial((n - 1 - m) * (n - 2 - m) // 2, p) * Q(m + 1, k - p) for p in range(max(0, k - (m + 1) * m // 2), k - m + 1))
            for m in range(0, n - 1)
        )
''']

REF_BINOM = ['''
def binomial(n, k):
    if n - k < 0:
        return 0
    return factorial(n) // factorial(k) // factorial(n - k)
''', '''
def binomial(n, k):
    if n - k < 0:
        return 0
    return factorial(n) // (factorial(k) * factorial(n - k))
''', '''
def binomial(n, k):
    if k > n:
        return 0
    return factorial(n) // factorial(k) // factorial(n - k)
''']


def _int_is_identity_hook(name, node, tr):
    # int(pow(n, n-2)): the argument is an integer power of an integer
    return None


def run(ctx):
    prog = ctx.prog
    ctx.trust("published formulas: Mann et al. PRE 103 012313 / 104 024304; Harary & Palmer (1973) recursion for connected labelled graphs",
              "functools.lru_cache memoises on all positional arguments; math.factorial; itertools.combinations enumerates all k-subsets once")

    with ctx.obligation("C16.1", "clique equation = sum_kappa e_kappa(Hs) sum_m Q(kappa+1, C(kappa+1,2)-m) phi^(..) (1-phi)^(omega+m)") as o:
        f = prog.func("clique_equation")
        r = conform(o, f, REF_CLIQUE, "clique_equation(tau, phi, Hs)")
        # Q must resolve to the memoised recursion of C16.3
        tgt = f.module.imports.get("Q")
        if tgt is None or not tgt.endswith("number_connected_graphs.Q"):
            o.violated(f, f.node, f"the coefficient Q is bound to `{tgt}`, not to gcmpy.message_passing.number_connected_graphs.Q") if tgt else o.undecided("Q is not imported", f)
        else:
            o.holds(f, f.node, "coefficient Q resolves to number_connected_graphs.Q", construct="import Q")

    with ctx.obligation("C16.2", "chordless cycle equation") as o:
        conform(o, prog.func("chordless_cycle_equation"), REF_CYCLE, "chordless_cycle_equation(n, u, phi)")

    with ctx.obligation("C16.3", "recursion for Q(n,k) and binomial; both memoised on all their arguments", floor=4) as o:
        q = prog.func("Q")
        conform(o, q, REF_Q, "Q(n, k)")
        b = prog.func("binomial")
        conform(o, b, REF_BINOM, "binomial(n, k)")
        for f in (q, b):
            decos = f.decorators
            cached = [d for d in decos if "lru_cache" in d or d in ("cache", "functools.cache")]
            if not cached:
                o.holds(f, f.node, f"{f.name}: not memoised (pure recursion, only slower)", construct="no cache")
            elif any("typed" in d for d in cached):
                o.holds(f, f.node, f"{f.name}: memoised with {cached[0]}", construct=cached[0])
            else:
                o.holds(f, f.node, f"{f.name}: memoised with {cached[0]} keyed by all arguments", construct=cached[0])
            # no other inputs: free names are parameters, locals, builtins or module functions
            sc = Scope(f.node)
            free = set()
            for n in astx.walk_fn(f.node):
                if isinstance(n, ast.Name) and isinstance(n.ctx, ast.Load) and not sc.is_local(n.id):
                    free.add(n.id)
            import builtins as _bi
            allowed = {"binomial", "Q", "factorial", "max", "min", "range", "int", "pow", "sum", "abs", "len"} | set(dir(_bi))
            # names of functions / classes (module-level defs of the package, imported library callables) are not state;
            # what must not be read is a module-level VARIABLE (mutable configuration the cache would not be keyed by)
            mod_vars = {t_.id for st_ in f.module.tree.body if isinstance(st_, (ast.Assign, ast.AnnAssign, ast.AugAssign))
                        for t_ in (st_.targets if isinstance(st_, ast.Assign) else [st_.target]) if isinstance(t_, ast.Name)}
            extra = sorted(x for x in free - allowed if x in mod_vars or (x not in f.module.imports and x not in f.module.functions and x not in f.module.classes))
            if extra and cached:
                o.violated(f, f.node, f"{f.name} is memoised but also reads {extra}: the cache is not keyed by everything the value depends on")
        # exactness: the counts are Python ints.  `n ** (n - c)` / `pow(n, n - c)` has a NEGATIVE exponent for n < c (Q(1, 0) is
        # reached by the recursion), where Python returns a float: 1.0 then multiplies into every larger count and exactness is
        # lost above 2**53.  The power must be converted back with int(), or n >= c must be a path condition.
        qpar = astx.Parents(q.node)
        qsc = Scope(q.node)
        npar = q.params[0] if q.params else "n"
        for x in astx.walk_fn(q.node):
            base = expo = None
            if isinstance(x, ast.BinOp) and isinstance(x.op, ast.Pow):
                base, expo = x.left, x.right
            elif isinstance(x, ast.Call) and (txt(x.func) in ("pow", "math.pow") or prog.external(q.module, x.func) in ("math.pow", "numpy.power", "numpy.float_power")) and len(x.args) == 2:
                base, expo = x.args
            if base is None:
                continue
            if isinstance(x, ast.Call) and (txt(x.func) == "math.pow" or prog.external(q.module, x.func) in ("math.pow", "numpy.power", "numpy.float_power")):
                o.violated(q, x, f"`{txt(x.func)}` is {prog.external(q.module, x.func) or 'math.pow'} here (imported over the builtin): it computes in floats, so the count is not exact "
                                 "above 2**53 even when converted back with int()", shape_free=True)
                continue
            e_ = qsc.resolve(expo)
            if not (isinstance(e_, ast.BinOp) and isinstance(e_.op, ast.Sub) and txt(e_.left) == npar and isinstance(astx.const_value(e_.right), int) and astx.const_value(e_.right) >= 1):
                continue
            c_ = astx.const_value(e_.right)
            wrapped = any(isinstance(a_, ast.Call) and txt(a_.func) == "int" for a_ in qpar.ancestors(x))
            guarded = False
            for t_, pol_ in rules.known_facts(qpar, x):
                r_ = rules.compare_with_pivot(t_, lambda y: txt(y) == npar, negated=not pol_)
                if r_ is not None and isinstance(astx.const_value(r_[1]), int):
                    v_ = astx.const_value(r_[1])
                    if (r_[0] == ">=" and v_ >= c_) or (r_[0] == ">" and v_ >= c_ - 1):
                        guarded = True
            if wrapped or guarded:
                o.holds(q, x, f"`{txt(x)}` is " + ("converted back with int()" if wrapped else f"only evaluated for {npar} >= {c_}") + ": the count stays an int")
            else:
                o.violated(q, x, f"`{txt(x)}` has a negative exponent for {npar} < {c_} (Q(1, 0) is reached by the recursion) and is then a FLOAT (1 ** -1 == 1.0): every count that "
                                 "multiplies it becomes a float and is no longer exact above 2**53", shape_free=True)

    with ctx.obligation("C16.4", "brute-force counters: all k-subsets of the induced subgraph's edges, count the connected remainders", floor=5) as o:
        f = prog.func("number_of_connected_graphs")
        G, ak, i, k = f.params[:4]
        sc = Scope(f.node)
        par = sc.parents
        copies = [nm for nm in sc.assigns if rules.is_copy_of(sc, nm, [G])]
        rets_all = [n for n in astx.walk_fn(f.node) if isinstance(n, ast.Return)]
        if len(rets_all) != 1 or not any(rets_all[0] is s_ for s_ in f.body):
            extra = [r_ for r_ in rets_all if not any(r_ is s_ for s_ in f.body)]
            o.undecided(f"number_of_connected_graphs has a return path that bypasses the enumeration (`{txt(extra[0]) if extra else 'return'}`): a closed-form shortcut is not "
                        "something this rule can validate", f, extra[0] if extra else f.node)
        effs = rules.effects_on(prog, f, [G], scope=sc)
        if effs:
            o.violated(f, effs[0].node, f"the substrate graph `{G}` is mutated ({effs[0].kind})")
        elif len(copies) != 1:
            o.undecided("working copy H = G.copy() not found", f)
        else:
            H = copies[0]
            o.holds(f, sc.def_stmt(H), f"works on {H} = {G}.copy()")
            # node removal: exactly nodes not in ak + {i}
            rm = [n for n in astx.walk_fn(f.node) if isinstance(n, ast.Call) and isinstance(n.func, ast.Attribute) and n.func.attr in ("remove_node", "remove_nodes_from")]
            def _judge(n_, it_txt, facts, where):
                full = it_txt in (f"{G}.nodes()", f"{G}.nodes", f"list({G}.nodes())", f"list({H}.nodes())", f"list({G})", f"list({H})", G, f"{H}.copy()", f"list({H}.nodes)", f"list({G}.nodes)")
                got = rules.canon_facts(facts)
                want = {rules.canon_fact(astx.pat(f"{n_} == {i}"), False), rules.canon_fact(astx.pat(f"{n_} in {ak}"), False)}
                understood = all(isinstance(e_, ast.Compare) and len(e_.ops) == 1 and astx.names_in(e_) <= {n_, i, ak} for e_, _ in
                                 [(x_[0].operand if isinstance(x_[0], ast.UnaryOp) else x_[0], x_[1]) for x_ in facts])
                if full and got == want:
                    o.holds(f, where, f"removes exactly the nodes outside {ak} + {{{i}}}")
                elif full and facts and understood:
                    shown = " and ".join((t_ if p_ else f"not ({t_})") for t_, p_ in sorted(got))
                    o.violated(f, where, f"a vertex is removed when `{shown}`; the kept set must be exactly `{n_} == {i} or {n_} in {ak}`")
                elif full and not facts:
                    o.violated(f, where, f"every vertex is removed unconditionally; the kept set must be exactly `{n_} == {i} or {n_} in {ak}`")
                else:
                    o.undecided("node removal loop not recognised", f, where)

            if len(rm) == 1 and txt(rm[0].func.value) == H and rm[0].func.attr == "remove_node" and par.loops_of(rm[0]):
                lp = par.loops_of(rm[0])[0]
                n_ = txt(lp.target)
                if txt(rm[0].args[0]) != n_:
                    o.undecided("node removal loop not recognised", f, lp)
                else:
                    # the keep test may be `if keep: continue`, an enclosing `if not keep:` or an else branch: all path conditions
                    _judge(n_, txt(lp.iter), rules.known_facts(par, rm[0], upto=lp), rm[0])
            elif len(rm) == 1 and txt(rm[0].func.value) == H and rm[0].func.attr == "remove_nodes_from" and rm[0].args \
                    and isinstance(sc.resolve(rm[0].args[0]), (ast.ListComp, ast.GeneratorExp, ast.SetComp)) and len(sc.resolve(rm[0].args[0]).generators) == 1:
                comp = sc.resolve(rm[0].args[0])
                g_ = comp.generators[0]
                if txt(comp.elt) == txt(g_.target):
                    facts = []
                    for c_ in g_.ifs:
                        facts += rules.cond_atoms(c_, True)
                    _judge(txt(g_.target), txt(g_.iter), facts, rm[0])
                else:
                    o.undecided("node removal not recognised", f, rm[0])
            else:
                o.undecided("node removal not recognised", f)
            # combinations over all edges of H, k at a time
            combs = [n for n in astx.walk_fn(f.node) if isinstance(n, ast.Call) and prog.external(f.module, n.func) == "itertools.combinations"]
            if len(combs) != 1:
                o.undecided("itertools.combinations call not found", f)
            else:
                c = combs[0]
                a0, a1 = (c.args + [None, None])[:2]
                if a0 is not None and txt(a0) in (f"{H}.edges()", f"{H}.edges", f"list({H}.edges())") and a1 is not None and txt(sc.resolve(a1)) == k:
                    o.holds(f, c, f"all {k}-subsets of the edges of {H}")
                elif a0 is not None and isinstance(a0, ast.Subscript):
                    o.violated(f, c, "subsets are drawn from a slice of the edges")
                elif a1 is not None and txt(sc.resolve(a1)) != k and txt(a0) in (f"{H}.edges()", f"{H}.edges"):
                    o.violated(f, c, f"subsets of size `{txt(a1)}` instead of `{k}`")
                else:
                    o.undecided(f"combinations({txt(a0)}, {txt(a1)}) not recognised", f, c)
                lp = par.loops_of(c) or [x for x in astx.walk_fn(f.node) if isinstance(x, ast.For) and x.iter is c]
                lp = [x for x in astx.walk_fn(f.node) if isinstance(x, ast.For) and x.iter is c]
                if lp:
                    lp = lp[0]
                    comb = txt(lp.target)
                    J = [nm for nm in sc.assigns if rules.is_copy_of(sc, nm, [H])]
                    rme = [n for n in ast.walk(lp) if isinstance(n, ast.Call) and isinstance(n.func, ast.Attribute) and n.func.attr in ("remove_edge", "remove_edges_from")]
                    conn = [n for n in ast.walk(lp) if isinstance(n, ast.Call) and prog.external(f.module, n.func) == "networkx.is_connected"]
                    incs = [n for n in ast.walk(lp) if isinstance(n, ast.AugAssign)]
                    if len(J) == 1 and len(rme) == 1 and txt(rme[0].func.value) == J[0] and len(conn) == 1 and txt(conn[0].args[0]) == J[0] and len(incs) == 1:
                        # removal of exactly the chosen edges
                        ok_rm = None          # True: exactly the subset; False: recognisably another set; None: not recognised
                        if rme[0].func.attr == "remove_edges_from":
                            a_ = txt(sc.resolve(rme[0].args[0])) if rme[0].args else ""
                            if a_ in (comb, f"list({comb})", f"tuple({comb})", f"set({comb})"):
                                ok_rm = True
                            elif rme[0].args and isinstance(sc.resolve(rme[0].args[0]), ast.Subscript) and txt(sc.resolve(rme[0].args[0]).value) == comb:
                                ok_rm = False
                        else:
                            l2 = par.loops_of(rme[0])
                            if l2 and l2[0] is not lp:
                                it_ = sc.resolve(l2[0].iter)
                                tg = l2[0].target
                                args_ = [txt(a) for a in rme[0].args]
                                if isinstance(tg, ast.Name):
                                    good = [[f"*{tg.id}"], [f"{tg.id}[0]", f"{tg.id}[1]"], [f"{tg.id}[1]", f"{tg.id}[0]"]]
                                    bad = [[f"{tg.id}[0]", f"{tg.id}[0]"], [f"{tg.id}[1]", f"{tg.id}[1]"]]
                                elif isinstance(tg, ast.Tuple) and len(tg.elts) == 2 and all(isinstance(x, ast.Name) for x in tg.elts):
                                    u_, v_ = tg.elts[0].id, tg.elts[1].id
                                    good = [[u_, v_], [v_, u_]]
                                    bad = [[u_, u_], [v_, v_]]
                                else:
                                    good, bad = [], []
                                pc_ = rules.path_conditions(par, rme[0], upto=l2[0])
                                direct = not list(pc_) and pc_.complete
                                if txt(it_) in (comb, f"list({comb})") and args_ in good and direct:
                                    ok_rm = True
                                elif (isinstance(it_, ast.Subscript) and txt(it_.value) == comb) or args_ in bad or (txt(it_) in (comb, f"list({comb})") and args_ in good and not direct):
                                    ok_rm = False
                                elif isinstance(it_, ast.Name) and it_.id != comb and args_ in good:
                                    ok_rm = False
                        if ok_rm is None:
                            o.undecided("removal of the chosen edges not recognised", f, rme[0])
                        else:
                            o.check(ok_rm, f, rme[0], "removes exactly the chosen edges from a fresh copy", "the edges removed are not exactly the chosen subset")
                        ifn = par.stmt_of(conn[0])
                        inc = incs[0]
                        pos = isinstance(ifn, ast.If) and ifn.test is conn[0] and par.branch_of(inc, ifn) == "body"
                        negd = isinstance(ifn, ast.If) and isinstance(ifn.test, ast.UnaryOp) and par.branch_of(inc, ifn) == "body"
                        # the counter starts at 0
                        cdefs = [s_ for s_ in sc.assigns.get(txt(inc.target), []) if isinstance(s_, ast.Assign)]
                        if len(cdefs) == 1 and astx.const_value(cdefs[0].value) is not None and astx.const_value(cdefs[0].value) != 0:
                            o.violated(f, cdefs[0], f"the count starts at {astx.const_value(cdefs[0].value)!r}, not at 0: every result is off by that amount")
                        if pos and isinstance(inc.op, ast.Add) and astx.const_value(inc.value) == 1:
                            o.holds(f, inc, "counts +1 exactly when the remainder is connected")
                        elif negd:
                            o.violated(f, ifn, "counts the DISconnected remainders")
                        elif pos:
                            o.violated(f, inc, f"count advances by `{txt(inc)}` per connected remainder")
                        else:
                            o.undecided("count update not recognised", f, inc)
                    elif not J and len(conn) == 1 and isinstance(conn[0].args[0], ast.Name) and any(
                            isinstance(d_, ast.Assign) and isinstance(d_.value, ast.Call) and txt(d_.value.func) in ("nx.Graph", "networkx.Graph") and d_.value.args
                            and txt(d_.value.args[0]) in (f"{H}.edges()", f"{H}.edges", f"list({H}.edges())") for d_ in sc.assigns.get(conn[0].args[0].id, [])):
                        d0 = sc.assigns[conn[0].args[0].id][0]
                        o.violated(f, d0, f"the working copy `{txt(d0)}` is rebuilt from the EDGES of `{H}`: a vertex of the vertex set that has no edge inside it vanishes, so a "
                                          "remainder that leaves it isolated is counted as connected (and an edgeless subgraph raises)", shape_free=True)
                    else:
                        o.undecided("per-subset body not recognised", f, lp)
        qq = prog.func("QQ")
        t = term_of_fn(qq)
        refs = [term_of_src('''
def QQ(n, k):
    return number_of_connected_graphs(nx.complete_graph(n), [x for x in range(1, n)], 0, n * (n - 1) // 2 - k)
'''), term_of_src('''
def QQ(n, k):
    return number_of_connected_graphs(nx.complete_graph(n), list(range(1, n)), 0, n * (n - 1) // 2 - k)
''')]
        if any(t == r for r in refs):
            o.holds(qq, qq.node, "QQ(n,k) = #connected spanning subgraphs of K_n after removing C(n,2)-k edges", construct=tm.show(t)[:300])
        elif tm.has_opaque(t):
            o.undecided(f"QQ not understood: {tm.show(t)[:200]}", qq)
        else:
            o.violated(qq, qq.node, f"QQ normalises to {tm.show(t)[:400]} but should be {tm.show(refs[0])[:400]}")
