"""Shared analysis of EdgeListToNetwork.convert / NetworkToEdgeList.convert (used by C02.6 and C04)."""
import ast

from gcmstatic import astx, rules, tm
from gcmstatic.astx import Scope, txt, pat, match
from gcmstatic.cfg import CFG
from gcmstatic.pm import AnalysisError

SPEC = {"JOINT_DEGREE": "joint_degrees", "TOPOLOGY": "topologies", "MOTIF_IDS": "motif_id"}
COLS = ("edge_list", "topologies", "motif_id", "joint_degrees")


def col_of(expr, param):
    """'topologies' for `edgelist.topologies` (optionally wrapped in list())."""
    while isinstance(expr, ast.Call) and txt(expr.func) in ("list", "tuple", "iter") and len(expr.args) == 1:
        expr = expr.args[0]
    # `edgelist._topologies` is the backing field of the read-only view `edgelist.topologies` (it appears when a method of
    # the edge list is spliced into the converter)
    if isinstance(expr, ast.Attribute) and txt(expr.value) == param and (expr.attr in COLS or (expr.attr.startswith("_") and expr.attr[1:] in COLS)):
        return expr.attr.lstrip("_")
    return None


class Writer:
    """Facts about EdgeListToNetwork.convert."""

    def __init__(self, prog):
        self.prog = prog
        self.fn = prog.func("EdgeListToNetwork.convert")
        self.sc = Scope(self.fn.node)
        self.cfg = CFG(self.fn.node)
        self.par = self.sc.parents
        self.param = self.fn.params[0]
        self.model = None
        for nm, sites in self.sc.assigns.items():
            if len(sites) == 1 and isinstance(sites[0].value, ast.Call) and txt(sites[0].value.func) == "Network" and not sites[0].value.args:
                self.model = nm
        if self.model is None:
            raise AnalysisError("EdgeListToNetwork.convert: no local bound to a fresh Network()")
        self.G = f"{self.model}.G"
        self.set_calls = []  # (call, 'node'|'edge', dict_expr, key_member)
        for n in astx.walk_fn(self.fn.node):
            if isinstance(n, ast.Call):
                e = prog.external(self.fn.module, n.func)
                if e in ("networkx.set_node_attributes", "networkx.set_edge_attributes"):
                    args = list(n.args)
                    kw = {k.arg: k.value for k in n.keywords}
                    gexp = args[0] if args else kw.get("G")
                    dexp = args[1] if len(args) > 1 else kw.get("values")
                    kexp = args[2] if len(args) > 2 else kw.get("name")
                    mem = rules.enum_member(kexp, "NetworkNames") if kexp is not None else None
                    self.set_calls.append((n, "node" if "node" in e else "edge", gexp, dexp, kexp, mem))

    def dict_provenance(self, dexp):
        """For the dict passed to set_*_attributes: (key_source, value_source, fill_site) where sources are
        ('col', name) | ('index', colname) | ('other', text)."""
        d = dexp
        if isinstance(d, ast.Name):
            name = d.id
            # loop-filled: D = {} ... for ...: D[k] = v
            stores = [n for n in astx.walk_fn(self.fn.node) if isinstance(n, ast.Assign) and len(n.targets) == 1
                      and isinstance(n.targets[0], ast.Subscript) and txt(n.targets[0].value) == name]
            init = self.sc.assigns.get(name, [])
            if len(init) == 1 and txt(init[0].value) in ("{}", "dict()") and len(stores) == 1:
                st = stores[0]
                loops = self.par.loops_of(st)
                if len(loops) != 1 or not any(st is s for s in loops[0].body):
                    return None
                env = self.loop_env(loops[0])
                if env is None:
                    return None
                k = env.get(txt(st.targets[0].slice), ("other", txt(st.targets[0].slice)))
                v = env.get(txt(st.value), ("other", txt(st.value)))
                return k, v, st, loops[0]
            if len(init) == 1 and not stores:
                d = init[0].value
            else:
                return None
        if isinstance(d, ast.DictComp) and len(d.generators) == 1 and not d.generators[0].ifs:
            env = self.target_env(d.generators[0].target, d.generators[0].iter)
            if env is None:
                return None
            return env.get(txt(d.key), ("other", txt(d.key))), env.get(txt(d.value), ("other", txt(d.value))), d, d
        b = match(pat("dict(zip($a, $b))"), d)
        if b is not None:
            ca, cb = col_of(b["a"], self.param), col_of(b["b"], self.param)
            return (("col", ca) if ca else ("other", txt(b["a"]))), (("col", cb) if cb else ("other", txt(b["b"]))), d, d
        b = match(pat("dict(enumerate($a))"), d)
        if b is not None:
            ca = col_of(b["a"], self.param)
            return ("index", ca), (("col", ca) if ca else ("other", txt(b["a"]))), d, d
        return None

    def loop_env(self, loop):
        return self.target_env(loop.target, loop.iter)

    def target_env(self, target, it):
        """Positional provenance of loop targets: name -> ('col', c) | ('index', c)."""
        env = {}
        if isinstance(it, ast.Call) and txt(it.func) == "enumerate" and it.args and isinstance(target, ast.Tuple) and len(target.elts) == 2:
            c = col_of(it.args[0], self.param)
            start = it.args[1] if len(it.args) > 1 else next((k.value for k in it.keywords if k.arg == "start"), None)
            if start is not None and astx.const_value(start) != 0:
                env[txt(target.elts[0])] = ("other", f"index shifted by {txt(start)}")
            else:
                env[txt(target.elts[0])] = ("index", c)
            env[txt(target.elts[1])] = ("col", c) if c else ("other", txt(it.args[0]))
            return env
        if isinstance(it, ast.Call) and txt(it.func) == "zip" and isinstance(target, ast.Tuple) and len(target.elts) == len(it.args):
            for t, a in zip(target.elts, it.args):
                c = col_of(a, self.param)
                env[txt(t)] = ("col", c) if c else ("other", txt(a))
            return env
        if isinstance(target, ast.Name):
            c = col_of(it, self.param)
            env[target.id] = ("col", c) if c else ("other", txt(it))
            return env
        return None


class Reader:
    """Facts about NetworkToEdgeList.convert: column -> (source kind, key member, iteration domain text)."""

    def __init__(self, prog):
        self.prog = prog
        self.fn = prog.func("NetworkToEdgeList.convert")
        self.sc = Scope(self.fn.node)
        self.param = self.fn.params[0]
        self.model = None
        for nm, sites in self.sc.assigns.items():
            if len(sites) == 1 and isinstance(sites[0].value, ast.Call) and txt(sites[0].value.func) == "LightWeightEdgeList":
                self.model = nm
        if self.model is None:
            raise AnalysisError("NetworkToEdgeList.convert: no local bound to LightWeightEdgeList()")
        self.G = f"{self.param}.G"
        self.cols = {}
        for n in astx.walk_fn(self.fn.node):
            if isinstance(n, ast.Assign) and len(n.targets) == 1 and isinstance(n.targets[0], ast.Attribute) \
                    and txt(n.targets[0].value) == self.model and n.targets[0].attr in COLS:
                self.cols.setdefault(n.targets[0].attr, []).append(n)

    def describe(self, col):
        """('nodes'|'edges', KEY member or None, domain expr, element expr, stmt) of the column's value."""
        sites = self.cols.get(col, [])
        if len(sites) != 1:
            return None
        st = sites[0]
        v = self.sc.resolve(st.value)
        while isinstance(v, ast.Call) and txt(v.func) in ("list", "tuple") and len(v.args) == 1:
            v = v.args[0]
        if isinstance(v, ast.ListComp) and len(v.generators) == 1 and not v.generators[0].ifs:
            gen = v.generators[0]
            tv = txt(gen.target)
            b = match(pat(f"{self.G}.$kind[$i][$k]"), v.elt)
            if b is not None and b["kind"] in ("nodes", "edges"):
                mem = rules.enum_member(b["k"], "NetworkNames")
                return b["kind"], mem, gen.iter, (txt(b["i"]) == tv), st, txt(b["k"])
            if txt(v.elt) == tv:
                return "raw", None, gen.iter, True, st, None
            return None
        # raw edges()
        return "raw", None, v, True, st, None


def columns_travel_together(ctx, o):
    """C02.6: the two edge-attribute dicts are filled from one zip of the three columns in one loop."""
    prog = ctx.prog
    w = Writer(prog)
    edge_sets = [s for s in w.set_calls if s[1] == "edge"]
    provs = []
    for call, kind, gexp, dexp, kexp, mem in edge_sets:
        p = w.dict_provenance(dexp)
        if p is None:
            o.undecided(f"edge-attribute dictionary `{txt(dexp)}` not recognised", w.fn, call)
            return
        provs.append((call, mem, p))
    if len(provs) < 2:
        o.undecided(f"expected two set_edge_attributes calls, found {len(provs)}", w.fn)
        return
    loops = {id(p[3]) for _, _, p in provs}
    keys = {p[0] for _, _, p in provs}
    if len(loops) == 1 and keys == {("col", "edge_list")}:
        o.holds(w.fn, provs[0][2][3], "topology and motif-id dictionaries are filled in one loop over zip(edge_list, topologies, motif_id), keyed by the edge of the same position")
    elif keys != {("col", "edge_list")}:
        o.violated(w.fn, provs[0][0], f"edge attributes are keyed by {sorted(keys)}, not by the edge of the same row")
    else:
        o.undecided("edge attribute dictionaries are filled in different loops", w.fn)
