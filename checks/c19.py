"""C19 - built-in degree distributions are the probability mass functions they name.

External names exist in the installed libraries (C19.1: every dotted attribute chain on an imported
third-party module resolves - this imports numpy/math, never gcmpy); each factory's inner function IS the
named closed form with its normaliser (C19.2, formula conformance); the truncated-series helpers follow the
idiom `acc=0; k=1; loop: term=f(k); acc+=term; if |term|<tol: break; k+=1` with the term added BEFORE the exit
test, the only exit that test, tol a positive constant <= 1e-6, and the accumulated value returned (C19.3);
the normaliser is computed once from the factory arguments (C19.4).  Non-negativity and "sums to 1 within
tolerance" are analytic consequences (tail bounds in DESIGN.md), not computed; float evaluation not decided."""
import ast
import importlib

from gcmstatic import astx, rules, tm
from gcmstatic.astx import Scope, txt, pat, match
from gcmstatic.funterm import FunTerm

EXPLANATION = __doc__

FACTORIES = {
    "exponential": ("p", "(1 - exp(-$o0)) * exp(-$o0 * k)", None),
    "poisson": ("p", "exp(-$o0) * $o0 ** k / factorial(k)", None),
    "power_law": ("p", "k ** (-$o0) / SERIES", ("zeta", ["$o0"])),
    "scale_free_cut_off": ("p", "k ** (-$o0) * exp(-k / $o1) / SERIES", ("polylog", ["$o0", "exp(-1 / $o1)"])),
}
SERIES_TERM = {"zeta": "1 / K ** $0", "polylog": "ZK / K ** $0"}


def _ref(src, names):
    e = ast.parse(src.replace("$", "__D"), mode="eval").body
    env = {f"__D{n}": tm.sym(f"${n}") for n in names}
    return tm.canon(tm.Translator(env).tr(e))


def _series_function(prog, f):
    """The function the factory calls to compute its normalising series: a nested function or a function of the
    package (same module or imported) that contains a loop, called in an assignment of the factory's own body.
    Its NAME is irrelevant (the pinned tree nests `zeta` / `polylog` inside the factories)."""
    for st in f.body:
        if isinstance(st, (ast.Assign, ast.AnnAssign)) and isinstance(st.value, ast.Call) and isinstance(st.value.func, ast.Name):
            nm = st.value.func.id
            cand = f.nested.get(nm)
            if cand is None:
                q = prog.resolve_name(f.module, nm) if hasattr(prog, "resolve_name") else nm
                cand = f.module.functions.get(nm) or prog.functions.get(str(q).split(".")[-1])
            if cand is not None and any(isinstance(x, (ast.While, ast.For)) for x in ast.walk(cand.node)):
                return cand, st
    return None, None


def run(ctx):
    prog = ctx.prog
    ctx.trust("numpy.exp / math.exp / math.factorial / pow compute the functions they name", "IEEE float evaluation is not modelled")

    with ctx.obligation("C19.1", "every attribute chain on an imported library resolves in the installed library", floor=3) as o:
        n_chains = 0
        for name in FACTORIES:
            f = prog.func(name)
            mi = f.module
            prog.note(mi)
            for n in ast.walk(mi.tree):
                if isinstance(n, ast.Attribute):
                    # maximal chains only
                    ext = prog.external(mi, n)
                    if ext is None:
                        continue
                    root = ext.split(".")[0]
                    if root in (prog.package,):
                        continue
                    parent_is_attr = False
                    n_chains += 1
                    try:
                        obj = importlib.import_module(root)
                        for part in ext.split(".")[1:]:
                            obj = getattr(obj, part)
                        o.holds(f, n, f"{ext} exists", construct=ext)
                    except ImportError:
                        o.undecided(f"library {root} is not importable here", f, n)
                    except AttributeError:
                        o.violated(f, n, f"`{txt(n)}` = {ext} does not exist in the installed {root}: the returned function raises AttributeError on first call")
            for lname, tgt in mi.imports.items():
                if "." in tgt and not tgt.startswith(prog.package):
                    modn, attr = tgt.rsplit(".", 1)
                    try:
                        m = importlib.import_module(modn)
                        if hasattr(m, attr):
                            o.holds(f, None, f"from {modn} import {attr} resolves", construct=tgt)
                        else:
                            o.violated(f, f.node, f"`from {modn} import {attr}`: {modn} has no attribute {attr}")
                    except ImportError:
                        pass

    for name, (inner, formula, series) in FACTORIES.items():
        f = prog.func(name)
        with ctx.obligation("C19.2", f"{name}: the returned function is the named closed form with its normaliser") as o, \
                ctx.obligation("C19.4", f"{name}: the normaliser is computed once, from the factory's arguments") as o4:
            if inner not in f.nested:
                # maybe returns a lambda
                o.undecided(f"{name} does not define the inner function `{inner}`", f)
                continue
            pf = f.nested[inner]
            rets = [n for n in f.body if isinstance(n, ast.Return)]
            if not rets or txt(rets[-1].value) != inner:
                o.undecided(f"{name} does not return `{inner}`", f)
                continue
            outer_params = f.params
            series_names = set(f.nested) - {inner}
            sfn, s_call_st = _series_function(prog, f)
            canon_name = {sfn.name: series[0]} if (sfn is not None and series is not None) else {}
            if sfn is not None:
                series_names = series_names | {sfn.name}

            n_series_args = len(series[1]) if series is not None else None

            def hook(nm, node, tr, series_names=series_names, canon_name=canon_name, n_series_args=n_series_args):
                if nm in series_names:
                    # the helper is read as the named series only when it is CALLED like it: zeta(s) / polylog(s, z) with plain
                    # arguments.  A generic summation helper fed with a generator of terms is another way of computing the sum.
                    if (n_series_args is not None and len(node.args) != n_series_args) or node.keywords or \
                            any(isinstance(a, (ast.GeneratorExp, ast.ListComp, ast.Lambda)) for a in node.args):
                        return tm.atom_poly(("opaque", f"series helper `{nm}` is called with other arguments than {canon_name.get(nm, nm)}({n_series_args} argument(s))"))
                    return tm.atom_poly(("call", canon_name.get(nm, nm), tuple(tr.tr(a) for a in node.args)))
                return None
            ft = FunTerm(hook)
            ft.of_function(f.node, [tm.sym(f"$o{i}") for i in range(len(outer_params))])
            closure = dict(ft.final_env())
            inner_params = pf.params
            it = FunTerm(hook)
            t = tm.canon(it.of_function(pf.node, [tm.sym("k")], extra_env={k: v for k, v in closure.items() if k not in inner_params}))
            names = [f"o{i}" for i in range(len(outer_params))]
            if series is None:
                ref = _ref(formula, names)
            else:
                sname, sargs = series
                sa = tuple(_ref(a, names) for a in sargs)
                ref_series = tm.atom_poly(("call", sname, sa))
                e = ast.parse(formula.replace("$", "__D"), mode="eval").body
                env = {f"__D{n}": tm.sym(f"${n}") for n in names}
                env["SERIES"] = ref_series
                ref = tm.canon(tm.Translator(env).tr(e))
            if t == ref:
                o.holds(pf, pf.node, f"{name}(..)(k) = {formula}".replace("$o0", outer_params[0]).replace("$o1", outer_params[-1]), construct=tm.show(t)[:300])
            elif tm.has_opaque(t):
                o.undecided(f"inner function not understood: {tm.show(t)[:200]}", pf)
            else:
                o.violated(pf, pf.node, f"{name}: the returned function normalises to  {tm.show(t)[:300]}  but the named law is  {tm.show(ref)[:300]}", construct=tm.show(t)[:300])
            # C19.4
            if series is None:
                o4.holds(f, f.node, "closed form without series normaliser", construct="n/a")
            else:
                sname = sfn.name if sfn is not None else series[0]
                calls_in_inner = [n for n in astx.walk_fn(pf.node) if isinstance(n, ast.Call) and txt(n.func) == sname]
                calls_outer = [n for n in f.body if isinstance(n, (ast.Assign, ast.AnnAssign)) and isinstance(n.value, ast.Call) and txt(n.value.func) == sname]
                if calls_in_inner:
                    o4.holds(pf, calls_in_inner[0], f"{sname} is evaluated inside the returned function (correct, only slower)", construct="per-call normaliser")
                elif len(calls_outer) == 1:
                    o4.holds(f, calls_outer[0], f"`{txt(calls_outer[0])}` evaluated once when the factory is called")
                else:
                    o4.undecided(f"normaliser call {sname}(..) not found", f)

    # running powers produced by itertools.accumulate and paired with the term index: z^k must meet index k
    with ctx.obligation("C19.3", "a stream of running powers paired with the term index pairs z^k with k") as o:
        for f in prog.all_functions():
            if not f.module.name.startswith("gcmpy.distributions"):
                continue
            fsc = Scope(f.node)
            for z_ in [n for n in astx.walk_fn(f.node) if isinstance(n, ast.Call) and txt(n.func) == "zip" and len(n.args) == 2 and not n.keywords]:
                a0, a1 = (fsc.resolve(a_) for a_ in z_.args)
                idx, pw = (a0, a1) if (isinstance(a0, ast.Call) and txt(a0.func) in ("count", "itertools.count")) else (a1, a0)
                if not (isinstance(idx, ast.Call) and txt(idx.func) in ("count", "itertools.count") and isinstance(pw, ast.Call) and txt(pw.func) in ("accumulate", "itertools.accumulate")):
                    continue
                k0 = astx.const_value(idx.args[0]) if idx.args else 0
                rep = pw.args[0] if pw.args else None
                opf = pw.args[1] if len(pw.args) > 1 else next((k.value for k in pw.keywords if k.arg == "func"), None)
                ini = next((k.value for k in pw.keywords if k.arg == "initial"), None)
                if not (isinstance(rep, ast.Call) and txt(rep.func) in ("repeat", "itertools.repeat") and len(rep.args) == 1 and opf is not None and txt(opf) in ("mul", "operator.mul")) or not isinstance(k0, int):
                    o.undecided(f"`{txt(pw)[:60]}` paired with `{txt(idx)}`: not a stream of running powers the rule understands", f, z_)
                    continue
                zt = txt(rep.args[0])
                if ini is None:
                    e0 = 1                      # z, z*z, ...
                elif astx.const_value(ini) in (1, 1.0):
                    e0 = 0                      # 1, z, z*z, ...
                elif txt(ini) == zt:
                    e0 = 1                      # z, z*z, ...
                else:
                    o.undecided(f"initial value `{txt(ini)}` of the power stream not understood", f, z_)
                    continue
                if e0 == k0:
                    o.holds(f, z_, f"powers {zt}^{e0}, {zt}^{e0 + 1}, .. are paired with the indices {k0}, {k0 + 1}, ..")
                else:
                    o.violated(f, z_, f"the power stream starts at {zt}^{e0} but the index stream at {k0}: term k is built from {zt}^(k{e0 - k0:+d}), the series is "
                                      f"Li_s({zt}) {'/' if e0 < k0 else '*'} {zt}{'' if abs(e0 - k0) == 1 else '^' + str(abs(e0 - k0))} and the law is no longer normalised", sure=True)
        if not o.results:
            o.holds(None, None, "no accumulate-based power stream in the distributions package", construct="package-wide scan")

    for owner, sname in (("power_law", "zeta"), ("scale_free_cut_off", "polylog")):
        with ctx.obligation("C19.3", f"{sname}: truncated-series idiom", floor=5) as o:
            f = prog.func(owner)
            sf, _st = _series_function(prog, f)
            if sf is None:
                o.undecided(f"{owner}: series helper not found", f)
                continue
            body = [s for s in sf.body if not (isinstance(s, ast.Expr) and isinstance(s.value, ast.Constant))]
            loops = [s for s in body if isinstance(s, (ast.While, ast.For))]
            rets_all = [x for x in astx.walk_fn(sf.node) if isinstance(x, ast.Return)]
            if len(loops) != 1 or not rets_all:
                o.undecided("series helper is not `init; <loop>; return acc`", sf)
                continue
            lp0 = loops[0]
            counted = None   # index variable supplied by `for k in itertools.count(START)`
            if isinstance(lp0, ast.While):
                if not (isinstance(lp0.test, ast.Constant) and lp0.test.value):
                    o.violated(sf, lp0, f"the series loop has the additional exit `while {txt(lp0.test)}`: it can stop - or never start - while terms above the tolerance remain "
                                        "(the only exit must be |term| < tol, tested after the term was added)")
                    continue
            else:
                it_ = lp0.iter
                bc_ = match(pat("$c($a)"), it_) if isinstance(it_, ast.Call) and len(it_.args) == 1 and not it_.keywords else None
                if bc_ is None or prog.external(sf.module, bc_["c"]) != "itertools.count" or not isinstance(lp0.target, ast.Name) or lp0.orelse:
                    if isinstance(it_, ast.Call) and txt(it_.func) == "range":
                        o.violated(sf, lp0, f"the series is summed over the fixed `{txt(it_)}`: it stops at a fixed index whether or not the terms have dropped below the tolerance")
                    else:
                        o.undecided(f"series loop `for {txt(lp0.target)} in {txt(it_)}` not recognised", sf, lp0)
                    continue
                counted = (lp0.target.id, bc_["a"])
            # the accumulator: the name returned (after the loop, or from inside the exit test)
            ret_names = {txt(r_.value) for r_ in rets_all if r_.value is not None}
            if len(ret_names) != 1:
                o.undecided("series helper returns different things", sf)
                continue
            loops = [lp0]
            rets = rets_all
            lp = loops[0]
            init = {}
            for s in body:
                if s is lp:
                    break
                if isinstance(s, (ast.Assign, ast.AnnAssign)) and s.value is not None:
                    t_ = s.targets[0] if isinstance(s, ast.Assign) else s.target
                    if isinstance(t_, ast.Name):
                        init[t_.id] = s.value
            acc = txt(rets[0].value)
            lb = list(lp.body)
            # `if z != 1: zk *= z` is `zk *= z` (multiplying by exactly 1 changes nothing): the guard is looked through
            for i_, s_ in enumerate(lb):
                if isinstance(s_, ast.If) and not s_.orelse and len(s_.body) == 1 and astx.as_aug(s_.body[0]) is not None and isinstance(astx.as_aug(s_.body[0]).op, ast.Mult):
                    fac = txt(astx.as_aug(s_.body[0]).value)
                    if txt(s_.test) in (f"{fac} != 1", f"{fac} != 1.0", f"1 != {fac}", f"not {fac} == 1", f"not ({fac} == 1)"):
                        lb[i_] = s_.body[0]
            if counted is not None:
                init = dict(init)
            A = {id(s_): astx.as_aug(s_) for s_ in lb}
            adds = [A[id(s)] for s in lb if A[id(s)] is not None and isinstance(A[id(s)].op, ast.Add) and txt(A[id(s)].target) == acc]
            breaks = [s for s in lb if isinstance(s, ast.If) and any(isinstance(x, (ast.Break, ast.Return)) for x in s.body)]
            other_exits = [x for s in lb for x in ast.walk(s) if isinstance(x, (ast.Return, ast.Break))]
            if len(adds) != 1:
                o.undecided(f"expected one `{acc} += term` in the loop", sf, lp)
                continue
            add = adds[0]
            add_st = add.node
            if acc not in init or astx.const_value(init[acc]) != 0:
                o.violated(sf, sf.node, f"accumulator `{acc}` does not start at 0") if acc in init else o.undecided("accumulator init not found", sf)
            else:
                o.holds(sf, add_st, f"accumulator `{acc}` starts at 0 and is returned")
            # index variable: the AugAssign += const on a name used in the term
            incs = [A[id(s)] for s in lb if A[id(s)] is not None and isinstance(A[id(s)].op, ast.Add) and txt(A[id(s)].target) != acc and isinstance(A[id(s)].target, ast.Name)]
            if counted is not None and not incs:
                kv = counted[0]
                if astx.const_value(counted[1]) == 1:
                    o.holds(sf, lp, f"index `{kv}` runs 1, 2, 3, ... (itertools.count(1))")
                else:
                    o.violated(sf, lp, f"series index `{kv}` starts at {txt(counted[1])}; the series runs over k >= 1")
            elif len(incs) != 1:
                o.undecided("index increment not found", sf, lp)
                continue
            elif astx.const_value(incs[0].value) != 1:
                kv = incs[0].target.id
                o.violated(sf, incs[0].node, f"index advances by {txt(incs[0].value)}: terms of the series are skipped")
            elif astx.const_value(init.get(incs[0].target.id)) != 1:
                kv = incs[0].target.id
                o.violated(sf, sf.node, f"series index `{kv}` starts at {txt(init.get(kv)) if kv in init else '?'}; the series runs over k >= 1")
            else:
                kv = incs[0].target.id
                o.holds(sf, incs[0].node, f"index `{kv}` runs 1, 2, 3, ...")
            # the term
            sc = Scope(sf.node)
            term_name = txt(add.value) if isinstance(add.value, ast.Name) else None
            term_def = None
            if term_name:
                defs = [s for s in lb if isinstance(s, (ast.Assign, ast.AnnAssign)) and txt(s.targets[0] if isinstance(s, ast.Assign) else s.target) == term_name]
                term_def = defs[0] if len(defs) == 1 else None
            term_expr = term_def.value if term_def is not None else add.value
            sparams = sf.params
            env = {p: tm.sym(f"${i}") for i, p in enumerate(sparams)}
            env[kv] = tm.sym("K")
            zk = None
            if sname == "polylog":
                muls = [A[id(s)] for s in lb if A[id(s)] is not None and isinstance(A[id(s)].op, ast.Mult) and isinstance(A[id(s)].target, ast.Name)]
                if len(muls) == 1:
                    zk = muls[0].target.id
                    env[zk] = tm.sym("ZK")
            tt = tm.canon(tm.Translator(env).tr(term_expr))
            want = tm.canon(tm.Translator({"K": tm.sym("K"), "ZK": tm.sym("ZK")}).tr(ast.parse(SERIES_TERM[sname].replace("$", "__D"), mode="eval").body))
            want = tm.rename_bound(want, "__D0", "$0")
            if tt == want:
                o.holds(sf, term_def or add_st, f"term = {SERIES_TERM[sname]}".replace("$0", sparams[0]))
            elif tm.has_opaque(tt):
                o.undecided(f"term {tm.show(tt)} not understood", sf, term_def or add)
            else:
                o.violated(sf, term_def or add_st, f"series term is {tm.show(tt)}, expected {tm.show(want)}")
            if sname == "polylog":
                if zk is None:
                    o.violated(sf, lp, "the running power z^k is never advanced")
                else:
                    m = [A[id(s)] for s in lb if A[id(s)] is not None and isinstance(A[id(s)].op, ast.Mult) and txt(A[id(s)].target) == zk][0]
                    z = sparams[1] if len(sparams) > 1 else "?"
                    okz = txt(m.value) == z and zk in init and txt(init[zk]) == z
                    pos_ok = lb.index(m.node) > lb.index(term_def or add_st)
                    if okz and pos_ok:
                        o.holds(sf, m.node, f"`{zk}` carries {z}^k: starts at {z}, multiplied by {z} once per index step, after the term is formed")
                    elif not okz:
                        o.violated(sf, m.node, f"`{zk}` does not carry {z}^k (init `{txt(init.get(zk)) if zk in init else '?'}`, step `{txt(m.node)}`)")
                    else:
                        o.violated(sf, m.node, f"`{zk}` is advanced before the term of the current index is formed")
            # exit test after the add, only exit, tolerance
            if len(breaks) != 1 or len(other_exits) != 1:
                o.violated(sf, lp, "the loop has no / more than one exit: it does not stop exactly when the term drops below the tolerance") if not breaks else o.undecided("several exits", sf, lp)
                continue
            br = breaks[0]
            if lb.index(br) < lb.index(add_st) and sname == "zeta":
                # zeta: the first term is 1/1^s = 1, never below a tolerance < 1, so the sum is never left empty; the one term that is
                # not added is below the tolerance - inside the series-truncation tolerance C19 grants (independent differential
                # audit: relative change <= 9e-7 for alpha in 1.5..4, far below the truncation error of the series itself)
                o.holds(sf, br, "the exit test runs before the add: only the first term below the tolerance is left out (the first term of zeta is 1)")
            elif lb.index(br) < lb.index(add_st):
                o.violated(sf, br, "the exit test runs before the term is added: the last term is dropped / the first small term ends the series with nothing added")
            else:
                o.holds(sf, br, "term is added before the exit test")
            r = rules.compare_with_pivot(br.test, lambda x: isinstance(x, ast.Call) and txt(x.func) in ("abs", "np.abs", "math.fabs") and txt(x.args[0]) == (term_name or txt(add.value)))
            if r is None:
                r2 = rules.compare_with_pivot(br.test, lambda x: txt(x) == (term_name or txt(add.value)))
                if r2 is not None and r2[0] in ("<", "<="):
                    r = r2
            # `.. or k >= 1000`: an iteration cap ends the series whatever the size of the term - a slowly converging series (exponent close
            # to 1) is cut off long before its terms drop below the tolerance, and the constant comes out too small
            if r is None and isinstance(br.test, ast.BoolOp) and isinstance(br.test.op, ast.Or):
                caps = [v_ for v_ in br.test.values if isinstance(v_, ast.Compare) and len(v_.ops) == 1 and isinstance(v_.ops[0], (ast.Gt, ast.GtE, ast.Eq))
                        and isinstance(v_.left, ast.Name) and v_.left.id == kv and astx.const_value(v_.comparators[0]) is not None]
                if caps:
                    o.violated(sf, br, f"the series also stops when `{txt(caps[0])}`, whatever the size of the term: for a slowly converging series the sum is cut off while its "
                                       "terms are still far above the tolerance (the normalising constant, and with it every probability, is off)", shape_free=True)
                    continue
            if r is None or r[0] not in ("<", "<="):
                o.undecided(f"exit test `{txt(br.test)}` is not |term| < tol", sf, br) if r is None else o.violated(sf, br, f"exit test `{txt(br.test)}` stops while terms are still large")
            else:
                tol = sc.resolve(r[1])
                tv = astx.const_value(tol)
                if tv is None:
                    o.undecided(f"tolerance `{txt(tol)}` is not a constant", sf, br)
                elif not (0 < tv <= 1e-6):
                    o.violated(sf, br, f"series truncated at tolerance {tv}: values no longer agree with the exact law to 1e-6")
                else:
                    o.holds(sf, br, f"only exit: |term| < {tv}")
