"""C06 - manual, empirical, marginal and function loaders yield the documented law.

Constructor chains define what they read (C06.1: definite assignment along __init__ -> create_jdd ->
callees for the 7 loader classes; no loader calls JointDegree.__init__, so nothing is inherited); manual
loader returns the given dictionary untouched (C06.2); frequency table (C06.3); marginal loader, direct:
product of the supplied marginals over a product of per-topology ranges inside the bounds, then normalised
with the total computed before the division loop (C06.4); sampling mode: per-dimension weighted draws over the
same support, zipped by position (C06.5, structural premise only - convergence is the law of large numbers);
function loader: joint function on the whole inclusive box (C06.6); dispatch table and _type tags (C06.7);
a second create_jdd() (made by the entry point) is harmless (C06.8)."""
import ast

from gcmstatic import astx, rules, tm
from gcmstatic.astx import Scope, txt, pat, match
from gcmstatic.attrs import AttrState
from gcmstatic.cfg import CFG
from gcmstatic.conform import conform, conform_attr

EXPLANATION = __doc__

LOADERS = {"MANUAL": "JointDegreeManual", "EMPIRICAL": "JointDegreeEmpirical", "JOINT_FUNCTION": "JointDegreeFunction",
           "MARGINAL": "JointDegreeMarginal", "SPLIT_DEGREE": "JointDegreeSplitDegree", "DELTA": "JointDegreeDelta", "COVER": "JointDegreeCover"}

REF_FREQ = ['''
def convert_jds_to_jdd(self, jds):
    self._jdd = {}
    for it in Counter(jds).items():
        self._jdd[it[0]] = it[1] / len(jds)
''']

REF_NORMALISE = ['''
def normalise_jdd(self):
    total = sum(self._jdd.values())
    for key in self._jdd:
        self._jdd[key] /= total
''']

REF_ALL_JDS = ['''
def generate_all_joint_degrees(self):
    return list(product(*[[k for k in range(b[0], b[1])] for b in self._low_high_degree_bounds]))
''', '''
def generate_all_joint_degrees(self):
    return list(product(*[[k for k in range(b[0], b[1] + 1)] for b in self._low_high_degree_bounds]))
''']

REF_EVAL = ['''
def evaluate_prob_of_joint_degree(self, joint_degree):
    prod = 1.0
    for it in enumerate(joint_degree):
        prod *= self._arr_fp[it[0]](it[1])
    return prod
''']

REF_DIRECT = ['''
def create_jdd_directly(self):
    self._jdd = {}
    for key in self.generate_all_joint_degrees():
        self._jdd[key] = self.evaluate_prob_of_joint_degree(key)
''']

REF_DIRECT.append('''
def create_jdd_directly(self):
    self._jdd = dict((key, 0.0) for key in self.generate_all_joint_degrees())
    for key in self._jdd:
        self._jdd[key] = self.evaluate_prob_of_joint_degree(key)
''')
REF_DIRECT.append('''
def create_jdd_directly(self):
    self._jdd = {key: self.evaluate_prob_of_joint_degree(key) for key in self.generate_all_joint_degrees()}
''')

REF_DRAW = ['''
def draw_from_analytical_joint(self):
    ret = []
    for i in range(len(self._low_high_degree_bounds)):
        ks = [k for k in range(self._low_high_degree_bounds[i][0], self._low_high_degree_bounds[i][1] + 1)]
        ret.append(random.choices(ks, [self._arr_fp[i](k) for k in ks], k=self._n_samples))
    return [tuple(jd) for jd in np.column_stack(ret).tolist()]
''', '''
def draw_from_analytical_joint(self):
    ret = []
    for i in range(len(self._low_high_degree_bounds)):
        ks = [k for k in range(self._low_high_degree_bounds[i][0], self._low_high_degree_bounds[i][1])]
        ret.append(random.choices(ks, [self._arr_fp[i](k) for k in ks], k=self._n_samples))
    return [tuple(jd) for jd in np.column_stack(ret).tolist()]
''', '''
def draw_from_analytical_joint(self):
    ret = []
    for i in range(len(self._low_high_degree_bounds)):
        ks = [k for k in range(self._low_high_degree_bounds[i][0], self._low_high_degree_bounds[i][1] + 1)]
        ret.append(random.choices(ks, [self._arr_fp[i](k) for k in ks], k=self._n_samples))
    return list(zip(*ret))
''']

REF_FUNCTION = ['''
def create_jdd(self):
    self._jdd = {}
    for jd in product(*[[k for k in range(b[0], b[1] + 1)] for b in self._low_high_degree_bounds]):
        self._jdd[jd] = self._fp(jd)
''']


def _param_reads(prog, init):
    """{attr: NAMES member} for `self.attr = params[JointDegreeNames.X]` in a constructor."""
    out = {}
    p = init.params[1] if len(init.params) > 1 else None
    for n in astx.walk_fn(init.node):
        if isinstance(n, (ast.Assign, ast.AnnAssign)) and n.value is not None:
            t = n.targets[0] if isinstance(n, ast.Assign) else n.target
            a = astx.self_attr(t)
            if a and isinstance(n.value, ast.Subscript) and txt(n.value.value) == p:
                m = rules.enum_member(n.value.slice, "JointDegreeNames")
                if m:
                    out.setdefault(a, []).append(m)
    return out


def run(ctx):
    prog = ctx.prog
    ctx.trust("collections.Counter tabulates hashable items", "itertools.product enumerates the full Cartesian product once",
              "random.choices weighted draws", "numpy.column_stack(cols).tolist() keeps column positions",
              "marginal / joint callables supplied by the caller are pure")
    base = prog.cls("JointDegree")

    with ctx.obligation("C06.1", "constructor chains define every attribute they (and the inherited samplers) read", floor=7) as o:
        for mem, cn in LOADERS.items():
            ci = prog.cls(cn)
            init = prog.method(ci, "__init__")
            if init is None or init.cls is base:
                o.undecided(f"{cn} has no constructor of its own", None)
                continue
            st = AttrState(prog, ci)
            s = st.summary(init)
            bad = {a: v for a, v in s.exposed.items() if not a.startswith("__") and not st.is_class_attr(a)}
            if "*" in s.kills:
                o.undecided(f"{cn}: the constructor chain binds attributes by computed name (setattr); which reads stay unbound is not decided", init)
            elif bad:
                for a, sites in bad.items():
                    f2, nd = sites[0]
                    o.violated(f2, nd, f"{cn}: `self.{a}` is read here but never assigned on the path from {cn}.__init__ (AttributeError on construction)")
            missing = {"_jdd", "_motif_sizes"} - s.must
            if "*" in s.kills:
                continue
            if missing and not bad:
                o.violated(init, init.node, f"{cn}: after construction {sorted(missing)} may be unassigned; sample_jds_from_jdd / handshaking_lemma read them")
            if not bad and not missing:
                o.holds(init, init.node, f"{cn}: every self attribute read along __init__ -> create_jdd is definitely assigned first; _jdd and _motif_sizes are set on exit",
                        construct=f"must-assigned at exit: {sorted(s.must)}")

    with ctx.obligation("C06.1", "loaders keep no mutable state shared between instances") as o:
        bad = 0
        for cn in ["JointDegree"] + list(LOADERS.values()):
            ci = prog.cls(cn)
            for a, v in ci.class_attrs.items():
                if isinstance(v, (ast.Dict, ast.List, ast.Set)) or (isinstance(v, ast.Call) and txt(v.func) in ("dict", "list", "set", "defaultdict", "Counter")):
                    writers = []
                    for c2 in [ci] + prog.subclasses(ci):
                        for m in c2.methods.values():
                            for n in astx.walk_fn(m.node):
                                if isinstance(n, (ast.Assign, ast.AugAssign)):
                                    for t in (n.targets if isinstance(n, ast.Assign) else [n.target]):
                                        if isinstance(t, ast.Subscript) and astx.self_attr(t.value) == a:
                                            writers.append((m, n))
                                if isinstance(n, ast.Call) and isinstance(n.func, ast.Attribute) and n.func.attr in astx.MUTATOR_METHODS and astx.self_attr(n.func.value) == a:
                                    writers.append((m, n))
                    rebinds = any(astx.self_attr(t) == a for c2 in [ci] + prog.subclasses(ci) for m in c2.methods.values() for n in astx.walk_fn(m.node)
                                  if isinstance(n, (ast.Assign, ast.AnnAssign)) for t in (n.targets if isinstance(n, ast.Assign) else [n.target]))
                    if writers and not rebinds:
                        bad += 1
                        m, n = writers[0]
                        o.violated(m, n, f"`{cn}.{a}` is a class-level mutable container written through `self.{a}`: it is shared by every {cn} in the process, so a later loader "
                                         "silently re-uses values computed from an earlier loader's inputs")
        if not bad:
            o.holds(None, None, "no class-level mutable container is written through self in the loader classes", construct="class attribute scan")

    with ctx.obligation("C06.2", "manual loader exposes the given dictionary untouched", floor=2) as o:
        ci = prog.cls("JointDegreeManual")
        init = prog.method(ci, "__init__")
        reads = _param_reads(prog, init)
        if reads.get("_jdd") == ["JDD"]:
            o.holds(init, init.node, "_jdd <- params[JDD]", construct="_jdd <- params[JointDegreeNames.JDD]")
        elif "_jdd" in reads:
            o.violated(init, init.node, f"the manual loader takes its distribution from params[{reads['_jdd']}], not from params[JDD]")
        else:
            o.undecided("manual loader does not read params[JDD] into _jdd", init)
        st = AttrState(prog, ci)
        s = st.summary(prog.method(ci, "create_jdd"))
        if "_jdd" in s.kills or "_jdd" in s.stores:
            site = (s.kills.get("_jdd") or s.stores.get("_jdd"))[0]
            o.violated(site[0], site[1], "the manual loader's create_jdd rewrites the caller's dictionary (it must expose the given distribution as is)")
        else:
            o.holds(prog.method(ci, "create_jdd"), None, "create_jdd has no write effect on _jdd", construct="empty effect summary")

    with ctx.obligation("C06.3", "frequency table: count / number of observations, keyed by the observed tuple", floor=3) as o:
        conform_attr(o, prog.method(base, "convert_jds_to_jdd"), "_jdd", REF_FREQ, "convert_jds_to_jdd")
        ci = prog.cls("JointDegreeEmpirical")
        init = prog.method(ci, "__init__")
        reads = _param_reads(prog, init)
        if reads.get("_empirical_jds") == ["JDS"]:
            o.holds(init, init.node, "_empirical_jds <- params[JDS]", construct="_empirical_jds <- params[JointDegreeNames.JDS]")
        else:
            o.violated(init, init.node, f"observed sequence read from params[{reads.get('_empirical_jds')}]") if "_empirical_jds" in reads else o.undecided("params[JDS] not read", init)
        cj = prog.method(ci, "create_jdd")
        body = astx.strip_logging(cj.body)
        if len(body) == 1 and isinstance(body[0], ast.Expr) and match(pat("self.convert_jds_to_jdd(self._empirical_jds)"), body[0].value) is not None:
            o.holds(cj, body[0], "tabulates the observed sequence unmodified")
        else:
            calls = [n for n in astx.walk_fn(cj.node) if isinstance(n, ast.Call) and txt(n.func) == "self.convert_jds_to_jdd"]
            if calls and txt(calls[0].args[0]) != "self._empirical_jds":
                o.violated(cj, calls[0], f"tabulates `{txt(calls[0].args[0])}`, not the observed sequence as given")
            else:
                o.undecided("empirical create_jdd not recognised", cj)

    mg = prog.cls("JointDegreeMarginal")
    with ctx.obligation("C06.4", "marginal loader, direct mode: normalised product of marginals over the product of ranges", floor=5) as o:
        conform(o, prog.method(mg, "generate_all_joint_degrees"), REF_ALL_JDS, "support = product of per-topology ranges inside the bounds")
        conform(o, prog.method(mg, "evaluate_prob_of_joint_degree"), REF_EVAL, "weight = prod_i arr_fp[i](k_i)")
        cd = prog.method(mg, "create_jdd_directly")
        conform_attr(o, cd, "_jdd", REF_DIRECT, "every key of the support gets its weight")
        # normalise_jdd called after the weights are stored
        cfg = CFG(cd.node)
        calls = [s for s in cd.body if isinstance(s, ast.Expr) and match(pat("self.normalise_jdd()"), s.value) is not None]
        stores = [s for s in astx.stmts_in(cd.body) if isinstance(s, ast.Assign) and isinstance(s.targets[0], ast.Subscript) and txt(s.targets[0].value) == "self._jdd"]
        loops = [s for s in cd.body if isinstance(s, ast.For)]
        if not calls:
            o.violated(cd, cd.node, "the product weights are never normalised: the loader does not expose a probability distribution")
        elif (loops and cd.body.index(calls[-1]) > cd.body.index(loops[-1])) or \
                (not loops and all(cd.body.index(calls[-1]) > cd.body.index(s) for s in cd.body if isinstance(s, (ast.Assign, ast.AnnAssign)))):
            o.holds(cd, calls[-1], "normalise_jdd() runs after all weights are stored")
        else:
            o.violated(cd, calls[-1], "normalise_jdd() runs before the weights are stored")
        nz = prog.method(base, "normalise_jdd")
        conform_attr(o, nz, "_jdd", REF_NORMALISE, "each entry divided by the total computed before the division loop")
        # a tolerance shortcut (`if abs(total - 1) < eps: return`, math.isclose) leaves a table that sums to 1 - eps/2 as it is:
        # the exposed law is then NOT the normalised one (exact tests `total == 1` / `not self._jdd` change nothing and are fine)
        for iff in [n for n in astx.walk_fn(nz.node) if isinstance(n, ast.If)]:
            leaves_ = iff.body and isinstance(iff.body[-1], (ast.Return, ast.Continue, ast.Break))
            tol = [x for x in ast.walk(iff.test) if (isinstance(x, ast.Compare) and len(x.ops) == 1 and isinstance(x.ops[0], (ast.Lt, ast.LtE))
                                                     and isinstance(x.left, ast.Call) and txt(x.left.func) in ("abs", "math.fabs", "np.abs", "numpy.abs", "np.fabs")
                                                     and isinstance(astx.const_value(x.comparators[0]), (int, float)) and astx.const_value(x.comparators[0]) > 0)
                   or (isinstance(x, ast.Call) and txt(x.func).split(".")[-1] in ("isclose", "allclose", "round"))]
            if leaves_ and tol:
                o.violated(nz, iff, f"normalise_jdd leaves the table as it is when `{txt(tol[0])[:60]}`: weights whose total is merely CLOSE to 1 are exposed un-normalised "
                                    "(the loaders promise the normalised product / frequency exactly)", shape_free=True)
        cj = prog.method(mg, "create_jdd")
        ifs = [s for s in cj.body if isinstance(s, ast.If)]
        if len(ifs) == 1:
            t = ifs[0].test
            neg = isinstance(t, ast.UnaryOp) and isinstance(t.op, ast.Not)
            flag = txt(t.operand if neg else t)
            b1 = [txt(s.value.func) for s in ifs[0].body if isinstance(s, ast.Expr) and isinstance(s.value, ast.Call)]
            b2 = [txt(s.value.func) for s in ifs[0].orelse if isinstance(s, ast.Expr) and isinstance(s.value, ast.Call)]
            direct_branch, sampling_branch = (b1, b2) if neg else (b2, b1)
            if flag == "self._use_sampling" and direct_branch == ["self.create_jdd_directly"] and sampling_branch == ["self.create_jdd_by_sampling"]:
                o.holds(cj, ifs[0], "direct mode unless use_sampling")
            elif flag == "self._use_sampling" and direct_branch == ["self.create_jdd_by_sampling"]:
                o.violated(cj, ifs[0], "the mode switch is inverted: sampling is used when use_sampling is false")
            else:
                o.undecided("mode switch not recognised", cj, ifs[0])
        else:
            o.undecided("mode switch not recognised", cj)

    with ctx.obligation("C06.5", "marginal loader, sampling mode: per-dimension weighted draws over the same support, zipped by position", floor=2) as o:
        conform(o, prog.method(mg, "draw_from_analytical_joint"), REF_DRAW, "per-dimension draws")
        cs = prog.method(mg, "create_jdd_by_sampling")
        body = astx.strip_logging(cs.body)
        if len(body) == 1 and isinstance(body[0], ast.Expr) and match(pat("self.convert_jds_to_jdd(self.draw_from_analytical_joint())"), Scope(cs.node).resolve(body[0].value)) is not None:
            o.holds(cs, body[0], "samples go through the frequency table")
        else:
            o.undecided("create_jdd_by_sampling not recognised", cs)

    with ctx.obligation("C06.6", "function loader: joint function evaluated on the whole inclusive degree box") as o:
        fl = prog.cls("JointDegreeFunction")
        conform_attr(o, prog.method(fl, "create_jdd"), "_jdd", REF_FUNCTION, "jdd[jd] = fp(jd) for jd in the box")

    with ctx.obligation("C06.7", "type dispatch table and _type tags", floor=8) as o:
        rf = prog.func("JointDegreeFactory.resolve_joint_degree")
        tparam, pparam = rf.params[0], rf.params[1]
        arms, complete = rules.dispatch_arms(prog, rf, tparam, "JointDegreeType")
        if not arms or not any(m in arms for m in LOADERS):
            o.undecided("resolve_joint_degree is not a recognised dispatch on the type (if/elif chain, early returns, match, or table lookup)", rf)
        else:
            for mem, cn in LOADERS.items():
                if mem not in arms:
                    if complete:
                        o.violated(rf, rf.node, f"no arm for JointDegreeType.{mem}")
                    else:
                        o.undecided(f"no arm found for JointDegreeType.{mem}, but the dispatch is only partly understood", rf)
                    continue
                b = match(pat("$cls($p)"), arms[mem].value)
                if b is None:
                    o.undecided(f"arm {mem} returns `{txt(arms[mem].value)}`", rf, arms[mem])
                elif txt(b["cls"]) != cn:
                    o.violated(rf, arms[mem], f"type {mem} constructs {txt(b['cls'])}, expected {cn}: the entry point yields a different distribution than direct construction")
                elif txt(b["p"]) != pparam:
                    o.violated(rf, arms[mem], f"constructor receives `{txt(b['p'])}`, not the caller's params")
                else:
                    o.holds(rf, arms[mem], f"{mem} -> {cn}(params)")
        for mem, cn in LOADERS.items():
            ci = prog.cls(cn)
            v = ci.class_attrs.get("_type")
            if v is None:
                continue
            m = rules.enum_member(v, "JointDegreeType")
            if m is not None and m != mem:
                o.violated(None, v, f"{cn}._type is JointDegreeType.{m}, its dispatch key is {mem}", construct=f"{cn}._type = {txt(v)}")
        lf = prog.func("JointDegreeDistribution.load_joint_degree")
        sc = Scope(lf.node)
        rets = [n for n in astx.walk_fn(lf.node) if isinstance(n, ast.Return) and n.value is not None]
        ok = False
        for r in rets:
            v = sc.resolve(r.value)
            if isinstance(v, ast.Call) and v.keywords and all(k.arg in rf.params for k in v.keywords) and txt(v.func) == "JointDegreeFactory.resolve_joint_degree":
                # arguments passed by name: put them in the factory's parameter order
                import copy as _copy
                byname = {k.arg: k.value for k in v.keywords}
                rest = [p_ for p_ in rf.params[len(v.args):]]
                if set(rest) == set(byname):
                    v = ast.Call(func=v.func, args=list(v.args) + [sc.resolve(byname[p_]) for p_ in rest], keywords=[])
            b = match(pat("JointDegreeFactory.resolve_joint_degree(JointDegreeType($p[JointDegreeNames.JOINT_DEGREE_TYPE]), $q)"), v)
            if b is not None and txt(b["p"]) == lf.params[0] == txt(b["q"]):
                ok = True
                o.holds(lf, r, "entry point builds the enum from params[JOINT_DEGREE_TYPE] and returns the factory's loader")
        if not ok:
            o.undecided("load_joint_degree does not return the factory's loader for params[JOINT_DEGREE_TYPE]", lf)
        # between the factory and the hand-over the entry point only (re)builds the table: any other step that rewrites the loader's
        # table makes "through the entry point" differ from "constructed directly"
        rn = [txt(r.value) for r in rets if isinstance(r.value, ast.Name)]
        for ld in set(rn):
            for c_ in [n for n in astx.walk_fn(lf.node) if isinstance(n, ast.Call) and isinstance(n.func, ast.Attribute) and txt(n.func.value) == ld and n.func.attr != "create_jdd"]:
                writes = False
                for cn in ["JointDegree"] + list(LOADERS.values()):
                    cc = prog.cls(cn)
                    m_ = prog.method(cc, c_.func.attr) if cc is not None else None
                    if m_ is not None:
                        sm_ = AttrState(prog, cc).summary(m_)
                        if "_jdd" in sm_.kills or "_jdd" in sm_.stores:
                            writes = True
                if writes:
                    o.violated(lf, c_, f"the entry point also runs `{txt(c_)}` on the loader, which rewrites its table: loading through the entry point no longer gives the "
                                       "distribution that constructing the loader directly gives", shape_free=True)
                else:
                    o.undecided(f"the entry point also calls `{txt(c_)[:60]}` on the loader", lf, c_)
            for st_ in [n for n in astx.walk_fn(lf.node) if isinstance(n, (ast.Assign, ast.AugAssign, ast.AnnAssign))]:
                for t_ in (st_.targets if isinstance(st_, ast.Assign) else [st_.target]):
                    if isinstance(t_, (ast.Attribute, ast.Subscript)) and astx.root_name(t_) == ld:
                        o.violated(lf, st_, f"the entry point writes `{txt(t_)}` on the loader it hands back: loading through the entry point no longer gives the "
                                            "distribution that constructing the loader directly gives", shape_free=True)

    with ctx.obligation("C06.8", "a second create_jdd() never accumulates on a stale table", floor=7) as o:
        for mem, cn in LOADERS.items():
            ci = prog.cls(cn)
            cj = prog.method(ci, "create_jdd")
            st = AttrState(prog, ci)
            s = st.summary(cj)
            if "_jdd" in s.exposed:
                f2, nd = s.exposed["_jdd"][0]
                o.violated(f2, nd, f"{cn}.create_jdd reads/accumulates into self._jdd before re-binding it: the entry point's second create_jdd() call works on the "
                                   "already-normalised table of the first (or on an unbound attribute)")
            elif "_jdd" not in s.kills and ("_jdd" in s.stores):
                o.violated(cj, cj.node, f"{cn}.create_jdd writes into self._jdd without re-binding it")
            else:
                o.holds(cj, cj.node, f"{cn}.create_jdd: " + ("no effect on _jdd" if "_jdd" not in s.kills else "_jdd is re-bound before anything is accumulated into it"),
                        construct=f"{cn}: kills={sorted(s.kills)} stores={sorted(s.stores)}")
