"""C01 - generated graphs realise exactly the requested joint degree sequence.

A counting claim per RNG outcome.  It follows from a chain of shape facts, each checked on the source:
stub multiset (C01.1: vertex v repeated jds[v][k] times, v from 0), permutation only (C01.2), every list
consumed whole in chunks of its own size (C01.3), per-topology tables indexed by the induction variable of
the loop consuming that topology (C01.4), one build call per chunk on the chunk itself with the result kept
whole (C01.5), jds carried through unchanged (C01.6), the network variant delegates with matching keys
(C01.7), dispatch table (C01.8), built-in build callbacks (C01.9)."""
import ast

from gcmstatic import astx, rules, tm
from gcmstatic.astx import Scope, txt, pat, match
from gcmstatic.pm import AnalysisError
from . import gen_common

EXPLANATION = __doc__

DISPATCH_SPEC = {"FAST": "GCMAlgorithmFast", "NETWORK": "GCMAlgorithmNetwork", "MOTIFS": "GCMAlgorithmCustomMotifs"}


def _stub_shape(g, o):
    """C01.1 on one generator."""
    fn = g.fn
    v = g.stubs_def.value
    ITER = {"chain.from_iterable": "itertools.chain.from_iterable", "starmap": "itertools.starmap", "repeat": "itertools.repeat"}
    if not isinstance(v, ast.ListComp) or len(v.generators) < 1:
        o.undecided("stub construction is not a list comprehension", fn, v)
        return
    gen0 = v.generators[0]
    if gen0.ifs:
        o.violated(fn, gen0.ifs[0], "the per-topology stub lists are filtered: some topology's stubs are dropped")
        return
    # form A: [list(chain.from_iterable(starmap(repeat, r))) for r in map(enumerate, zip(*jds))]
    if len(v.generators) == 1:
        b = match(pat("map($e, zip(*$j))"), gen0.iter)
        form_b = match(pat("zip(*$j)"), gen0.iter)
        if b is not None and txt(b["j"]) == g.jds:
            if txt(b["e"]) != "enumerate":
                # lambda c: enumerate(c, 1) etc.
                e = b["e"]
                if isinstance(e, ast.Lambda) and isinstance(e.body, ast.Call) and txt(e.body.func) == "enumerate":
                    start = e.body.args[1] if len(e.body.args) > 1 else next((k.value for k in e.body.keywords if k.arg == "start"), None)
                    if start is not None and astx.const_value(start) != 0:
                        o.violated(fn, e, f"vertex ids are enumerated from {txt(start)}: vertex N would appear and vertex 0 never")
                        return
                o.undecided(f"per-column transform `{txt(b['e'])}` not recognised", fn, v)
                return
            r = txt(gen0.target)
            elt = v.elt
            while isinstance(elt, ast.Call) and txt(elt.func) == "list" and len(elt.args) == 1:
                elt = elt.args[0]
            bb = match(pat("$cf($sm($rp, $r))"), elt)
            if bb is None or txt(bb["r"]) != r:
                o.undecided(f"stub list element `{txt(v.elt)}` not recognised", fn, v.elt)
                return
            names = {k: g.ext(bb[k]) for k in ("cf", "sm", "rp")}
            want = {"cf": "itertools.chain.from_iterable", "sm": "itertools.starmap", "rp": "itertools.repeat"}
            if names != want:
                o.undecided(f"stub plumbing {names} is not chain.from_iterable(starmap(repeat, .))", fn, v.elt)
                return
            o.holds(fn, v, f"stubs[k] = bag{{ v ^ {g.jds}[v][k] : v = 0..N-1 }} via zip(*{g.jds}) -> enumerate -> starmap(repeat) -> chain")
            return
        if form_b is not None and txt(form_b["j"]) == g.jds:
            # form B: [[v for v, d in enumerate(col) for _ in range(d)] for col in zip(*jds)]
            col = txt(gen0.target)
            e = v.elt
            # form C: [list(chain.from_iterable(repeat(v, d) for v, d in enumerate(col))) for col in zip(*jds)]
            e_c = e
            while isinstance(e_c, ast.Call) and txt(e_c.func) == "list" and len(e_c.args) == 1:
                e_c = e_c.args[0]
            bc_ = match(pat("$cf($g)"), e_c)
            if bc_ is not None and g.ext(bc_["cf"]) == "itertools.chain.from_iterable" and isinstance(bc_["g"], (ast.GeneratorExp, ast.ListComp)) and len(bc_["g"].generators) == 1:
                gg = bc_["g"].generators[0]
                be = match(pat("enumerate($c)"), gg.iter)
                bes = match(pat("enumerate($c, $s)"), gg.iter)
                if bes is not None and astx.const_value(bes["s"]) not in (0, None):
                    o.violated(fn, gg.iter, f"vertex ids are enumerated from {txt(bes['s'])}: vertex N would appear and vertex 0 never")
                    return
                if be is not None and txt(be["c"]) == col and isinstance(gg.target, ast.Tuple) and len(gg.target.elts) == 2 and not gg.ifs:
                    vv, dd = txt(gg.target.elts[0]), txt(gg.target.elts[1])
                    br = match(pat("$rp($a, $n)"), bc_["g"].elt)
                    if br is not None and g.ext(br["rp"]) == "itertools.repeat" and txt(br["a"]) == vv and txt(br["n"]) == dd:
                        o.holds(fn, v, "stubs[k] = chain of repeat(v, d) for (v, d) in enumerate(column k)")
                        return
                    if br is not None and g.ext(br["rp"]) == "itertools.repeat" and txt(br["a"]) == vv:
                        o.violated(fn, bc_["g"].elt, f"vertex v is repeated `{txt(br['n'])}` times instead of its degree {dd}")
                        return
                    br2 = match(pat("[$a] * $n"), bc_["g"].elt) or match(pat("($a,) * $n"), bc_["g"].elt)
                    if br2 is not None and txt(br2["a"]) == vv and txt(br2["n"]) == dd:
                        o.holds(fn, v, "stubs[k] = chain of [v] * d for (v, d) in enumerate(column k)")
                        return
            if isinstance(e, ast.ListComp) and len(e.generators) == 2:
                g1, g2 = e.generators
                b1 = match(pat("enumerate($c)"), g1.iter)
                b1s = match(pat("enumerate($c, $s)"), g1.iter)
                if b1s is not None and astx.const_value(b1s["s"]) not in (0, None):
                    o.violated(fn, g1.iter, f"vertex ids are enumerated from {txt(b1s['s'])}: vertex N would appear and vertex 0 never")
                    return
                if b1 is not None and txt(b1["c"]) == col and isinstance(g1.target, ast.Tuple) and len(g1.target.elts) == 2 \
                        and not g1.ifs and not g2.ifs:
                    vv, dd = txt(g1.target.elts[0]), txt(g1.target.elts[1])
                    if txt(e.elt) == vv and txt(g2.iter) == f"range({dd})":
                        o.holds(fn, v, "stubs[k] = [v repeated d times for (v, d) in enumerate(column k)]")
                        return
                    if txt(e.elt) == vv:
                        o.violated(fn, g2.iter, f"vertex v is repeated `{txt(g2.iter)}` times instead of its degree {dd}")
                        return
            # the vertex id is the POSITION in the column of the joint degree sequence: an enumerate over a filtered, sorted or
            # sliced copy of the column numbers the survivors 0, 1, 2, .. instead (ranks, not vertex ids)
            for en in [n_ for n_ in ast.walk(e) if isinstance(n_, ast.Call) and txt(n_.func) == "enumerate" and n_.args]:
                src = en.args[0]
                derived = None
                if isinstance(src, (ast.GeneratorExp, ast.ListComp)) and len(src.generators) == 1 and txt(src.generators[0].iter) == col and src.generators[0].ifs:
                    derived = f"the entries of the column that pass `{txt(src.generators[0].ifs[0])}`"
                elif isinstance(src, ast.Call) and txt(src.func) == "filter" and len(src.args) == 2 and txt(src.args[1]) == col:
                    derived = f"the entries of the column that pass `{txt(src.args[0])}`"
                elif isinstance(src, ast.Call) and txt(src.func) in ("sorted", "reversed", "set") and src.args and txt(src.args[0]) == col:
                    derived = f"`{txt(src)}`"
                elif isinstance(src, ast.Subscript) and txt(src.value) == col and isinstance(src.slice, ast.Slice) and (src.slice.lower is not None or src.slice.step is not None):
                    derived = f"the slice `{txt(src)}`"
                if derived is not None:
                    o.violated(fn, en, f"vertex ids are taken from enumerate over {derived}: a vertex is numbered by its rank among those entries, not by its position in the joint degree "
                                       "sequence - stubs are credited to the wrong vertices", shape_free=True)
                    return
            o.undecided("nested stub construction not recognised", fn, v)
            return
    o.undecided("stub construction not recognised", fn, v)


def _skips(o, fn, loop, induction):
    """break/continue/return directly in a consumption loop body: unconditional -> violated; guarded by a
    test that only mentions the loop's own induction variables and constants -> violated (a topology or
    chunk is skipped for some valid input); any other guard -> undecided (not accused)."""
    for s in loop.body:
        if isinstance(s, (ast.Break, ast.Continue, ast.Return)):
            o.violated(fn, s, "unconditional jump in the consumption loop: remaining stubs are never built into motifs")
        elif isinstance(s, ast.If) and any(isinstance(x, (ast.Break, ast.Continue, ast.Return)) for b in (s.body, s.orelse) for y in b for x in ast.walk(y)):
            jumping = [b for b in (s.body, s.orelse) if any(isinstance(x, (ast.Break, ast.Continue, ast.Return)) for y in b for x in ast.walk(y))]
            if all(any(isinstance(x, ast.Call) and isinstance(x.func, ast.Attribute) and x.func.attr in ("extend", "append") and "edge_list" in txt(x.func.value) for y in b for x in ast.walk(y))
                   and not any(isinstance(x, (ast.Break, ast.Return)) for y in b for x in ast.walk(y)) for b in jumping):
                continue   # `if ...: <record the motif>; continue` is an if/else arm, not a skipped chunk
            # `if not X[k]: break` - THIS item is empty, so the whole loop is left: every later item is dropped with it
            t0 = s.test.operand if isinstance(s.test, ast.UnaryOp) and isinstance(s.test.op, ast.Not) else None
            if t0 is None and isinstance(s.test, ast.Compare) and len(s.test.ops) == 1 and isinstance(s.test.ops[0], ast.Eq) and astx.const_value(s.test.comparators[0]) == 0 \
                    and isinstance(s.test.left, ast.Call) and txt(s.test.left.func) == "len" and s.test.left.args:
                t0 = s.test.left.args[0]
            leaves_loop = any(isinstance(x, (ast.Break, ast.Return)) for b in jumping for y in b for x in ast.walk(y))
            derived = set(induction)
            for s2 in loop.body:
                if isinstance(s2, (ast.Assign, ast.AnnAssign)) and s2.value is not None and astx.names_in(s2.value) & derived:
                    derived |= astx.names_in(s2.targets[0] if isinstance(s2, ast.Assign) else s2.target)
            if t0 is not None and isinstance(t0, ast.Subscript) and astx.names_in(t0.slice) & derived and leaves_loop and jumping == [s.body]:
                o.violated(fn, s, f"`if {txt(s.test)}: break` leaves the loop as soon as ONE item has no stubs: the items that come after it (which may have stubs) are never "
                                  "built into motifs - an empty item calls for `continue`", shape_free=True)
            elif astx.names_in(s.test) <= set(induction) | {"len"}:
                o.violated(fn, s, f"`if {txt(s.test)}` skips part of the stubs for some valid joint degree sequence")
            else:
                o.undecided(f"guarded skip `if {txt(s.test)}` in a consumption loop", fn, s)


def run(ctx):
    prog = ctx.prog
    ctx.trust("itertools zip/enumerate/map/starmap/repeat/chain.from_iterable, list.pop, random.shuffle (multiset preserving)",
              "iteration_utilities.grouper(seq, n) yields consecutive n-chunks and keeps a short tail unless truncate/fillvalue is given",
              "build callbacks are pure and total")
    gens = {}
    for qn in gen_common.GENERATORS:
        try:
            gens[qn] = gen_common.Gen(prog, qn)
        except AnalysisError as e:
            with ctx.obligation("C01.1", "stub multiset") as o:
                o.undecided(str(e))
    fast = gens.get(gen_common.GENERATORS[0])
    cust = gens.get(gen_common.GENERATORS[1])

    # sampling WITH replacement in place of a permutation: `random.choices(xs, k=len(xs))` keeps the length but not the multiset -
    # a vertex no longer occupies exactly jds[v][k] slots.  Independent of how the rest of the generator is written.
    with ctx.obligation("C01.2", "stub lists are permuted, never re-sampled") as o:
        for qn in gen_common.GENERATORS:
            f_ = prog.func(qn)
            if f_ is None:
                continue
            hits = [n for n in astx.walk_fn(f_.node) if isinstance(n, ast.Call) and prog.external(f_.module, n.func) in ("random.choices", "numpy.random.choice")]
            for n in hits:
                kk = next((k.value for k in n.keywords if k.arg in ("k", "size")), None)
                if n.args and kk is not None and txt(kk) == f"len({txt(n.args[0])})" and not any(k.arg == "replace" and astx.const_value(k.value) is False for k in n.keywords):
                    o.violated(f_, n, f"`{txt(n)[:70]}` draws the stubs WITH replacement: the list keeps its length but not its content - some vertex gets more slots than its degree "
                                      "and another fewer, while the joint degree sequence is reported unchanged", sure=True)
            if not hits:
                o.holds(f_, f_.node, "no sampling with replacement in the generator", construct="scan for random.choices")

    with ctx.obligation("C01.1", "stub multiset: vertex v repeated jds[v][k] times, v from 0", floor=2) as o:
        for g in gens.values():
            _stub_shape(g, o)

    with ctx.obligation("C01.1", "every exit of a generator comes after its stub loops") as o:
        for qn in gen_common.GENERATORS:
            gen_common.early_exits(o, prog, qn)

    with ctx.obligation("C01.2", "between construction and grouping the stub lists are only permuted", floor=2) as o:
        for g in gens.values():
            effs = [e for e in rules.effects_on(prog, g.fn, [g.stubs], scope=g.sc) if not g.in_build(e.node)]
            bad = [e for e in effs if e.kind != "ext:random.shuffle"]
            # an exchange of two elements of the same list (`x[i], x[j] = x[j], x[i]`) keeps the multiset
            def _is_swap(node):
                st_ = g.par.stmt_of(node) if not isinstance(node, ast.stmt) else node
                return isinstance(st_, ast.Assign) and len(st_.targets) == 1 and isinstance(st_.targets[0], ast.Tuple) and isinstance(st_.value, ast.Tuple) \
                    and len(st_.targets[0].elts) == 2 and all(isinstance(e_, ast.Subscript) for e_ in st_.targets[0].elts) \
                    and [txt(e_) for e_ in st_.targets[0].elts] == [txt(e_) for e_ in reversed(st_.value.elts)] \
                    and txt(st_.targets[0].elts[0].value) == txt(st_.targets[0].elts[1].value)
            bad = [e for e in bad if not _is_swap(e.node)]
            for e in bad:
                o.violated(g.fn, e.node, f"{e.kind} on {e.path} changes the stub multiset (stubs dropped, duplicated or re-ordered)")
            if not bad:
                o.holds(g.fn, g.stubs_def, f"only effect on `{g.stubs}`: random.shuffle ({len(effs)} site(s)); bound once")

    # ------------------------------------------------------------------ Fast consumption
    with ctx.obligation("C01.3", "fast: every stub list consumed whole in chunks of its own size") as o, \
            ctx.obligation("C01.4", "fast: per-topology tables indexed by the consuming loop's induction variable", floor=3) as o4, \
            ctx.obligation("C01.5", "fast: one build call per chunk, on the chunk, result kept whole") as o5:
        if fast is None:
            raise AnalysisError("fast generator not analysable")
        g = fast
        fn = g.fn
        cons = [l for l in g.stub_loops() if not any(g.par.inside(c, l[0]) for c, _ in g.shuffle_calls())]
        if len(cons) != 1:
            o.undecided(f"expected one consumption loop over `{g.stubs}`, found {len(cons)}", fn)
            raise AnalysisError("consumption loop not found")
        node, form, elem, idx = cons[0]
        if form in ("sliced", "enumerate-sliced"):
            o.violated(fn, node.iter, f"the consumption loop iterates `{txt(node.iter)}`: some topology's stubs are never matched")
        elif form == "enumerate-filtered":
            o.violated(fn, node.iter, f"the stub lists are filtered BEFORE they are enumerated (`{txt(node.iter)}`): after a skipped (e.g. empty) topology every later topology gets "
                                      "the index of its predecessor and is grouped with the wrong motif size, build callback and edge name")
        elif form != "enumerate":
            o.undecided(f"consumption loop form `{form}` not recognised", fn, node)
        else:
            it = node.iter
            start = it.args[1] if len(it.args) > 1 else next((k.value for k in it.keywords if k.arg == "start"), None)
            if start is not None and astx.const_value(start) != 0:
                o.violated(fn, it, f"enumerate(.., {txt(start)}): topology index is shifted against the stub lists")
            else:
                o.holds(fn, node, f"for {idx}, {elem} in enumerate({g.stubs}) visits every topology")
        # inner chunk loop
        inner = [s for s in astx.stmts_in(node.body) if isinstance(s, ast.For)]
        chunk_loops = [s for s in inner if isinstance(s.iter, ast.Call) and g.ext(s.iter.func) == "iteration_utilities.grouper"]
        if len(chunk_loops) != 1:
            o.undecided(f"expected one grouper loop, found {len(chunk_loops)}", fn, node)
            raise AnalysisError("chunk loop not found")
        cl = chunk_loops[0]
        call = cl.iter
        if call.keywords and not all(k.arg in ("truncate", "fillvalue") for k in call.keywords):
            o.undecided("grouper called with unexpected keyword arguments", fn, call)
        elif len(call.args) != 2:
            o.undecided("grouper called with unexpected arguments", fn, call)
        else:
            if call.keywords:
                # truncate= / fillvalue= only change what happens to a SHORT last group, and C01 speaks about sequences that
                # satisfy the handshake condition: there every stub list is a whole number of groups and no short group exists
                # (confirmed by a differential run of both variants on handshake-consistent sequences: identical output)
                kws = ", ".join(f"{k.arg}={txt(k.value)}" for k in call.keywords)
                o.holds(fn, call, f"grouper(.., {kws}) differs from the plain call only on a short last group, which a handshake-consistent sequence never produces")
            a0, a1 = call.args
            if txt(a0) == elem:
                o.holds(fn, call, f"grouper({elem}, ...) chunks the whole stub list")
            elif isinstance(a0, ast.Subscript) and txt(a0.value) == elem:
                o.violated(fn, a0, f"grouper over `{txt(a0)}`: part of the stub list is never grouped")
            else:
                o.undecided(f"grouper's first argument `{txt(a0)}` is not the stub list", fn, call)
            size_t = g.sc.resolve(a1)
            if txt(size_t) == f"self._motif_sizes[{idx}]":
                o.holds(fn, a1, f"chunk size self._motif_sizes[{idx}]")
            elif isinstance(size_t, ast.Subscript) and txt(size_t.value) == "self._motif_sizes":
                pass  # reported by C01.4
            else:
                t = rules.term_of(a1, g.sc)
                if tm.compare(t, tm.parse(f"self._motif_sizes[{idx}]")) == "different" and "self._motif_sizes" in tm.leaves(t):
                    o.violated(fn, a1, f"chunk size is {tm.show(t)}, not the motif size of topology {idx}")
                else:
                    o.undecided(f"chunk size `{txt(a1)}` not recognised", fn, a1)
        # skips
        for lp in (node, cl):
            _skips(o, fn, lp, {idx, elem} | astx.names_in(cl.target))
        # C01.4 table subscripts
        for n in astx.walk_fn(fn.node):
            if isinstance(n, ast.Subscript) and isinstance(n.value, ast.Attribute) and astx.self_attr(n.value) in gen_common.TABLES:
                if not g.par.inside(n, node):
                    o4.undecided(f"{txt(n)} used outside the consumption loop", fn, n)
                    continue
                it = txt(g.sc.resolve(n.slice))
                if it == idx:
                    o4.holds(fn, n, f"{txt(n)} indexed by the topology being consumed")
                else:
                    o4.violated(fn, n, f"{txt(n)}: index `{it}` is not the induction variable `{idx}` of the loop consuming that topology's stubs")
        # C01.5
        builds = [c for c in g.build_calls() if g.par.inside(c, cl)]
        allb = g.build_calls()
        chunk = txt(cl.target)
        if len(builds) != 1 or len(allb) != 1:
            o5.undecided(f"expected exactly one build call inside the chunk loop, found {len(builds)} (of {len(allb)})", fn, cl)
        else:
            bc = builds[0]
            st = g.par.stmt_of(bc)
            if not any(st is s for s in cl.body):
                o5.violated(fn, bc, "the build call is conditional: some chunks produce no motif")
            elif len(bc.args) != 1 or bc.keywords:
                o5.undecided("build callback called with unexpected arguments", fn, bc)
            else:
                a = g.sc.resolve(bc.args[0])
                while isinstance(a, ast.Call) and txt(a.func) in ("list", "tuple") and len(a.args) == 1:
                    a = a.args[0]
                sub_base = a.value if isinstance(a, ast.Subscript) else None
                while isinstance(sub_base, ast.Call) and txt(sub_base.func) in ("list", "tuple") and len(sub_base.args) == 1:
                    sub_base = sub_base.args[0]
                if txt(a) == chunk:
                    o5.holds(fn, bc, f"builder applied to the whole chunk `{chunk}`")
                elif sub_base is not None and txt(sub_base) == chunk:
                    o5.violated(fn, bc, f"builder applied to `{txt(a)}`, not the whole chunk: drawn stubs are discarded")
                else:
                    o5.undecided(f"builder argument `{txt(bc.args[0])}` not recognised", fn, bc)
            # result kept whole: edge_list.extend(es)
            cols = g.column_extends()["edge_list"]
            es_name = None
            if isinstance(st, (ast.Assign, ast.AnnAssign)):
                tg = st.targets[0] if isinstance(st, ast.Assign) else st.target
                es_name = txt(tg)
            for c in cols:
                if isinstance(c, ast.Call) and c.func.attr == "extend" and len(c.args) == 1:
                    at = txt(c.args[0])
                    if at == es_name or c.args[0] is bc:
                        o5.holds(fn, c, "every edge the builder returned is appended")
                    elif isinstance(c.args[0], ast.Subscript) and txt(c.args[0].value) == es_name:
                        o5.violated(fn, c, f"only `{at}` of the builder's edges is kept")
                    else:
                        o5.undecided(f"edge_list.extend({at}) not recognised", fn, c)
                else:
                    o5.undecided("edge column written by something other than extend(es)", fn, c)

    # ------------------------------------------------------------------ Custom consumption
    with ctx.obligation("C01.3", "custom: partition in chunks of the topology's own size; every orbit pops one chunk per motif", floor=4) as o, \
            ctx.obligation("C01.4", "custom: per-topology tables indexed coherently", floor=4) as o4, \
            ctx.obligation("C01.5", "custom: one build call per motif on the flattened popped chunks") as o5:
        if cust is None:
            raise AnalysisError("custom generator not analysable")
        g = cust
        fn = g.fn
        # partition helper
        pf = prog.method(fn.cls, "partition")
        if pf is None:
            o.undecided("GCMAlgorithmCustomMotifs.partition not found")
        else:
            body = astx.strip_logging(pf.body)
            ok = False
            if len(body) == 1 and isinstance(body[0], ast.Return) and len(pf.params) == 3:
                lst, n_ = pf.params[1], pf.params[2]
                b = match(pat(f"[{lst}[$i:$hi] for $i in range($lo, $stop, $step)]"), body[0].value)
                if b is not None:
                    i = txt(b["i"])
                    facts = {
                        "start 0": tm.compare(rules.term_of(b["lo"], Scope(pf.node)), tm.ZERO),
                        f"stop len({lst})": tm.compare(rules.term_of(b["stop"], Scope(pf.node)), tm.parse(f"len({lst})")),
                        f"step {n_}": tm.compare(rules.term_of(b["step"], Scope(pf.node)), tm.sym(n_)),
                        f"slice width {n_}": tm.compare(tm.sub(rules.term_of(b["hi"], Scope(pf.node)), tm.sym(i)), tm.sym(n_)),
                    }
                    badf = [k for k, v in facts.items() if v == "different"]
                    und = [k for k, v in facts.items() if v == "undecided"]
                    if badf:
                        o.violated(pf, body[0], f"partition is not consecutive {n_}-chunks of the whole list: wrong {', '.join(badf)}")
                    elif und:
                        o.undecided(f"partition facts undecided: {und}", pf, body[0])
                    else:
                        o.holds(pf, body[0], f"partition(lst, n) = consecutive n-chunks of the whole list")
                    ok = True
            if not ok and len(body) == 1 and isinstance(body[0], ast.Return) and len(pf.params) == 3:
                # `[lst[i:i + n] for i in range(K)]`: a unit-step index with a width-n slice gives OVERLAPPING windows, not chunks
                lst, n_ = pf.params[1], pf.params[2]
                b1 = match(pat(f"[{lst}[$i:$hi] for $i in range($stop)]"), body[0].value) or match(pat(f"[{lst}[$i:$hi] for $i in range(0, $stop)]"), body[0].value)
                if b1 is not None and tm.compare(tm.sub(rules.term_of(b1["hi"], Scope(pf.node)), tm.sym(txt(b1["i"]))), tm.sym(n_)) == "equal":
                    o.violated(pf, body[0], f"partition slices `{lst}[i:i + {n_}]` for CONSECUTIVE i (`{txt(body[0].value.generators[0].iter)}`): the chunks overlap (each stub but the first "
                                            f"appears in up to {n_} of them) and the tail of the list is never used", shape_free=True)
                    ok = True
            if not ok and len(body) == 1 and isinstance(body[0], ast.Return) and len(pf.params) == 3:
                # the chunking idiom is n references to ONE iterator (`zip(*[iter(lst)] * n)`); n INDEPENDENT iterators
                # (`zip(*[iter(lst) for _ in range(n)])`, `zip(*[lst] * n)`) walk the list in lock-step: every element n times
                lst, n_ = pf.params[1], pf.params[2]
                v0 = body[0].value
                inner = v0.args[0] if isinstance(v0, ast.Call) and txt(v0.func) in ("list", "tuple") and len(v0.args) == 1 else v0
                if isinstance(inner, ast.Call) and txt(inner.func) in ("zip", "itertools.zip_longest", "zip_longest") and len(inner.args) == 1 and isinstance(inner.args[0], ast.Starred):
                    star = inner.args[0].value
                    fresh = (isinstance(star, (ast.ListComp, ast.GeneratorExp)) and txt(star.elt) in (f"iter({lst})", lst) and len(star.generators) == 1
                             and txt(star.generators[0].iter) in (f"range({n_})", f"range(0, {n_})")) \
                        or (isinstance(star, ast.BinOp) and isinstance(star.op, ast.Mult) and txt(star.left) == f"[{lst}]" and txt(star.right) == n_)
                    if fresh:
                        o.violated(pf, body[0], f"`{txt(v0)[:70]}` zips {n_} INDEPENDENT walks of `{lst}`: each group is one stub repeated {n_} times and there are len(lst) groups, "
                                                f"not consecutive chunks of {n_} different stubs", shape_free=True)
                        ok = True
            if not ok:
                o.undecided("partition body not recognised", pf)
        # partition loop
        ploops = [l for l in g.stub_loops() if any(isinstance(n, ast.Call) and txt(n.func) == "self.partition" for n in ast.walk(l[0]))]
        part_name = None
        if len(ploops) != 1:
            o.undecided(f"expected one loop partitioning the stub lists, found {len(ploops)}", fn)
        else:
            node, form, elem, idx = ploops[0]
            if form != "enumerate":
                if form in ("sliced", "enumerate-sliced"):
                    o.violated(fn, node.iter, "only a slice of the stub lists is partitioned")
                else:
                    o.undecided(f"partition loop form {form}", fn, node)
            else:
                pc = [n for n in ast.walk(node) if isinstance(n, ast.Call) and txt(n.func) == "self.partition"]
                st = g.par.stmt_of(pc[0])
                b = match(pat("$p.append(self.partition($l, $n))"), st.value if isinstance(st, ast.Expr) else st)
                if b is None or not any(st is s for s in node.body):
                    o.undecided("partition loop body not recognised", fn, st)
                else:
                    part_name = txt(b["p"])
                    if txt(b["l"]) != elem:
                        o.violated(fn, pc[0], f"partition of `{txt(b['l'])}`, not of the stub list `{elem}` being visited")
                    else:
                        o.holds(fn, pc[0], f"{part_name}[{idx}] = partition({elem}, ...) for every topology, in order")
                    it = txt(g.sc.resolve(b["n"]))
                    if it == f"self._motif_sizes[{idx}]":
                        o4.holds(fn, b["n"], f"partition size self._motif_sizes[{idx}] for stub list {idx}")
                    elif isinstance(g.sc.resolve(b["n"]), ast.Subscript) and txt(g.sc.resolve(b["n"]).value) == "self._motif_sizes":
                        o4.violated(fn, b["n"], f"partition size `{it}` is not the size of the topology `{idx}` being partitioned")
                    else:
                        o4.undecided(f"partition size `{it}` not recognised", fn, b["n"])
        # motif loop
        mloops = [n for n in astx.walk_fn(fn.node) if isinstance(n, ast.For) and match(pat("enumerate(self._motif_indices)"), n.iter) is not None]
        if len(mloops) != 1 or not (isinstance(mloops[0].target, ast.Tuple) and len(mloops[0].target.elts) == 2):
            o.undecided("loop over enumerate(self._motif_indices) not found", fn)
            raise AnalysisError("motif loop not found")
        ml = mloops[0]
        j, orbits = txt(ml.target.elts[0]), txt(ml.target.elts[1])
        count_loops = [s for s in ml.body if isinstance(s, ast.For) and isinstance(s.iter, ast.Call) and txt(s.iter.func) == "range"]
        if len(count_loops) != 1:
            o.undecided(f"expected one per-motif loop inside the motif-type loop, found {len(count_loops)}", fn, ml)
            raise AnalysisError("count loop not found")
        kl = count_loops[0]
        # number of motifs = len(stubs[orbits[0]]) / motif_sizes[orbits[0]]
        if len(kl.iter.args) != 1:
            o.violated(fn, kl.iter, f"the per-motif loop `{txt(kl.iter)}` does not run once per motif from 0")
        else:
            t = rules.term_of(kl.iter.args[0], g.sc, keep=[g.stubs, part_name or ""])
            # `range(max(0, n))` is `range(n)`: a negative bound is an empty range already
            a_t = tm.single_atom(t)
            if a_t is not None and a_t[0] == "call" and a_t[1] == "max" and len(a_t) == 3 and len(a_t[2]) == 2 and tm.ZERO in a_t[2]:
                t = a_t[2][0] if a_t[2][1] == tm.ZERO else a_t[2][1]
            refs = [tm.parse(f"int(len({g.stubs}[{orbits}[0]]) / self._motif_sizes[{orbits}[0]])"),
                    tm.parse(f"int(len({g.stubs}[{orbits}[0]]) // self._motif_sizes[{orbits}[0]])"),
                    tm.Translator().tr(ast.parse(f"len({g.stubs}[{orbits}[0]]) // self._motif_sizes[{orbits}[0]]", mode="eval").body)]
            if part_name:
                refs.append(tm.parse(f"len({part_name}[{orbits}[0]])"))
            if any(t == r for r in refs):
                o.holds(fn, kl.iter, f"motifs built = len({g.stubs}[kk]) / size[kk], kk = {orbits}[0]: {tm.show(t)}")
                o4.holds(fn, kl.iter, "count uses the stub list and the size of the same topology kk")
            else:
                lv = tm.leaves(t)
                if tm.has_opaque(t):
                    o.undecided(f"motif count {tm.show(t)} not recognised", fn, kl.iter)
                else:
                    o.violated(fn, kl.iter, f"number of motifs is {tm.show(t)}; it must be len({g.stubs}[kk]) / self._motif_sizes[kk] with the same kk = {orbits}[0] "
                                            "(else stubs are left over or pop() fails)")
        # orbit loop
        oloops = [s for s in kl.body if isinstance(s, ast.For)]
        orbit = [s for s in oloops if txt(s.iter) == orbits]
        sliced = [s for s in oloops if isinstance(s.iter, ast.Subscript) and txt(s.iter.value) == orbits]
        if sliced:
            o.violated(fn, sliced[0].iter, f"only `{txt(sliced[0].iter)}` of the motif's orbits take stubs")
        elif len(orbit) != 1:
            o.undecided("loop over the motif's orbit list not found", fn, kl)
        else:
            ol = orbit[0]
            index = txt(ol.target)
            b = None
            if len(ol.body) == 1 and isinstance(ol.body[0], ast.Expr):
                b = match(pat(f"$v.append($p[{index}].pop())"), ol.body[0].value)
                if b is None:
                    # pop(-1) and pop(len(X) - 1) name the last chunk explicitly: the same chunk as pop()
                    b1 = match(pat(f"$v.append($p[{index}].pop($a))"), ol.body[0].value)
                    if b1 is not None and (astx.const_value(b1["a"]) == -1 or txt(b1["a"]) == f"len({txt(b1['p'])}[{index}]) - 1"):
                        b = b1
            if b is None:
                bb = match(pat("$v.append($p[$i].pop(*$ARGS))"), ol.body[0].value) if len(ol.body) == 1 and isinstance(ol.body[0], ast.Expr) else None
                if bb is not None and txt(bb["i"]) != index:
                    o4.violated(fn, ol.body[0], f"chunk popped from partition `{txt(bb['i'])}`, not from the orbit `{index}` being visited")
                elif bb is not None:
                    o.violated(fn, ol.body[0], "pop with an argument does not take exactly one chunk from the end")
                else:
                    o.undecided("orbit loop body is not vertices.append(partitions[index].pop())", fn, ol)
            else:
                if part_name is not None and txt(b["p"]) != part_name:
                    o.undecided(f"chunks popped from `{txt(b['p'])}`, partitions are in `{part_name}`", fn, ol)
                else:
                    o.holds(fn, ol, f"each motif takes exactly one chunk from every orbit in `{orbits}`")
                    o4.holds(fn, ol.body[0], f"partitions[{index}] for orbit {index}")
                vname = txt(b["v"])
                # C01.5: flatten + build
                builds = [c for c in g.build_calls()]
                if len(builds) != 1 or not g.par.inside(builds[0], kl):
                    o5.undecided(f"expected one build call inside the per-motif loop, found {len(builds)}", fn, kl)
                else:
                    bc = builds[0]
                    st = g.par.stmt_of(bc)
                    if not any(st is s for s in kl.body):
                        o5.violated(fn, bc, "the build call is conditional: some motifs are never built")
                    else:
                        # argument: the flattened vertices
                        arg = bc.args[0] if len(bc.args) == 1 else None
                        flat_ok = None
                        if arg is not None and isinstance(arg, ast.Name):
                            defs = [s for s in kl.body if isinstance(s, (ast.Assign, ast.AnnAssign))
                                    and txt(s.targets[0] if isinstance(s, ast.Assign) else s.target) == arg.id]
                            for d in defs:
                                dv = d.value
                                ca_ = match(pat(f"list(itertools.chain.from_iterable({vname}))"), dv) or match(pat(f"list(chain.from_iterable({vname}))"), dv) \
                                    or match(pat(f"list(itertools.chain(*{vname}))"), dv) or match(pat(f"list(chain(*{vname}))"), dv) or match(pat(f"sum({vname}, [])"), dv)
                                if ca_ is not None:
                                    flat_ok = d
                                if isinstance(d.value, ast.ListComp):
                                    fb = match(pat(f"[$x for $s in {vname} for $x in $s]"), d.value)
                                    if fb is not None:
                                        flat_ok = d
                                    else:
                                        fb2 = match(pat(f"[$x for $s in $src for $x in $s]"), d.value)
                                        if fb2 is not None and isinstance(fb2["src"], ast.Subscript):
                                            o5.violated(fn, d, f"only `{txt(fb2['src'])}` of the popped chunks reach the builder")
                                            flat_ok = False
                            if arg.id == vname and flat_ok is None and not any(isinstance(d.value, ast.ListComp) for d in defs):
                                flat_ok = None
                        elif arg is not None:
                            ca = match(pat(f"list(itertools.chain.from_iterable({vname}))"), arg) or match(pat(f"list(chain.from_iterable({vname}))"), arg) \
                                or match(pat(f"[$x for $s in {vname} for $x in $s]"), arg)
                            if ca is not None:
                                flat_ok = st
                        if flat_ok:
                            o5.holds(fn, bc, "builder applied to the concatenation of the popped chunks, in orbit order")
                        elif flat_ok is None:
                            o5.undecided(f"builder argument `{txt(arg) if arg is not None else '?'}` not recognised", fn, bc)
                    # index coherence of builder / names
                    for n in astx.walk_fn(fn.node):
                        if isinstance(n, ast.Subscript) and astx.self_attr(n.value) in ("_build_functions", "_edge_names"):
                            it = txt(g.sc.resolve(n.slice))
                            if it == j and g.par.inside(n, ml):
                                o4.holds(fn, n, f"{txt(n)} indexed by the motif type being built")
                            else:
                                o4.violated(fn, n, f"{txt(n)}: index `{it}` is not the motif-type variable `{j}` of the enclosing loop")
                    # result kept whole
                    es_name = None
                    if isinstance(st, (ast.Assign, ast.AnnAssign)):
                        es_name = txt(st.targets[0] if isinstance(st, ast.Assign) else st.target)
                    for c in g.column_extends()["edge_list"]:
                        if isinstance(c, ast.Call) and c.func.attr == "extend" and len(c.args) == 1:
                            at = txt(c.args[0])
                            if at in (es_name, f"[{es_name}]"):
                                o5.holds(fn, c, "the builder's result is appended whole")
                            elif isinstance(c.args[0], ast.Subscript) and txt(c.args[0].value) == es_name:
                                o5.violated(fn, c, f"only `{at}` of the builder's edges is kept")
                            else:
                                o5.undecided(f"edge_list.extend({at}) not recognised", fn, c)
                        else:
                            o5.undecided("edge column written by something other than extend", fn, c)
        # skips in the custom loops
        for lp in (ml, kl):
            _skips(o, fn, lp, {j, orbits} | astx.names_in(kl.target))

    # ------------------------------------------------------------------ C01.6
    with ctx.obligation("C01.6", "the joint degree sequence is only read and carried through unchanged", floor=3) as o:
        fns = [g.fn for g in gens.values()] + [prog.func("GCMAlgorithmNetwork.random_clustered_graph")]
        for fn in fns:
            if len(fn.params) < 2:
                o.undecided("signature changed", fn)
                continue
            jds = fn.params[1]
            sc = Scope(fn.node)
            effs = rules.effects_on(prog, fn, [jds], scope=sc)
            rebinds = sc.n_bindings(jds) > 1
            if effs:
                for e in effs:
                    o.violated(fn, e.node, f"the caller's joint degree sequence is mutated: {e.kind} on {e.path}")
            elif rebinds:
                o.violated(fn, fn.node, f"parameter `{jds}` is rebound inside the generator")
            else:
                o.holds(fn, fn.node, f"no write effect on parameter `{jds}`")
        for g in gens.values():
            fn = g.fn
            sets = [n for n in astx.walk_fn(fn.node) if isinstance(n, ast.Assign) and len(n.targets) == 1
                    and txt(n.targets[0]) == f"{g.edgelist}.joint_degrees"]
            if len(sets) != 1:
                if not sets:
                    o.violated(fn, fn.node, f"{g.edgelist}.joint_degrees is never set: the joint degree sequence is not carried through")
                else:
                    o.undecided("joint_degrees assigned several times", fn)
                continue
            v = g.sc.resolve(sets[0].value)
            t = txt(v)
            if t in (g.jds, f"list({g.jds})", f"{g.jds}[:]", f"tuple({g.jds})", f"{g.jds}.copy()", f"copy.copy({g.jds})", f"[jd for jd in {g.jds}]"):
                o.holds(fn, sets[0], f"joint_degrees = {t}")
            elif isinstance(v, ast.Call) and txt(v.func) in ("sorted", "reversed", "set", "frozenset") or \
                    (isinstance(v, ast.Call) and txt(v.func) == "list" and v.args and isinstance(v.args[0], ast.Call) and txt(v.args[0].func) in ("sorted", "reversed", "set")):
                o.violated(fn, sets[0], f"joint_degrees = {t}: order/multiplicity of the sequence is changed, vertex v no longer has entry v")
            elif isinstance(v, ast.Subscript) and txt(v.value) == g.jds:
                o.violated(fn, sets[0], f"joint_degrees = {t}: only part of the sequence is carried through")
            else:
                o.undecided(f"joint_degrees = {t} not recognised", fn, sets[0])

    # ------------------------------------------------------------------ C01.7
    with ctx.obligation("C01.7", "network variant delegates to the fast variant with matching parameter keys and converts", floor=5) as o:
        base_init = prog.func("GCMAlgorithm.__init__")
        reader = {}
        for n in astx.walk_fn(base_init.node):
            if isinstance(n, ast.Assign) and len(n.targets) == 1 and astx.self_attr(n.targets[0]) and isinstance(n.value, ast.Subscript):
                k = rules.enum_member(n.value.slice, "GCMAlgorithmNames")
                if k and txt(n.value.value) == base_init.params[1]:
                    reader[k] = astx.self_attr(n.targets[0])
        want = {"MOTIF_SIZES": "_motif_sizes", "BUILD_FUNCTIONS": "_build_functions", "EDGE_NAMES": "_edge_names"}
        for k, a in want.items():
            if reader.get(k) == a:
                o.holds(base_init, None, f"GCMAlgorithm.__init__ reads params[{k}] into self.{a}", construct=f"{k}->{a}")
            elif k in reader:
                o.violated(base_init, base_init.node, f"GCMAlgorithm.__init__ stores params[{k}] into self.{reader[k]} (expected self.{a}): tables are cross-wired")
            else:
                o.undecided(f"GCMAlgorithm.__init__ does not read params[{k}]", base_init)
        nf = prog.func("GCMAlgorithmNetwork.random_clustered_graph")
        sc = Scope(nf.node)
        jds = nf.params[1]
        writer = {}
        dict_name = None
        for n in astx.walk_fn(nf.node):
            if isinstance(n, ast.Assign) and len(n.targets) == 1 and isinstance(n.targets[0], ast.Subscript):
                k = rules.enum_member(n.targets[0].slice, "GCMAlgorithmNames")
                if k:
                    writer[k] = astx.self_attr(n.value) or txt(n.value)
                    dict_name = txt(n.targets[0].value)
            if isinstance(n, ast.Dict):
                for kk, vv in zip(n.keys, n.values):
                    k = rules.enum_member(kk, "GCMAlgorithmNames") if kk is not None else None
                    if k:
                        writer[k] = astx.self_attr(vv) or txt(vv)
        for k, a in want.items():
            if writer.get(k) == reader.get(k, a):
                o.holds(nf, None, f"delegated params[{k}] = self.{a}", construct=f"{k}<-{a}")
            elif k in writer:
                o.violated(nf, nf.node, f"delegated params[{k}] = self.{writer[k]}, but the fast generator reads that key as {reader.get(k, a)}: tables are swapped")
            else:
                o.violated(nf, nf.node, f"delegated parameter dictionary lacks key {k}")
        # delegation call and conversion
        calls = [n for n in astx.walk_fn(nf.node) if isinstance(n, ast.Call) and isinstance(n.func, ast.Attribute) and n.func.attr == "random_clustered_graph"]
        rets = [n for n in astx.walk_fn(nf.node) if isinstance(n, ast.Return)]
        if len(calls) != 1 or len(rets) != 1:
            o.undecided("delegation call / return not recognised", nf)
        else:
            c = calls[0]
            recv = sc.resolve(c.func.value)
            if not (isinstance(recv, ast.Call) and txt(recv.func) == "GCMAlgorithmFast"):
                o.undecided(f"delegates to `{txt(recv)}`, expected GCMAlgorithmFast(params)", nf, c)
            elif len(c.args) != 1 or txt(c.args[0]) != jds:
                o.violated(nf, c, f"fast generator called with `{', '.join(txt(a) for a in c.args)}`, not the unmodified `{jds}`")
            else:
                o.holds(nf, c, f"GCMAlgorithmFast(params).random_clustered_graph({jds})")
            rv = sc.resolve(rets[0].value) if rets[0].value is not None else None
            b = match(pat("EdgeListToNetwork.convert($x)"), rv) if rv is not None else None
            if b is None:
                o.undecided("return value is not EdgeListToNetwork.convert(<edge list>)", nf, rets[0])
            elif astx.same(b["x"], sc.resolve(c)):
                o.holds(nf, rets[0], "returns the conversion of exactly that edge list")
            else:
                o.undecided(f"converted value `{txt(b['x'])}` is not the delegated result", nf, rets[0])

    # ------------------------------------------------------------------ C01.8
    with ctx.obligation("C01.8", "type dispatch is exhaustive and maps each type to its class", floor=4) as o:
        rf = prog.func("GCMAlgorithmFactory.resolve_algorithm")
        tparam, pparam = rf.params[0], rf.params[1]
        members = [m for m in prog.cls("GCMAlgorithmTypes").class_attrs]
        arms, complete = rules.dispatch_arms(prog, rf, tparam, "GCMAlgorithmTypes")
        if not arms or not any(m in arms for m in DISPATCH_SPEC):
            o.undecided("resolve_algorithm is not a recognised dispatch on the type (if/elif chain, early returns, match, or table lookup)", rf)
        else:
            for mem in members:
                if mem not in DISPATCH_SPEC:
                    continue
                if mem not in arms:
                    if complete:
                        o.violated(rf, rf.node, f"no arm for GCMAlgorithmTypes.{mem}: the factory cannot build that generator")
                    else:
                        o.undecided(f"no arm found for GCMAlgorithmTypes.{mem}, but the dispatch is only partly understood", rf)
                    continue
                rv = arms[mem].value
                b = match(pat("$cls($p)"), rv)
                if b is None:
                    o.undecided(f"arm {mem} returns `{txt(rv)}`", rf, arms[mem])
                elif txt(b["cls"]) != DISPATCH_SPEC[mem]:
                    o.violated(rf, arms[mem], f"type {mem} ('{prog.enum_value('GCMAlgorithmTypes', mem)}') constructs {txt(b['cls'])}, expected {DISPATCH_SPEC[mem]}")
                elif txt(b["p"]) != pparam:
                    o.violated(rf, arms[mem], f"constructor receives `{txt(b['p'])}`, not the caller's params")
                else:
                    o.holds(rf, arms[mem], f"{mem} -> {DISPATCH_SPEC[mem]}(params)")
        lf = prog.func("GCMAlgorithmMain.load_gcm_algorithm")
        sc = Scope(lf.node)
        rets = [n for n in astx.walk_fn(lf.node) if isinstance(n, ast.Return) and n.value is not None]
        good = False
        for r in rets:
            v = sc.resolve(r.value)
            b = match(pat("GCMAlgorithmFactory.resolve_algorithm(GCMAlgorithmTypes($p[GCMAlgorithmNames.GCM_TYPE]), $q)"), v)
            if b is not None and txt(b["p"]) == lf.params[0] and txt(b["q"]) == lf.params[0]:
                good = True
                o.holds(lf, r, "entry point builds the enum from params[GCM_TYPE] and returns the factory's result unchanged")
        # the type is looked up AS GIVEN (a member or its value): text transformations turn a member into a string that is no value of the
        # enum, and a handler that maps the failed look-up to some member silently builds a different generator
        conv = [n for n in astx.walk_fn(lf.node) if isinstance(n, ast.Call) and txt(n.func) == "GCMAlgorithmTypes" and len(n.args) == 1]
        flagged = False
        for c_ in conv:
            a_ = sc.resolve(c_.args[0])
            texty = [x_ for x_ in ast.walk(a_) if isinstance(x_, ast.Call) and (txt(x_.func) in ("str", "repr", "format") or
                     (isinstance(x_.func, ast.Attribute) and x_.func.attr in ("lower", "upper", "strip", "casefold", "title", "capitalize")))]
            if texty and "GCM_TYPE" in txt(a_):
                flagged = True
                o.violated(lf, c_, f"the type is looked up as `{txt(a_)[:70]}`: an enum MEMBER passed as {lf.params[0]}[GCM_TYPE] becomes text that is none of the enum's values "
                                   "(str(GCMAlgorithmTypes.NETWORK) is not 'network'), so the request is not honoured", shape_free=True)
        for tr_ in [n for n in astx.walk_fn(lf.node) if isinstance(n, ast.Try)]:
            if any(c_ in list(ast.walk(tr_)) for c_ in conv):
                for h_ in tr_.handlers:
                    sets = [x_ for x_ in h_.body if isinstance(x_, (ast.Assign, ast.AnnAssign)) and x_.value is not None and rules.enum_member(x_.value, "GCMAlgorithmTypes")]
                    if sets:
                        flagged = True
                        o.violated(lf, sets[0], f"a type that is not recognised silently becomes GCMAlgorithmTypes.{rules.enum_member(sets[0].value, 'GCMAlgorithmTypes')}: "
                                                "a different generator than the one asked for is built instead of an error", shape_free=True)
        if not good and not flagged:
            o.undecided("load_gcm_algorithm does not return GCMAlgorithmFactory.resolve_algorithm(GCMAlgorithmTypes(params[GCM_TYPE]), params)", lf)

    # ------------------------------------------------------------------ C01.9
    with ctx.obligation("C01.9", "built-in build callbacks use the vertices as they are handed over (order and repetitions kept)") as o:
        # the group a builder receives is in SHUFFLED slot order and may name a vertex twice: re-binding the parameter to a
        # sorted / de-duplicated / reversed copy changes which vertex takes which role (and drops repeated stubs)
        for bn in ("clique_motif", "cycle_motif", "diamond_motif"):
            bf = prog.func(bn)
            if bf is None or not bf.params:
                continue
            pv = bf.params[0]
            hits = [n for n in astx.walk_fn(bf.node) if isinstance(n, ast.Assign) and any(isinstance(t_, ast.Name) and t_.id == pv for t_ in n.targets)
                    and isinstance(n.value, ast.Call) and txt(n.value.func) in ("sorted", "set", "frozenset", "reversed", "list", "tuple", "dict.fromkeys")
                    and any(isinstance(x, ast.Call) and txt(x.func) in ("sorted", "set", "frozenset", "reversed", "dict.fromkeys") for x in ast.walk(n.value))]
            hits += [n for n in astx.walk_fn(bf.node) if isinstance(n, ast.Call) and isinstance(n.func, ast.Attribute) and n.func.attr in ("sort", "reverse") and txt(n.func.value) == pv]
            if hits:
                o.violated(bf, hits[0], f"`{txt(hits[0])[:60]}` re-orders / de-duplicates the vertices `{bn}` was handed: the shuffled slot order decides which vertex takes which place in the "
                                        "motif, and a vertex drawn twice must stay twice", shape_free=True)
            else:
                o.holds(bf, bf.node, f"{bn} does not re-bind or re-order its argument", construct="scan of the builder")

    with ctx.obligation("C01.9", "built-in build callbacks return pairs over exactly their argument", floor=3) as o:
        cf = prog.func("clique_motif")
        v = cf.params[0]
        body = astx.strip_logging(cf.body)
        rv = Scope(cf.node).resolve(body[-1].value) if body and isinstance(body[-1], ast.Return) else None
        b = match(pat("list($c($v, $k))"), rv) if rv is not None else None
        if b is None or prog.external(cf.module, b["c"]) != "itertools.combinations":
            o.undecided("clique_motif is not list(combinations(vertices, 2))", cf)
        elif txt(b["v"]) != v:
            o.violated(cf, rv, f"pairs are taken over `{txt(b['v'])}`, not over all of `{v}`")
        elif astx.const_value(b["k"]) != 2:
            o.violated(cf, rv, f"combinations(.., {txt(b['k'])}) does not produce vertex pairs (edges)")
        else:
            o.holds(cf, rv, "all 2-subsets of the argument")
        # an edge is ONE element of the returned list: `edges.extend((a, b))` unpacks the pair into two bare vertex ids
        for bn_ in ("clique_motif", "cycle_motif", "diamond_motif"):
            bf_ = prog.func(bn_)
            for n_ in [n for n in astx.walk_fn(bf_.node) if isinstance(n, ast.Call) and isinstance(n.func, ast.Attribute) and n.func.attr == "extend" and len(n.args) == 1]:
                a_ = n_.args[0]
                if isinstance(a_, (ast.Tuple, ast.List)) and a_.elts and not any(isinstance(e_, (ast.Tuple, ast.List, ast.Starred, ast.Call, ast.Name)) for e_ in a_.elts):
                    o.violated(bf_, n_, f"`{txt(n_)[:60]}` unpacks the pair: two bare vertex ids are added to the edge list instead of one edge "
                                        "(the caller sizes the name and id columns by len() of what comes back)", shape_free=True)
            # (the normaliser spells extend((a, b)) as two appends)
            for n_ in [n for n in astx.walk_fn(bf_.node) if isinstance(n, ast.Call) and isinstance(n.func, ast.Attribute) and n.func.attr == "append" and len(n.args) == 1]:
                a_ = n_.args[0]
                if isinstance(a_, ast.Subscript) and isinstance(a_.value, ast.Name) and a_.value.id == bf_.params[0] and not isinstance(a_.slice, ast.Slice):
                    o.violated(bf_, n_, f"`{txt(n_)[:60]}` adds a bare vertex id to the edge list, not an edge (a pair): "
                                        "the caller sizes the name and id columns by len() of what comes back", shape_free=True)
        # cycle motif
        cy = prog.func("cycle_motif")
        v = cy.params[0]
        sc = Scope(cy.node)
        src = txt(list(cy.body))
        tee_ok = any(isinstance(n, ast.Call) and prog.external(cy.module, n.func) == "itertools.tee" and [txt(a) for a in n.args] == [v] for n in astx.walk_fn(cy.node))
        adv = [n for n in astx.walk_fn(cy.node) if isinstance(n, ast.Call) and txt(n.func) == "next"]
        zips = [n for n in astx.walk_fn(cy.node) if isinstance(n, ast.Call) and txt(n.func) == "zip"]
        apps = [n for n in astx.walk_fn(cy.node) if isinstance(n, ast.Call) and isinstance(n.func, ast.Attribute) and n.func.attr == "append"]
        if tee_ok and len(adv) == 1 and len(zips) == 1 and len(apps) == 1 and len(apps[0].args) == 1 and isinstance(apps[0].args[0], ast.Tuple):
            tee_t = next(n for n in astx.walk_fn(cy.node) if isinstance(n, ast.Assign) and isinstance(n.value, ast.Call) and prog.external(cy.module, n.value.func) == "itertools.tee")
            names = [txt(e) for e in tee_t.targets[0].elts] if isinstance(tee_t.targets[0], ast.Tuple) else []
            za = [txt(a) for a in zips[0].args]
            advanced = txt(adv[0].args[0]) if adv[0].args else None
            if len(names) == 2 and sorted(za) == sorted(names) and advanced in names:
                o.holds(cy, zips[0], "consecutive pairs of the argument (tee, advance one copy, zip)")
            else:
                o.violated(cy, zips[0], f"zip({', '.join(za)}) with `{advanced}` advanced does not pair each vertex with its successor")
            closing = sorted(txt(e) for e in apps[0].args[0].elts)
            if closing == sorted([f"{v}[0]", f"{v}[-1]"]):
                o.holds(cy, apps[0], "closing edge joins first and last vertex")
            else:
                o.violated(cy, apps[0], f"closing edge is ({', '.join(closing)}), the cycle must be closed between {v}[0] and {v}[-1]")
        else:
            o.undecided("cycle_motif idiom (tee/next/zip + closing edge) not recognised", cy)
        # diamond
        df = prog.func("diamond_motif")
        v = df.params[0]
        unp = [n for n in astx.walk_fn(df.node) if isinstance(n, ast.Assign) and isinstance(n.targets[0], ast.Tuple) and txt(n.value) == v]
        apps = [n for n in astx.walk_fn(df.node) if isinstance(n, ast.Call) and isinstance(n.func, ast.Attribute) and n.func.attr == "append"]
        cyc = [n for n in astx.walk_fn(df.node) if isinstance(n, ast.Call) and txt(n.func) == "cycle_motif"]
        if len(unp) == 1 and len(unp[0].targets[0].elts) == 4 and len(cyc) == 1 and len(apps) == 2:
            ns = [txt(e) for e in unp[0].targets[0].elts]
            if [txt(a) for a in cyc[0].args] != [v]:
                o.violated(df, cyc[0], f"4-cycle built over `{', '.join(txt(a) for a in cyc[0].args)}`, not over the motif's vertices")
            chords = sorted(tuple(sorted(txt(e) for e in a.args[0].elts)) for a in apps if a.args and isinstance(a.args[0], ast.Tuple))
            want = sorted([tuple(sorted((ns[0], ns[2]))), tuple(sorted((ns[1], ns[3])))])
            if chords == want:
                o.holds(df, apps[0], f"4-cycle plus chords ({ns[0]},{ns[2]}) and ({ns[1]},{ns[3]})")
            else:
                o.violated(df, apps[0], f"chords {chords} are not the two diagonals {want} of the 4-cycle")
        else:
            o.undecided("diamond_motif idiom not recognised", df)
