"""C07 - split-degree and delta loaders preserve the overall degree law.

The shared table survives the loop over k (C07.1: no re-binding of _jdd is reachable inside the loop that
accumulates into it - 'loop-carried kill'); it is re-bound once before the loop (C07.2); admissible splits
are enumerated by the recursion {base t==1 -> [rem]; i in 0..rem//t; recurse (rem - i*t, t-1); row ++ [i]}
(C07.3); split weight prod_i probs[i]^((i+1)*jd[i]) (C07.4); per-k normalisation and weighting by the
overall degree probability, stored under tuple(split) (C07.5); global normalisation after the loop (C07.6);
delta: every k != target is pure first-topology degree k with mass fp(k), the target is split (C07.7)."""
import ast

from gcmstatic import astx, rules, tm
from gcmstatic.astx import Scope, txt, pat, match
from gcmstatic.attrs import AttrState
from gcmstatic.cfg import CFG
from gcmstatic.conform import conform, conform_attr

EXPLANATION = __doc__

REF_WEIGHT = ['''
def calc_prob_of_joint_degree(self, jd):
    prod = 1.0
    for it in enumerate(jd):
        prod *= self._probs[it[0]] ** ((it[0] + 1) * it[1])
    return prod
''']

REF_RESOLVE = ['''
def resolve_degree(self, k, prob_overall_k):
    valid = list(self.get_valid_joint_degrees(k, len(self._probs)))
    probs = [self.calc_prob_of_joint_degree(jd) for jd in valid]
    total = sum(probs)
    for i in range(len(valid)):
        self._jdd[tuple(valid[i])] = prob_overall_k * (probs[i] / total)
''']

REF_DELTA = ['''
def create_jdd(self):
    self._jdd = {}
    for k in range(self._low_high_degree_bound[0], self._low_high_degree_bound[1]):
        zeros = [0] * len(self._motif_sizes)
        if k != self._target_k:
            zeros[0] = k
            self._jdd[tuple(zeros)] = self._fp(k)
        else:
            self.resolve_degree(k, self._fp(k))
    self.normalise_jdd()
''']


def _k_loop(fn):
    loops = [s for s in fn.body if isinstance(s, ast.For)]
    return loops[0] if len(loops) == 1 else None


def run(ctx):
    prog = ctx.prog
    ctx.trust("the overall degree function and the probability vector supplied by the caller are pure")
    sd = prog.cls("JointDegreeSplitDegree")
    dl = prog.cls("JointDegreeDelta")

    for ci in (sd, dl):
        cj = prog.method(ci, "create_jdd")
        st = AttrState(prog, ci)
        with ctx.obligation("C07.1", f"{ci.name}: the table survives the loop over k (no loop-carried re-binding)") as o, \
                ctx.obligation("C07.2", f"{ci.name}: the table is re-bound once before the loop") as o2, \
                ctx.obligation("C07.6", f"{ci.name}: global normalisation after the loop, on every path") as o6:
            lp = _k_loop(cj)
            if lp is None:
                o.undecided("create_jdd does not have a single top-level loop over k", cj)
                continue
            kills, stores = st.region_effects(cj, lp.body)
            if "_jdd" in kills and "_jdd" in stores:
                f2, nd = kills["_jdd"][0]
                o.violated(f2, nd, f"`self._jdd` is re-bound inside the loop over k of {ci.name}.create_jdd (here, reached through the loop body): every degree resolved "
                                   "earlier is thrown away, only the last one survives")
            elif "_jdd" in stores:
                o.holds(cj, lp, f"entries are stored into self._jdd inside the loop ({len(stores['_jdd'])} store site(s)) and nothing in the loop re-binds it")
            else:
                o.undecided("nothing is stored into self._jdd inside the loop", cj, lp)
            s = st.summary(cj)
            direct = [x for x in cj.body if isinstance(x, (ast.Assign, ast.AnnAssign)) and astx.self_attr(x.targets[0] if isinstance(x, ast.Assign) else x.target) == "_jdd"]
            cfg = CFG(cj.node)
            if "_jdd" in s.exposed:
                f2, nd = s.exposed["_jdd"][0]
                o2.violated(f2, nd, "self._jdd is accumulated into without being re-bound first on every path from create_jdd")
            elif direct and cfg.dominates(direct[0], lp) and cj.body.index(direct[0]) < cj.body.index(lp):
                o2.holds(cj, direct[0], "`self._jdd = {}` dominates the loop")
            else:
                o2.undecided("re-binding of self._jdd before the loop not found as a statement of create_jdd", cj)
            calls = [x for x in cj.body if isinstance(x, ast.Expr) and match(pat("self.normalise_jdd()"), x.value) is not None]
            if not calls:
                o6.violated(cj, cj.node, f"{ci.name}.create_jdd never normalises: the result does not sum to 1")
            elif cj.body.index(calls[-1]) > cj.body.index(lp) and cfg.postdominates(calls[-1], lp):
                o6.holds(cj, calls[-1], "normalise_jdd() post-dominates the loop")
            elif cj.body.index(calls[-1]) > cj.body.index(lp):
                # exits between the loop and the call: leaving with an EMPTY table skips nothing (normalising {} does nothing);
                # a tolerance test leaves a table that is only nearly normalised
                between = cj.body[cj.body.index(lp) + 1: cj.body.index(calls[-1])]
                verdict = "holds"
                why = None
                for b_ in between:
                    if isinstance(b_, ast.If) and not b_.orelse and len(b_.body) >= 1 and isinstance(b_.body[-1], ast.Return) and all(
                            isinstance(x_, (ast.Return, ast.Pass)) or (isinstance(x_, ast.Expr) and isinstance(x_.value, ast.Constant)) for x_ in b_.body):
                        tt = txt(b_.test)
                        if tt in ("not self._jdd", "len(self._jdd) == 0", "self._jdd == {}", "not len(self._jdd)"):
                            continue
                        tol = any((isinstance(x_, ast.Call) and txt(x_.func).split(".")[-1] in ("isclose", "allclose", "round", "abs", "fabs")) for x_ in ast.walk(b_.test))
                        verdict, why = ("violated" if tol else "undecided"), tt
                        break
                    elif any(isinstance(x_, (ast.Return, ast.Raise)) for x_ in ast.walk(b_)):
                        verdict, why = "undecided", txt(b_)[:60]
                        break
                if verdict == "holds":
                    o6.holds(cj, calls[-1], "normalise_jdd() runs after the loop on every path that has something to normalise (the only earlier exit is for an empty table)")
                elif verdict == "violated":
                    o6.violated(cj, calls[-1], f"normalise_jdd() is skipped when `{why}`: a table that is only nearly normalised is exposed as it is")
                else:
                    o6.undecided(f"normalise_jdd() is skipped when `{why}`", cj, calls[-1])
            else:
                o6.violated(cj, calls[-1], "normalise_jdd() does not run after the loop on every path")

    with ctx.obligation("C07.3", "admissible splits: recursion premises", floor=5) as o:
        gv = prog.method(sd, "get_valid_joint_degrees")
        rem, top = gv.params[1], gv.params[2]
        from gcmstatic.normalize import _structure_returns
        # `if base: yield ..; return` followed by the recursive case is the same as if/else
        body = _structure_returns(astx.strip_logging(gv.body))
        if len(body) != 1 or not isinstance(body[0], ast.If):
            o.undecided("get_valid_joint_degrees is not `if topology == 1: ... else: ...`", gv)
        else:
            iff = body[0]
            r = rules.compare_with_pivot(iff.test, lambda x: txt(x) == top)
            base, rec = (iff.body, iff.orelse) if r and r[0] == "==" else (iff.orelse, iff.body) if r and r[0] == "!=" else (None, None)
            if r is None or astx.const_value(r[1]) != 1 or base is None:
                if r is not None and astx.const_value(r[1]) is not None:
                    o.violated(gv, iff, f"base case is `{txt(iff.test)}`; the recursion must bottom out at topology == 1 with the whole remainder")
                else:
                    o.undecided("base-case test not recognised", gv, iff)
            else:
                ys = [n for s in base for n in ast.walk(s) if isinstance(n, ast.Yield)]
                if len(ys) == 1 and txt(ys[0].value) == f"[{rem}]":
                    o.holds(gv, ys[0], f"base case t == 1 yields [{rem}]")
                elif len(ys) == 1:
                    o.violated(gv, ys[0], f"base case yields `{txt(ys[0].value)}`, it must spend the whole remaining degree on topology 1")
                else:
                    o.undecided("base case not recognised", gv, iff)
                loops = [s for s in rec if isinstance(s, ast.For)]
                if len(loops) != 1:
                    o.undecided("recursive case is not a single loop", gv, iff)
                else:
                    lp = loops[0]
                    i = txt(lp.target)
                    b = match(pat("range($lo, $hi)"), lp.iter) or match(pat("range($hi)"), lp.iter)
                    if b is None:
                        o.undecided(f"loop domain `{txt(lp.iter)}` not recognised", gv, lp)
                    else:
                        gsc = Scope(gv.node)
                        lo = rules.term_of(b["lo"], gsc) if "lo" in b else tm.ZERO
                        hi = rules.term_of(b["hi"], gsc)
                        want_hi = tm.parse(f"{rem} // {top} + 1")
                        if lo == tm.ZERO and hi == want_hi:
                            o.holds(gv, lp, f"{i} ranges over 0 .. {rem} // {top}")
                        else:
                            o.violated(gv, lp, f"loop domain range({tm.show(lo)}, {tm.show(hi)}); admissible counts for topology t are 0 .. rem // t")
                    inner = [s for s in lp.body if isinstance(s, ast.For)]
                    calls = [n for n in ast.walk(lp) if isinstance(n, ast.Call) and txt(n.func) == "self.get_valid_joint_degrees"]
                    ys = [n for n in ast.walk(lp) if isinstance(n, ast.Yield)]
                    if len(calls) != 1 or len(ys) != 1 or len(inner) != 1:
                        o.undecided("recursive call / yield not recognised", gv, lp)
                    else:
                        c = calls[0]
                        a0, a1 = rules.term_of(c.args[0], Scope(gv.node)), rules.term_of(c.args[1], Scope(gv.node))
                        if a0 == tm.parse(f"{rem} - {i} * {top}") and a1 == tm.parse(f"{top} - 1"):
                            o.holds(gv, c, f"recurses on ({rem} - {i}*{top}, {top} - 1)")
                        else:
                            o.violated(gv, c, f"recursive call with ({tm.show(a0)}, {tm.show(a1)}), expected ({rem} - {i}*{top}, {top} - 1)")
                        row = txt(inner[0].target)
                        y = gsc.resolve(ys[0].value, keep=(row, i))
                        if txt(y) == f"{row} + [{i}]":
                            o.holds(gv, ys[0], f"the count for topology t lands at index t-1: {txt(y)}")
                        elif txt(y) == f"[{i}] + {row}":
                            o.violated(gv, ys[0], f"`{txt(y)}` puts the count of the largest topology first: columns are reversed")
                        else:
                            o.violated(gv, ys[0], f"yielded row `{txt(y)}` is not the sub-split followed by this topology's count") if row in txt(y) else o.undecided("yield not recognised", gv, ys[0])
        rd = prog.method(sd, "resolve_degree")
        calls = [n for n in astx.walk_fn(rd.node) if isinstance(n, ast.Call) and txt(n.func) == "self.get_valid_joint_degrees"]
        if len(calls) == 1 and [txt(a) for a in calls[0].args] == [rd.params[1], "len(self._probs)"]:
            o.holds(rd, calls[0], "enumeration started with (k, number of topologies)")
        elif len(calls) == 1:
            o.violated(rd, calls[0], f"enumeration started with ({', '.join(txt(a) for a in calls[0].args)}), expected ({rd.params[1]}, len(self._probs))")
        else:
            o.undecided("call of get_valid_joint_degrees in resolve_degree not found", rd)

    with ctx.obligation("C07.4", "split weight: prod_i probs[i] ** ((i+1) * jd[i])") as o:
        conform(o, prog.method(sd, "calc_prob_of_joint_degree"), REF_WEIGHT, "calc_prob_of_joint_degree")

    with ctx.obligation("C07.5", "per-k normalisation and weighting; call sites pass (k, fp(k))", floor=3) as o:
        conform_attr(o, prog.method(sd, "resolve_degree"), "_jdd", REF_RESOLVE, "jdd[tuple(split_i)] = prob_k * w_i / sum_j w_j")
        for ci in (sd, dl):
            cj = prog.method(ci, "create_jdd")
            lp = _k_loop(cj)
            calls = [n for n in astx.walk_fn(cj.node) if isinstance(n, ast.Call) and txt(n.func) == "self.resolve_degree"]
            if lp is None or len(calls) != 1:
                o.undecided(f"{ci.name}.create_jdd: call of resolve_degree not found", cj)
                continue
            k = txt(lp.target)
            args = [txt(a) for a in calls[0].args]
            if args == [k, f"self._fp({k})"]:
                o.holds(cj, calls[0], f"resolve_degree({k}, self._fp({k}))")
            else:
                o.violated(cj, calls[0], f"resolve_degree({', '.join(args)}): the split of degree {k} must be weighted by the degree function at the same {k}")
            b = match(pat("range(self._low_high_degree_bound[0], self._low_high_degree_bound[1])"), Scope(cj.node).resolve(lp.iter))
            if b is None and isinstance(lp.iter, ast.Call):
                # the degrees may come from a generator method: look INTO it - it must walk the configured range and
                # hand out every degree (no data-dependent exit, no conditional yield)
                gen = rules.resolve_call(prog, cj, lp.iter)
                if gen is not None and any(isinstance(x, ast.Yield) for x in astx.walk_fn(gen.node)):
                    gsc = Scope(gen.node)
                    gl = [x for x in gen.body if isinstance(x, ast.For)]
                    rng = gsc.resolve(gl[0].iter) if len(gl) == 1 else None
                    lo_hi = None
                    if rng is not None:
                        bb = match(pat("range($lo, $hi)"), rng)
                        if bb is not None:
                            lo_hi = (rules.term_of(bb["lo"], gsc), rules.term_of(bb["hi"], gsc))
                    # `low, high = self._low_high_degree_bound` unpacks to [0], [1]
                    want = (tm.parse("self._low_high_degree_bound[0]"), tm.parse("self._low_high_degree_bound[1]"))
                    exits = [x for x in ast.walk(gl[0]) if isinstance(x, (ast.Break, ast.Return))] if len(gl) == 1 else []
                    ys = [x for x in ast.walk(gl[0]) if isinstance(x, ast.Yield)] if len(gl) == 1 else []
                    gpar = gsc.parents
                    cond_yield = [y for y in ys if rules.path_conditions(gpar, y, upto=gl[0])]
                    if lo_hi == want and exits:
                        o.violated(gen, exits[0], f"`{gen.qualname}` stops handing out degrees early (`{txt(gpar.stmt_of(exits[0]) if not isinstance(gpar.parent(exits[0]), ast.If) else gpar.parent(exits[0]).test)}`): "
                                                   "degrees of the configured range above a data-dependent cut-off get no mass (the degree function need not be normalised, "
                                                   "so a running sum reaching 1 says nothing)", sure=True)
                        continue
                    if lo_hi == want and cond_yield:
                        o.violated(gen, cond_yield[0], f"`{gen.qualname}` yields some degrees of the configured range only conditionally: they get no mass", sure=True)
                        continue
                    if lo_hi == want and len(ys) == 1:
                        o.holds(gen, gl[0], f"degrees come from `{gen.qualname}`, which walks the whole configured range")
                        continue
            if b is None:
                t = txt(Scope(cj.node).resolve(lp.iter))
                if "self._low_high_degree_bound" in t:
                    o.violated(cj, lp, f"k ranges over `{t}`, not over the configured degree range")
                else:
                    o.undecided(f"loop domain `{t}` not recognised", cj, lp)

    with ctx.obligation("C07.7", "delta: k != target -> (k, 0, ..., 0) with mass fp(k); k == target -> split") as o:
        cj = prog.method(dl, "create_jdd")
        conform_attr(o, cj, "_jdd", REF_DELTA, "delta create_jdd")
        lp = _k_loop(cj)
        if lp is not None:
            par = astx.Parents(cj.node)
            calls = [n for n in astx.walk_fn(cj.node) if isinstance(n, ast.Call) and txt(n.func) == "self.resolve_degree"]
            ifs = [s for s in lp.body if isinstance(s, ast.If)]
            if len(calls) == 1 and len(ifs) == 1:
                # the condition under which the call runs: an enclosing branch, or what is left after `if ..: ...; continue`
                facts = rules.known_facts(par, calls[0], upto=lp)
                r = None
                for t_, pol_ in facts:
                    r = rules.compare_with_pivot(t_, lambda x: txt(x) == txt(lp.target), negated=not pol_)
                    if r is not None:
                        break
                if r is not None and r[0] == "==" and txt(r[1]) == "self._target_k":
                    o.holds(cj, calls[0], "the split is applied exactly at k == target")
                elif r is not None:
                    o.violated(cj, ifs[0], f"resolve_degree runs when k {r[0]} {txt(r[1])}; it must run exactly at the target degree")
                else:
                    o.undecided("delta branch condition not recognised", cj, ifs[0])
