"""C10 - MPCC labels partition the edges into maximal-first disjoint cliques.

The input graph is touched only through its 'clique' labels; all structural mutation goes to a copy and the
input is what is returned (C10.1); candidates are ALL cliques (enumerate_all_cliques, which includes single
edges - that is what guarantees every edge ends up labelled) (C10.2); the acceptance loop visits them in
non-increasing size (C10.3); a clique is accepted iff all its pairs are still unclaimed, and then all of them
are claimed - test set = claim set = all 2-subsets of the same clique (C10.4); the size limit skips exactly
cliques larger than a positive limit (C10.5); every pair of every accepted clique is labelled
f'{size}-{members}-{id}' with one fresh id per accepted clique (C10.6)."""
import ast

from gcmstatic import astx, rules, tm
from gcmstatic.astx import Scope, txt, pat, match
from gcmstatic.cfg import CFG

EXPLANATION = __doc__


def _pairs_of(n, prog, fn):
    """If n is (list of) itertools.combinations(X, 2) return X's text."""
    while isinstance(n, ast.Call) and txt(n.func) in ("list", "tuple") and len(n.args) == 1:
        n = n.args[0]
    if isinstance(n, ast.Call) and prog.external(fn.module, n.func) == "itertools.combinations" and len(n.args) == 2 and astx.const_value(n.args[1]) == 2:
        return txt(n.args[0])
    if isinstance(n, ast.Call) and (prog.external(fn.module, n.func) in ("itertools.pairwise",) or txt(n.func) in ("pairwise", "itertools.pairwise")) and len(n.args) == 1:
        return f"CONSECUTIVE pairs of {txt(n.args[0])} only (itertools.pairwise)"
    if isinstance(n, ast.Call) and txt(n.func) == "zip" and len(n.args) == 2 and isinstance(n.args[1], ast.Subscript) and txt(n.args[1].value) == txt(n.args[0]):
        return f"CONSECUTIVE pairs of {txt(n.args[0])} only (zip(x, x[1:]))"
    return None


def _key_form(expr, var):
    """Shape of a set-element expression as a function of the edge variable: 'raw' | 'sorted' | 'frozenset' | other text."""
    t = txt(expr)
    if t == var:
        return "raw"
    if t in (f"tuple(sorted({var}))", f"tuple(sorted(({var}[0], {var}[1])))"):
        return "sorted"
    if t in (f"frozenset({var})", f"frozenset(({var}[0], {var}[1]))"):
        return "frozenset"
    return t.replace(var, "<e>")


def _claimed_set_strategy(o, prog, fn, sc, par, accept, app, claimed_sets):
    """Alternative bookkeeping: a set of claimed edges instead of a working copy.  Test set = claim set = all pairs of the
    clique, and the key form used to RECORD an edge must be the key form used to TEST it."""
    c = txt(accept.target)
    S = None
    for nm in claimed_sets:
        if any(isinstance(n, ast.Call) and isinstance(n.func, ast.Attribute) and n.func.attr in ("add", "update") and txt(n.func.value) == nm for n in ast.walk(accept)):
            S = nm
    if S is None:
        o.undecided("neither a working copy nor a set of claimed edges is maintained", fn, accept)
        return
    adds = [n for n in ast.walk(accept) if isinstance(n, ast.Call) and isinstance(n.func, ast.Attribute) and n.func.attr in ("add", "update") and txt(n.func.value) == S]
    tests = [n for n in ast.walk(accept) if isinstance(n, ast.Compare) and len(n.ops) == 1 and isinstance(n.ops[0], (ast.In, ast.NotIn)) and txt(n.comparators[0]) == S]
    if len(adds) != 1 or len(tests) != 1:
        o.undecided(f"claimed-edge set `{S}`: expected one recording site and one membership test, found {len(adds)} / {len(tests)}", fn, accept)
        return
    ad, te = adds[0], tests[0]

    def pairs_source(node):
        """(edge variable, iterable text) of the comprehension / loop that feeds node."""
        comps = par.comps_of(node)
        if comps:
            g0 = comps[0].generators[0]
            return txt(g0.target), sc.resolve(g0.iter)
        lp = [l for l in par.loops_of(node) if l is not accept]
        if lp:
            return txt(lp[0].target), sc.resolve(lp[0].iter)
        return None, None
    # recording site
    if ad.func.attr == "update" and isinstance(ad.args[0], (ast.GeneratorExp, ast.ListComp, ast.SetComp)):
        g0 = ad.args[0].generators[0]
        evar_a, src_a, form_a = txt(g0.target), sc.resolve(g0.iter), _key_form(ad.args[0].elt, txt(g0.target))
    elif ad.func.attr == "update":
        evar_a, src_a, form_a = "e", sc.resolve(ad.args[0]), "raw"
    else:
        evar_a, src_a = pairs_source(ad)
        form_a = _key_form(ad.args[0], evar_a) if evar_a else None
    evar_t, src_t = pairs_source(te)
    form_t = _key_form(te.left, evar_t) if evar_t else None
    if src_a is None or src_t is None:
        o.undecided("recording / test sites of the claimed-edge set not recognised", fn, ad)
        return
    pa, pt = _pairs_of(src_a, prog, fn), _pairs_of(src_t, prog, fn)
    if pa == c and pt == c:
        o.holds(fn, ad, f"test set = claim set = all 2-subsets of `{c}`")
    else:
        o.violated(fn, ad, f"tested pairs come from `{txt(src_t)}` and recorded pairs from `{txt(src_a)}`; both must be all pairs of the accepted clique `{c}`")
    if form_a == form_t:
        o.holds(fn, te, f"edges are recorded and tested in the same key form ({form_a})")
    else:
        o.violated(fn, te, f"edges are RECORDED as `{form_a}` but TESTED as `{form_t}`: for an edge whose end points are listed in the other order the test misses the claim, "
                           "so a sub-clique re-labels an accepted clique's edges and edge-sharing cliques are both accepted")
    # acceptance guard: append only when no pair is already claimed
    st_t = par.stmt_of(te)
    ok_guard = False
    if isinstance(st_t, ast.If) and any(isinstance(x, ast.Continue) for x in st_t.body):
        t = st_t.test
        if isinstance(t, ast.Call) and txt(t.func) == "any" and isinstance(te.ops[0], ast.In):
            ok_guard = accept.body.index(st_t) < accept.body.index(par.stmt_of(app)) if st_t in accept.body and par.stmt_of(app) in accept.body else False
    ga = [a for a in par.ancestors(app) if isinstance(a, ast.If) and par.inside(a, accept)]
    if ga and isinstance(ga[0].test, ast.Call) and txt(ga[0].test.func) == "all" and isinstance(te.ops[0], ast.NotIn) and par.inside(te, ga[0].test):
        ok_guard = True
    if ga and isinstance(ga[0].test, ast.UnaryOp) and isinstance(ga[0].test.operand, ast.Call) and txt(ga[0].test.operand.func) == "any" and isinstance(te.ops[0], ast.In):
        ok_guard = True
    if ok_guard:
        o.holds(fn, st_t, "a clique is accepted only when none of its pairs is already claimed")
    else:
        o.undecided("acceptance guard of the claimed-set strategy not recognised", fn, st_t)


def run(ctx):
    prog = ctx.prog
    ctx.trust("networkx enumerate_all_cliques yields every clique (all sizes >= 1)", "sorted is stable; Graph.copy copies the edge set",
              "itertools.combinations(c, 2) = all 2-subsets of c; itertools.count(0) yields 0, 1, 2, ...")
    fn = prog.func("MPCC")
    sc = Scope(fn.node)
    par = sc.parents
    cfg = CFG(fn.node)
    G = fn.params[0]
    max_size = fn.params[1] if len(fn.params) > 1 else None
    copies = [nm for nm in sc.assigns if rules.is_copy_of(sc, nm, [G])]
    g = copies[0] if copies else None

    with ctx.obligation("C10.1", "the input graph is only labelled; structure is mutated on a copy; the input is returned", floor=2) as o:
        effs = rules.effects_on(prog, fn, [G], scope=sc)
        bad = []
        labels = []
        for e in effs:
            if e.kind == "store" and isinstance(e.node, ast.Assign):
                t = e.node.targets[0]
                if isinstance(t, ast.Subscript) and astx.const_value(t.slice) is None and isinstance(t.slice, ast.Constant) and t.slice.value == "clique" \
                        and isinstance(t.value, ast.Subscript) and txt(t.value.value) == f"{G}.edges":
                    labels.append(e)
                    continue
            bad.append(e)
        for e in bad:
            o.violated(fn, e.node, f"the input graph is changed beyond its 'clique' labels: {e.kind} on {e.path}")
        if not bad and g is not None:
            o.holds(fn, sc.def_stmt(g), f"structural mutators act on `{g} = {G}.copy()`; the only writes to `{G}` are {len(labels)} label store(s)")
        elif not bad and g is None and not any(isinstance(n, ast.Call) and isinstance(n.func, ast.Attribute) and n.func.attr in astx.GRAPH_MUTATORS for n in astx.walk_fn(fn.node)):
            o.holds(fn, fn.node, f"no structural mutator is applied to any graph; the only writes to `{G}` are {len(labels)} label store(s)", construct="no graph mutators")
        elif g is None:
            o.undecided(f"no working copy {G}.copy() found", fn)
        rets = [n for n in astx.walk_fn(fn.node) if isinstance(n, ast.Return)]
        if len(rets) == 1 and rets[0].value is not None and txt(rets[0].value) == G:
            o.holds(fn, rets[0], f"returns the labelled input graph `{G}`")
        elif len(rets) == 1 and rets[0].value is not None and txt(rets[0].value) == g:
            o.violated(fn, rets[0], f"returns the working copy `{g}`, whose edges have been removed")
        else:
            o.undecided("return value not recognised", fn)

    cliques_name = None
    with ctx.obligation("C10.2", "candidates are all cliques of the graph") as o:
        calls = [n for n in astx.walk_fn(fn.node) if isinstance(n, ast.Call) and (prog.external(fn.module, n.func) or "").startswith("networkx.")
                 and "clique" in (prog.external(fn.module, n.func) or "")]
        if len(calls) != 1:
            o.undecided(f"expected one networkx clique enumeration, found {len(calls)}", fn)
        else:
            e = prog.external(fn.module, calls[0].func)
            arg = txt(calls[0].args[0]) if calls[0].args else "?"
            if e == "networkx.enumerate_all_cliques" and arg in (g, G):
                o.holds(fn, calls[0], f"nx.enumerate_all_cliques({arg})")
            elif e == "networkx.find_cliques":
                o.violated(fn, calls[0], "find_cliques yields only MAXIMAL cliques: when a maximal clique is rejected its remaining edges have no smaller candidate and stay unlabelled")
            elif e == "networkx.enumerate_all_cliques":
                o.undecided(f"cliques enumerated on `{arg}`", fn, calls[0])
            else:
                o.undecided(f"{e} not recognised", fn, calls[0])
            st = par.stmt_of(calls[0])
            if isinstance(st, (ast.Assign, ast.AnnAssign)):
                cliques_name = txt(st.targets[0] if isinstance(st, ast.Assign) else st.target)

    # acceptance loop: the loop that contains cover.append(c)
    accept = None
    cover = None
    for n in astx.walk_fn(fn.node):
        if isinstance(n, ast.Call) and isinstance(n.func, ast.Attribute) and n.func.attr == "append" and len(n.args) == 1:
            lp = par.loops_of(n)
            if lp and txt(n.args[0]) == txt(lp[-1].target):
                accept, cover, app = lp[-1], txt(n.func.value), n

    with ctx.obligation("C10.3", "acceptance order is non-increasing in clique size") as o:
        if accept is None:
            o.undecided("acceptance loop (cover.append(c) for c in candidates) not found", fn)
        else:
            it = accept.iter
            src = None
            if isinstance(it, ast.Name):
                # last definition of the iterated list that dominates the loop
                defs = sc.assigns.get(it.id, [])
                sorts = [d for d in defs if isinstance(d.value, ast.Call) and txt(d.value.func) == "sorted"]
                inplace = [n for n in astx.walk_fn(fn.node) if isinstance(n, ast.Call) and isinstance(n.func, ast.Attribute) and n.func.attr == "sort" and txt(n.func.value) == it.id]
                if sorts:
                    src = sorts[-1].value
                    src_st = sorts[-1]
                elif inplace:
                    src = inplace[-1]
                    src_st = par.stmt_of(inplace[-1])
            elif isinstance(it, ast.Call) and txt(it.func) == "sorted":
                src, src_st = it, accept
            if src is None:
                o.violated(fn, accept, "candidates are not sorted by size before acceptance: a small clique can claim edges of a larger one (maximal-first is lost)")
            else:
                kws = {k.arg: txt(k.value) for k in src.keywords}
                if kws.get("key") == "len" and kws.get("reverse") == "True":
                    if src_st is accept or cfg.dominates(src_st, accept):
                        # nothing re-orders between the sort and the loop
                        later = [n for n in astx.walk_fn(fn.node) if isinstance(n, ast.Call) and (prog.external(fn.module, n.func) in ("random.shuffle",) or (isinstance(n.func, ast.Attribute) and n.func.attr in ("sort", "reverse")))
                                 and n.args and isinstance(it, ast.Name) and (txt(n.args[0]) == it.id) and n is not src
                                 and cfg.dominates(src_st, par.stmt_of(n)) and cfg.dominates(par.stmt_of(n), accept)]
                        if later:
                            o.violated(fn, later[0], "the candidates are re-ordered after the size sort")
                        else:
                            o.holds(fn, src_st, "sorted(candidates, key=len, reverse=True) dominates the acceptance loop")
                    else:
                        o.violated(fn, src_st, "the size sort does not dominate the acceptance loop")
                elif kws.get("key") == "len":
                    o.violated(fn, src_st, "candidates are sorted by ASCENDING size: single edges are accepted first and no larger clique survives")
                elif "key" in kws and "len" in kws["key"] and kws.get("reverse", "False") == "False" and "-" in kws["key"]:
                    o.holds(fn, src_st, f"sorted by key {kws['key']}")
                else:
                    o.violated(fn, src_st, f"candidates are sorted by `{kws}`, not by size descending")

    with ctx.obligation("C10.5", "the size limit compared with is the one the caller gave") as o:
        # `max_size` re-bound from the GRAPH (a clamp to the largest degree, to the clique number ..) is a different limit: a clique of
        # d + 1 vertices sits on vertices of degree d, so the top cliques are cut off
        if max_size:
            rebs = [n for n in astx.walk_fn(fn.node) if isinstance(n, (ast.Assign, ast.AugAssign, ast.AnnAssign)) and getattr(n, "value", None) is not None
                    and any(isinstance(t_, ast.Name) and t_.id == max_size for t_ in (n.targets if isinstance(n, ast.Assign) else [n.target]))]
            for rb in rebs:
                v_ = sc.resolve(rb.value)
                gnames = {x_ for x_ in (g, fn.node.args.args[0].arg if fn.node.args.args else None) if x_}
                if astx.names_in(v_) & gnames:
                    o.violated(fn, rb, f"`{txt(rb)[:70]}` replaces the caller's limit by a quantity read off the graph: cliques the caller allowed (up to degree + 1 vertices, "
                                       "or all of them for the default 0) are skipped", shape_free=True)
                else:
                    o.undecided(f"the limit is re-bound: `{txt(rb)[:60]}`", fn, rb)
            if not rebs:
                o.holds(fn, fn.node, f"`{max_size}` is never re-bound")

    with ctx.obligation("C10.5", "size limit: skip exactly cliques larger than a positive limit") as o:
        if accept is None:
            o.undecided("acceptance loop not found", fn)
        else:
            c = txt(accept.target)
            # the limit test is a path condition of the acceptance (`if ...: continue` or an enclosing `if`)
            conds = [(t_, p_) for t_, p_ in rules.path_conditions(par, app, upto=accept) if max_size and max_size in astx.names_in(sc.resolve(t_, keep=[c, max_size]))]
            elsewhere = [n for n in astx.walk_fn(fn.node) if isinstance(n, ast.Name) and n.id == max_size and not par.inside(n, accept)] if max_size else []
            # the default of the limit means "no limit": with the guard `limit > 0` that is 0 (or None / a negative number)
            a_ = fn.node.args
            pos_ = a_.posonlyargs + a_.args
            dflt_ = {p_.arg: d_ for p_, d_ in zip(pos_[len(pos_) - len(a_.defaults):], a_.defaults)}
            dflt_.update({p_.arg: d_ for p_, d_ in zip(a_.kwonlyargs, a_.kw_defaults) if d_ is not None})
            if max_size and max_size in dflt_:
                dv_ = astx.const_value(dflt_[max_size])
                if isinstance(dv_, (int, float)) and not isinstance(dv_, bool) and dv_ > 0:
                    o.violated(fn, dflt_[max_size], f"the default of `{max_size}` is {dv_!r}: a plain MPCC(G) now discards every clique larger than that (with 1: every clique with an edge), "
                                                    "instead of covering with all sizes")
            if not max_size:
                o.undecided("no size limit parameter", fn)
            elif not conds and elsewhere:
                o.undecided("the size limit is applied outside the acceptance loop: not recognised", fn, elsewhere[0])
            elif not conds:
                o.violated(fn, accept, "the size limit is ignored")
            else:
                env_ = {c: tm.sym(c), max_size: tm.sym(max_size)}
                terms = []
                for t_, p_ in conds:
                    tt = tm.translate(sc.resolve(t_, keep=[c, max_size]))
                    terms.append(tt if p_ else tm.mk_not(tt))
                got = tm.canon(tm.mk_bool("And", tuple(terms)))
                def skip_(src_):
                    return tm.canon(tm.mk_not(tm.parse(src_)))
                accepted = [skip_(f"len({c}) > {max_size} and {max_size} > 0"), skip_(f"len({c}) > {max_size} and {max_size} != 0"), skip_(f"len({c}) > {max_size} and {max_size}"),
                            skip_(f"len({c}) > {max_size} and {max_size} >= 1")]
                where = par.stmt_of(conds[0][0])
                if got in accepted:
                    o.holds(fn, where, f"skip iff len({c}) > {max_size} and {max_size} > 0")
                elif got == skip_(f"len({c}) > {max_size}"):
                    o.violated(fn, where, "with the default limit 0 every clique is skipped (the `max_size > 0` part is missing)")
                elif not tm.has_opaque(got) and tm.leaves(got) <= {c, max_size, "len()"} | {l for l in tm.leaves(got) if l.startswith("len")}:
                    o.violated(fn, where, f"`{' / '.join(txt(t_) for t_, _ in conds)}` does not skip exactly the cliques larger than a positive limit")
                else:
                    o.undecided(f"size-limit test `{txt(conds[0][0])}` not recognised", fn, where)

    claimed_sets = [nm for nm, sites in sc.assigns.items() if len(sites) == 1 and txt(sites[0].value) in ("set()", "set([])")]
    with ctx.obligation("C10.4", "every candidate clique is looked at: the acceptance loop is not left early") as o:
        if accept is None:
            o.undecided("acceptance loop not found", fn)
        else:
            par0 = astx.Parents(fn.node)
            own = [n for n in ast.walk(accept) if isinstance(n, (ast.Break, ast.Return)) and par0.loops_of(n) and par0.loops_of(n)[0] is accept]
            for j_ in own:
                conds_ = rules.path_conditions(par0, j_, upto=accept)
                ctext = " and ".join(txt(t_) if pol_ else f"not ({txt(t_)})" for t_, pol_ in conds_)
                gtxt = g or "g"
                none_left = [f"{gtxt}.number_of_edges() == 0", f"not {gtxt}.number_of_edges()", f"not {gtxt}.edges", f"not {gtxt}.edges()", f"{gtxt}.size() == 0",
                             f"len({gtxt}.edges) == 0", f"len({gtxt}.edges()) == 0", f"{gtxt}.number_of_edges() < 1", f"not {gtxt}.size()"]
                if len(conds_) == 1 and conds_[0][1] and txt(conds_[0][0]) in none_left:
                    o.holds(fn, j_, f"the loop ends when the working copy has no edge left (`{ctext}`): no later clique could be accepted")
                else:
                    o.violated(fn, j_, f"the loop over the candidate cliques is left (`{type(j_).__name__.lower()}`) when `{ctext or 'always'}`: the cliques that come later in the order "
                                       "(smaller ones, down to single edges) are never looked at, so their edges stay unlabelled", shape_free=True)
            if not own:
                o.holds(fn, accept, "no break / return belongs to the acceptance loop itself")

    with ctx.obligation("C10.4", "accept iff all pairs unclaimed, then claim all pairs of the same clique", floor=2) as o:
        if accept is not None and g is None and claimed_sets:
            _claimed_set_strategy(o, prog, fn, sc, par, accept, app, claimed_sets)
        elif accept is None or g is None:
            o.undecided("acceptance loop / working copy not found", fn)
        else:
            c = txt(accept.target)
            # `v in g[u]` / `v in g.adj[u]` / `v in g.neighbors(u)` IS g.has_edge(u, v) for a node u of g (clique members are nodes of g):
            # written as the call on the private tree
            class _Adj(ast.NodeTransformer):
                def visit_Compare(self, n):
                    self.generic_visit(n)
                    if len(n.ops) == 1 and isinstance(n.ops[0], (ast.In, ast.NotIn)):
                        r_ = n.comparators[0]
                        u_ = None
                        if isinstance(r_, ast.Subscript) and txt(r_.value) in (g, f"{g}.adj", f"{g}._adj"):
                            u_ = r_.slice
                        elif isinstance(r_, ast.Call) and txt(r_.func) == f"{g}.neighbors" and len(r_.args) == 1:
                            u_ = r_.args[0]
                        if u_ is not None:
                            call_ = ast.Call(func=ast.Attribute(value=ast.Name(id=g, ctx=ast.Load()), attr="has_edge", ctx=ast.Load()), args=[u_, n.left], keywords=[])
                            out_ = call_ if isinstance(n.ops[0], ast.In) else ast.UnaryOp(op=ast.Not(), operand=call_)
                            return ast.fix_missing_locations(ast.copy_location(out_, n))
                    return n
            _Adj().visit(accept)
            par = astx.Parents(fn.node)
            removes = [n for n in ast.walk(accept) if isinstance(n, ast.Call) and isinstance(n.func, ast.Attribute) and n.func.attr in ("remove_edges_from", "remove_edge")]
            tests = [n for n in ast.walk(accept) if isinstance(n, ast.Call) and isinstance(n.func, ast.Attribute) and n.func.attr == "has_edge"]
            if len(removes) != 1:
                o.violated(fn, accept, "accepted cliques' edges are never claimed (removed from the working copy): later cliques re-use them and labels overlap") if not removes \
                    else o.undecided("several removals", fn, accept)
            elif len(tests) != 1:
                o.violated(fn, accept, "no test that a clique's edges are still unclaimed: overlapping cliques are all accepted") if not tests else o.undecided("several has_edge tests", fn, accept)
            else:
                rm, te = removes[0], tests[0]
                if txt(rm.func.value) != g or txt(te.func.value) != g:
                    o.violated(fn, rm if txt(rm.func.value) != g else te, f"claim/test must both act on the working copy `{g}`")
                else:
                    claim = _pairs_of(rm.args[0], prog, fn) if rm.func.attr == "remove_edges_from" else None
                    # test set: has_edge(e[0], e[1]) / has_edge(*e) for e over combinations(c, 2)
                    tl = par.loops_of(te)
                    comps = par.comps_of(te)
                    e_it = None
                    if comps:
                        e_it, e_var = comps[0].generators[0].iter, txt(comps[0].generators[0].target)
                    elif tl and tl[0] is not accept:
                        e_it, e_var = tl[0].iter, txt(tl[0].target)
                    tset = _pairs_of(e_it, prog, fn) if e_it is not None else None
                    args = [txt(a) for a in te.args]
                    ok_args = e_it is not None and args in ([f"{e_var}[0]", f"{e_var}[1]"], [f"*{e_var}"], [f"{e_var}[1]", f"{e_var}[0]"])
                    e_tgt = comps[0].generators[0].target if comps else (tl[0].target if tl and tl[0] is not accept else None)
                    if e_it is not None and isinstance(e_tgt, ast.Tuple) and len(e_tgt.elts) == 2 and sorted(args) == sorted(txt(x) for x in e_tgt.elts):
                        ok_args = True   # for u, v in pairs: has_edge(u, v)
                    if claim == c and tset == c and ok_args:
                        o.holds(fn, rm, f"test set = claim set = all 2-subsets of `{c}`")
                    elif claim is not None and tset is not None and (claim != c or tset != c):
                        o.violated(fn, rm if claim != c else te, f"tested pairs come from `{tset}` and claimed pairs from `{claim}`; both must be all pairs of the accepted clique `{c}`")
                    else:
                        o.undecided("test/claim sets not recognised", fn, rm)
                    # the scan over the pairs may only stop early once a claimed pair has been FOUND: an exit that every iteration
                    # takes (a `break` / `return` that is a plain statement of the scan loop's body) tests the first pair only
                    if tl and tl[0] is not accept:
                        for bx in [x for x in tl[0].body if isinstance(x, (ast.Break, ast.Return))]:
                            o.violated(fn, bx, f"the scan over the pairs of `{c}` leaves after its first iteration (`{txt(bx)}` is unconditional in the loop body): only one pair is tested, "
                                               "a clique that shares a later pair with an accepted clique is accepted too and the shared edge is relabelled", shape_free=True)
                        for bx in [x for x in ast.walk(tl[0]) if isinstance(x, ast.Break) and not any(x is y for y in tl[0].body)]:
                            conds_ = rules.path_conditions(par, bx, upto=tl[0])
                            if conds_ and not any(any(z is te for z in ast.walk(t_)) for t_, _ in conds_):
                                o.undecided(f"the scan over the pairs stops under `{txt(conds_[0][0])}`, which is not the unclaimed-test", fn, bx)
                    # guards: append and remove only when no tested pair is missing
                    skip_flags = [s for s in ast.walk(accept) if isinstance(s, ast.Assign) and isinstance(s.value, ast.Constant) and s.value.value is True]
                    flag_names = {txt(f_.targets[0]) for f_ in skip_flags}

                    def _guard_of(node):
                        # the path condition of node (within one iteration) that carries the unclaimed test or its flag
                        for t_, p_ in rules.path_conditions(par, node, upto=accept):
                            if any(x is te for x in ast.walk(t_)) or (astx.names_in(t_) & flag_names):
                                return t_, p_
                        return None
                    gi, ga = _guard_of(rm), _guard_of(app)
                    if gi is None or ga is None:
                        o.violated(fn, rm if gi is None else app, "a clique is accepted / its edges claimed without the all-unclaimed test")
                    elif gi[0] is not ga[0] or gi[1] != ga[1]:
                        o.violated(fn, par.stmt_of(gi[0]), "acceptance and claiming are guarded differently: a clique can be accepted without claiming its edges (or vice versa)")
                    else:
                        guard = par.stmt_of(gi[0])
                        t = gi[0]
                        neg = not gi[1]
                        while isinstance(t, ast.UnaryOp) and isinstance(t.op, ast.Not):
                            neg, t = not neg, t.operand
                        if isinstance(t, ast.Name) and skip_flags and txt(skip_flags[0].targets[0]) == t.id:
                            # flag set True under `not g.has_edge(..)`; accept when flag is false
                            fl = skip_flags[0]
                            fi = [a for a in par.ancestors(fl) if isinstance(a, ast.If)]
                            set_on_missing = bool(fi) and isinstance(fi[0].test, ast.UnaryOp) and isinstance(fi[0].test.op, ast.Not) and fi[0].test.operand is te and par.branch_of(fl, fi[0]) == "body"
                            set_on_present = bool(fi) and fi[0].test is te and par.branch_of(fl, fi[0]) == "body"
                            # reset once per clique: inside the acceptance loop but outside any inner loop
                            init_false = [s for s in ast.walk(accept) if isinstance(s, (ast.Assign, ast.AnnAssign)) and txt(s.targets[0] if isinstance(s, ast.Assign) else s.target) == t.id
                                          and isinstance(s.value, ast.Constant) and s.value.value is False and par.loops_of(s) and par.loops_of(s)[0] is accept
                                          and cfg.dominates(s, par.stmt_of(fl) if par.loops_of(fl)[0] is accept else par.loops_of(fl)[-2 if len(par.loops_of(fl)) > 1 else 0])]
                            if set_on_missing and neg and init_false:
                                o.holds(fn, guard, "accepted only when no pair of the clique is missing from the working copy (flag reset per clique)")
                            elif set_on_missing and not neg:
                                o.violated(fn, guard, "a clique is accepted exactly when one of its edges is already claimed (guard inverted)")
                            elif set_on_present:
                                o.violated(fn, fi[0], "the skip flag is raised when an edge IS available: cliques with free edges are rejected")
                            elif not init_false:
                                o.violated(fn, fl, "the skip flag is not reset per clique: after the first rejection every later clique is rejected")
                            else:
                                o.undecided("skip-flag discipline not recognised", fn, guard)
                        elif isinstance(t, ast.Call) and txt(t.func) == "all" and comps and not neg:
                            o.holds(fn, guard, "accepted iff all(g.has_edge(..) for every pair)")
                        elif isinstance(t, ast.Call) and txt(t.func) == "any" and comps and neg and isinstance(comps[0].elt, ast.UnaryOp):
                            o.holds(fn, guard, "accepted iff not any(not g.has_edge(..) ...)")
                        else:
                            # evaluate the guard over the two facts that matter: ANY pair still free, ALL pairs still free
                            def _ev(x, env):
                                if isinstance(x, ast.UnaryOp) and isinstance(x.op, ast.Not):
                                    v_ = _ev(x.operand, env)
                                    return None if v_ is None else (not v_)
                                if isinstance(x, ast.BoolOp):
                                    vs_ = [_ev(v_, env) for v_ in x.values]
                                    if any(v_ is None for v_ in vs_):
                                        return None
                                    return all(vs_) if isinstance(x.op, ast.And) else any(vs_)
                                if isinstance(x, ast.Call) and txt(x.func) in ("any", "all") and len(x.args) == 1 and isinstance(x.args[0], (ast.GeneratorExp, ast.ListComp)):
                                    e_ = x.args[0].elt
                                    inv_ = False
                                    while isinstance(e_, ast.UnaryOp) and isinstance(e_.op, ast.Not):
                                        inv_, e_ = not inv_, e_.operand
                                    if isinstance(e_, ast.Call) and isinstance(e_.func, ast.Attribute) and e_.func.attr == "has_edge":
                                        if txt(x.func) == "any":
                                            return (not env["ALL"]) if inv_ else env["ANY"]      # any(not has) = not ALL ; any(has) = ANY
                                        return (not env["ANY"]) if inv_ else env["ALL"]          # all(not has) = not ANY ; all(has) = ALL
                                    return None
                                if isinstance(x, ast.Name):
                                    return True           # `edges` / `pairs`: a non-empty collection for every clique with an edge
                                return None
                            verdicts = {}
                            for name_, env_ in (("all free", {"ANY": True, "ALL": True}), ("some free, some taken", {"ANY": True, "ALL": False}), ("none free", {"ANY": False, "ALL": False})):
                                v_ = _ev(gi[0], env_)
                                verdicts[name_] = None if v_ is None else (v_ == gi[1])        # is the acceptance reached?
                            if None in verdicts.values():
                                o.undecided(f"acceptance guard `{txt(gi[0])}` not recognised", fn, guard)
                            elif verdicts == {"all free": True, "some free, some taken": False, "none free": False}:
                                o.holds(fn, guard, f"accepted iff every pair of the clique is still free (`{txt(gi[0])[:60]}`)")
                            elif verdicts["some free, some taken"]:
                                o.violated(fn, guard, f"`{txt(gi[0])[:70]}` accepts a clique of which only SOME pairs are still free: it overlaps an accepted clique, the shared edge is "
                                                      "relabelled and the earlier label no longer covers all pairs of its clique", shape_free=True)
                            elif not verdicts["all free"]:
                                o.violated(fn, guard, f"`{txt(gi[0])[:70]}` rejects a clique all of whose pairs are free", shape_free=True)
                            else:
                                o.undecided(f"acceptance guard `{txt(gi[0])}` not recognised", fn, guard)

    with ctx.obligation("C10.6", "labels: f'{len(c)}-{c}-{ID}' on every pair of every accepted clique; one fresh id per clique", floor=3) as o:
        stores = [n for n in astx.walk_fn(fn.node) if isinstance(n, ast.Assign) and isinstance(n.targets[0], ast.Subscript) and isinstance(n.targets[0].slice, ast.Constant)
                  and n.targets[0].slice.value == "clique"]
        if len(stores) != 1 or cover is None:
            o.undecided("label store not found", fn)
        else:
            st = stores[0]
            loops = par.loops_of(st)
            enum_id = None
            if len(loops) == 2 and match(pat(f"enumerate({cover})"), loops[1].iter) is not None and isinstance(loops[1].target, ast.Tuple) and len(loops[1].target.elts) == 2:
                enum_id = txt(loops[1].target.elts[0])
            if len(loops) != 2 or (txt(loops[1].iter) != cover and enum_id is None):
                if len(loops) == 2 and isinstance(loops[1].iter, ast.Subscript):
                    o.violated(fn, loops[1], "only part of the cover is labelled")
                else:
                    o.undecided("label store is not inside `for c in cover: for e in pairs(c):`", fn, st)
            else:
                el, cl = loops
                c = txt(cl.target) if enum_id is None else txt(cl.target.elts[1])
                e = txt(el.target)
                if _pairs_of(el.iter, prog, fn) == c:
                    o.holds(fn, el, f"every pair of `{c}` is labelled")
                else:
                    o.violated(fn, el, f"labelled pairs are `{txt(el.iter)}`, not all 2-subsets of the accepted clique")
                key = st.targets[0].value
                e_rev = f"({txt(el.target.elts[1])}, {txt(el.target.elts[0])})" if isinstance(el.target, ast.Tuple) and len(el.target.elts) == 2 else None
                if isinstance(key, ast.Subscript) and txt(key.value) == f"{G}.edges" and txt(key.slice) in (f"({e}[0], {e}[1])", f"{e}", f"({e}[1], {e}[0])", e_rev):
                    o.holds(fn, st, f"label stored on edge {e} of the input graph")
                else:
                    o.undecided(f"label target `{txt(st.targets[0])}` not recognised", fn, st)
                v = st.value
                if isinstance(v, ast.JoinedStr):
                    parts = []
                    for p in v.values:
                        if isinstance(p, ast.Constant):
                            parts.append(("lit", p.value))
                        else:
                            parts.append(("fmt", txt(sc.resolve(p.value, keep=[c]))))
                    idv = parts[-1][1] if parts and parts[-1][0] == "fmt" else None
                    want = [("fmt", f"len({c})"), ("lit", "-"), ("fmt", c), ("lit", "-")]
                    if parts[:4] == want and len(parts) == 5 and parts[4][0] == "fmt":
                        o.holds(fn, st, "label = size-members-id")
                        idexpr = v.values[4].value
                        idn = txt(idexpr)
                        idef = [s for s in cl.body if isinstance(s, (ast.Assign, ast.AnnAssign)) and txt(s.targets[0] if isinstance(s, ast.Assign) else s.target) == idn]
                        if enum_id is not None and idn == enum_id and not idef:
                            o.holds(fn, cl, f"id = position of the clique in `{cover}` (enumerate): one fresh id per accepted clique, starting at 0")
                        elif len(idef) == 1 and isinstance(idef[0].value, ast.Call) and txt(idef[0].value.func) == "next":
                            cn = txt(idef[0].value.args[0])
                            cdef = sc.def_stmt(cn)
                            if cdef is not None and isinstance(cdef.value, ast.Call) and prog.external(fn.module, cdef.value.func) == "itertools.count" and not par.loops_of(cdef):
                                o.holds(fn, idef[0], "one next(counter) per accepted clique, counter created once before the loop")
                            else:
                                o.violated(fn, idef[0], "the id counter is re-created inside the loop or is not itertools.count: ids repeat") if cdef is not None and par.loops_of(cdef) \
                                    else o.undecided("id counter not recognised", fn, idef[0])
                        elif any(isinstance(x, ast.Call) and txt(x.func) == "next" for x in ast.walk(el)):
                            o.violated(fn, el, "an id is drawn inside the per-edge loop: edges of one clique get different ids")
                        elif idn in (txt(cl.target),) or not idef:
                            lp_enum = match(pat(f"enumerate({cover})"), cl.iter)
                            o.undecided(f"id `{idn}` not recognised", fn, st)
                        else:
                            o.undecided(f"id `{idn}` not recognised", fn, st)
                    else:
                        o.violated(fn, st, f"label is `{txt(v)}`; message passing and the statement expect f'{{len(c)}}-{{c}}-{{ID}}'")
                else:
                    o.undecided("label is not an f-string", fn, st)
