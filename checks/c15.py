"""C15 - automated motif equation equals the exact bond-percolation expectation.

Decided (sufficient) - the history-independence sentence: the two caches hold structure only - nothing that
depends on phi or on the per-vertex u values can flow into a cached value or key (C15.1, taint), the cache
keys contain every input of the cached computation besides the motif's identity (C15.2), and cached values
are not mutated after lookup (C15.3).  Decided (necessary, not sufficient) - the term structure of the sum
(C15.4: singleton component (1-p)^deg; otherwise per-edge classification by the number of end points in the
component, one (1-p) per interface edge, p^(E-n)(1-p)^n per admissible removal count, product of u over the
non-root members; the working copy is stripped of non-internal edges and isolated vertices BEFORE us / the
edge combinations are taken from it) and the enumeration skeleton that makes each connected superset of the
root appear once (C15.5).  NOT decided: the polynomial identity between this enumeration and the expectation
for every motif."""
import ast

from gcmstatic import astx, rules, tm
from gcmstatic.astx import Scope, txt, pat, match
from gcmstatic.cfg import CFG
from gcmstatic.conform import conform

EXPLANATION = __doc__
CACHES = ("_connected_subgraphs", "_edge_combinations")

_REF_EQ = '''
def automated_equation(self, G, p, root):
    prob = 0.0
    for c in self.get_connected_subgraphs(G, root):
        c = list(c)
        if len(c) == 1:
            prob += (1 - p) ** len(list(G.neighbors(c[0])))
            continue
        interface = 1.0
        g = G.copy()
        for e in G.edges():
            if (e[0] not in c) and (e[1] not in c):
                pass
            elif (e[0] in c) and (e[1] in c):
                continue
            else:
                interface *= 1 - p
        us = self.get_us(g, root)
        for n in self.get_edge_combinations(g, c):
            prob += p ** (len(g.edges()) - n) * (1 - p) ** n * interface * us
    return prob
'''
# the singleton component is {root} (every enumerated vertex set contains the root, C15.2), and the number of neighbours
# of v is len(G[v]) = len(G.adj[v]) = len(list(G.neighbors(v))): all of these spell the same exponent
REF_EQ = [_REF_EQ.replace("len(list(G.neighbors(c[0])))", d.replace("V", v))
          for v in ("c[0]", "root") for d in ("len(list(G.neighbors(V)))", "len(G[V])", "len(G.adj[V])")]

REF_US = ['''
def get_us(self, G, root):
    product = 1.0
    for n in G.nodes():
        if n == root:
            continue
        product *= G.nodes[n]["u"]
    return product
''']


def _finer_key_hook(prog, ae):
    """The vertex-list argument of get_edge_combinations only feeds the cache key (checked here).  An argument that CONTAINS the
    reference's list next to further elements (`[p] + c`) keys the table more finely and changes no value: it is read as `c`."""
    gec = prog.method(ae.cls, "get_edge_combinations") if ae.cls is not None else None
    if gec is None or len(gec.params) != 3:
        return None
    pn = gec.params[2]
    msc = Scope(gec.node)
    key_nodes = []
    for y in astx.walk_fn(gec.node):
        if isinstance(y, ast.Subscript) and astx.self_attr(y.value) == "_edge_combinations":
            key_nodes.append(y.slice)
            for nm_ in astx.names_in(y.slice):
                for d_ in msc.assigns.get(nm_, []):
                    if getattr(d_, "value", None) is not None:
                        key_nodes.append(d_.value)
        if isinstance(y, ast.Compare) and any(astx.self_attr(c_) == "_edge_combinations" for c_ in y.comparators):
            key_nodes.append(y.left)
    in_key = {id(z) for kn in key_nodes for z in ast.walk(kn)}
    loads = [z for z in astx.walk_fn(gec.node) if isinstance(z, ast.Name) and z.id == pn and isinstance(z.ctx, ast.Load)]
    if not loads or not all(id(z) in in_key for z in loads):
        return None

    def hook(name, node, tr):
        if name == "self.get_edge_combinations" and len(node.args) == 2 and not node.keywords:
            a = node.args[1]
            if isinstance(a, ast.BinOp) and isinstance(a.op, ast.Add):
                for keep_, other in ((a.right, a.left), (a.left, a.right)):
                    if isinstance(other, (ast.List, ast.Tuple)) and isinstance(keep_, ast.Name):
                        import copy
                        n2 = copy.copy(node)
                        n2.args = [node.args[0], keep_]
                        return tr.tr(n2)
        return None
    return hook


def _u_reads(fn_node):
    out = []
    for n in (astx.walk_fn(fn_node) if isinstance(fn_node, (ast.FunctionDef, ast.AsyncFunctionDef)) else ast.walk(fn_node)):
        if isinstance(n, ast.Subscript) and isinstance(n.slice, ast.Constant) and n.slice.value == "u":
            out.append(n)
        if isinstance(n, ast.Call) and txt(n.func).endswith("get_node_attributes") and any(isinstance(a, ast.Constant) and a.value == "u" for a in n.args):
            out.append(n)
    return out


def _setup(prog):
    ci = prog.cls("AutomatedEquation")
    ae = prog.method(ci, "automated_equation")
    gus = prog.method(ci, "get_us")
    writers = {}
    for m in ci.methods.values():
        for n in astx.walk_fn(m.node):
            if isinstance(n, ast.Assign) and isinstance(n.targets[0], ast.Subscript) and astx.self_attr(n.targets[0].value) is not None:
                writers.setdefault(astx.self_attr(n.targets[0].value), []).append((m, n))
    ALL_CACHES = tuple(CACHES) + tuple(k for k in writers if k not in CACHES)
    return ci, ae, gus, writers, ALL_CACHES, ae.params[2]


def run_cache_rules_for(ctx, oid):
    ci, ae, gus, writers, ALL_CACHES, p_param = _setup(ctx.prog)
    cache_rules(ctx, oid, ctx.prog, ci, ae, gus, writers, ALL_CACHES, p_param)


def cache_rules(ctx, oid, prog, ci, ae, gus, writers, ALL_CACHES, p_param):
    """C15.1 (also run as C17.8: message passing keeps ONE evaluator alive across sweeps and phi values, so what the
    evaluator caches must not depend on phi or on the u values installed for one evaluation)."""
    with ctx.obligation(oid, "caches are structure-only: phi and the u values cannot flow into a cached value or key", floor=3) as o:
        # tainted locals of automated_equation
        tainted = {p_param}
        changed = True
        while changed:
            changed = False
            for n in astx.walk_fn(ae.node):
                tg = None
                if isinstance(n, ast.Assign) and len(n.targets) == 1 and isinstance(n.targets[0], ast.Name):
                    tg, v = n.targets[0].id, n.value
                elif isinstance(n, ast.AnnAssign) and isinstance(n.target, ast.Name) and n.value is not None:
                    tg, v = n.target.id, n.value
                elif isinstance(n, ast.AugAssign) and isinstance(n.target, ast.Name):
                    tg, v = n.target.id, n.value
                if tg and tg not in tainted:
                    if astx.names_in(v) & tainted or _u_reads(v) or any(isinstance(x, ast.Call) and txt(x.func) == "self.get_us" for x in ast.walk(v)):
                        tainted.add(tg)
                        changed = True
        from gcmstatic.normalize import load_vocabulary
        vocab_ = load_vocabulary()

        def _tainted_in(m_):
            """locals of m_ whose value depends on phi or on the u values"""
            t_ = {q for q in m_.params[1:] if q in (p_param, "p", "phi")}
            ch_ = True
            while ch_:
                ch_ = False
                for n_ in astx.walk_fn(m_.node):
                    tg_ = v_ = None
                    if isinstance(n_, ast.Assign) and len(n_.targets) == 1 and isinstance(n_.targets[0], ast.Name):
                        tg_, v_ = n_.targets[0].id, n_.value
                    elif isinstance(n_, ast.AugAssign) and isinstance(n_.target, ast.Name):
                        tg_, v_ = n_.target.id, n_.value
                    elif isinstance(n_, ast.Call) and isinstance(n_.func, ast.Attribute) and n_.func.attr in ("append", "extend", "add", "update", "insert") and isinstance(n_.func.value, ast.Name) and n_.args:
                        tg_, v_ = n_.func.value.id, ast.Tuple(elts=list(n_.args), ctx=ast.Load())
                    elif isinstance(n_, ast.Assign) and len(n_.targets) == 1 and isinstance(n_.targets[0], ast.Subscript) and isinstance(n_.targets[0].value, ast.Name):
                        tg_, v_ = n_.targets[0].value.id, n_.value
                    if tg_ and tg_ not in t_ and (astx.names_in(v_) & t_ or _u_reads(v_) or any(isinstance(x_, ast.Call) and txt(x_.func) == "self.get_us" for x_ in ast.walk(v_))):
                        t_.add(tg_)
                        ch_ = True
            return t_
        for cache in ALL_CACHES:
            ws = writers.get(cache, [])
            if not ws:
                o.undecided(f"no store into self.{cache} found", ae)
                continue
            for m, st in ws:
                if m is ae or (vocab_ and m.qualname not in vocab_):
                    # the store sits in the equation itself (a spliced helper) or in a new function: only what FLOWS into
                    # the stored value / key matters, not what else the function computes
                    t_ = _tainted_in(m)
                    used_ = astx.names_in(st.value) | astx.names_in(st.targets[0].slice)
                    if used_ & t_:
                        o.violated(m, st, f"the value cached in self.{cache} depends on {sorted(used_ & t_)} (phi / u): it is wrong for the next phi or u")
                    else:
                        o.holds(m, st, f"self.{cache}[key] is built from {sorted(used_)[:4]}, none of which depends on phi or on the u values")
                    continue
                # (a) the writer and its callees never read 'u' and have no phi parameter fed by a tainted argument
                reach = [m]
                for x in astx.walk_fn(m.node):
                    if isinstance(x, ast.Call):
                        cal = rules.resolve_call(prog, m, x)
                        if cal is not None and cal not in reach:
                            reach.append(cal)
                bad = False
                for f in reach:
                    ur = _u_reads(f.node)
                    if ur:
                        bad = True
                        o.violated(f, ur[0], f"`{txt(ur[0])}` reads the per-vertex u values inside the computation cached in self.{cache}: a later evaluation with other u "
                                             "values gets the stale result")
                if m is ae:
                    # stored directly from automated_equation: value/key must not mention tainted names
                    used = astx.names_in(st.value) | astx.names_in(st.targets[0].slice)
                    if used & tainted:
                        bad = True
                        o.violated(m, st, f"the value cached in self.{cache} depends on {sorted(used & tainted)} (phi / u): it is wrong for the next phi or u")
                else:
                    # call sites in automated_equation: no tainted argument
                    for x in astx.walk_fn(ae.node):
                        if isinstance(x, ast.Call) and txt(x.func) == f"self.{m.name}":
                            for ai, a in enumerate(x.args):
                                if astx.names_in(a) & tainted:
                                    # harmless when the receiving parameter only ever feeds the cache KEY: the table is then
                                    # keyed more finely (a recomputation per phi), the cached values are what they were
                                    pn = m.params[ai + 1] if ai + 1 < len(m.params) else None
                                    msc = Scope(m.node)
                                    key_nodes = []
                                    for y in astx.walk_fn(m.node):
                                        if isinstance(y, ast.Subscript) and astx.self_attr(y.value) == cache:
                                            key_nodes.append(y.slice)
                                            for nm_ in astx.names_in(y.slice):
                                                for d_ in msc.assigns.get(nm_, []):
                                                    if getattr(d_, "value", None) is not None:
                                                        key_nodes.append(d_.value)
                                        if isinstance(y, ast.Compare) and any(astx.self_attr(c_) == cache for c_ in y.comparators):
                                            key_nodes.append(y.left)
                                    in_key = {id(z) for kn in key_nodes for z in ast.walk(kn)}
                                    loads = [z for z in astx.walk_fn(m.node) if isinstance(z, ast.Name) and z.id == pn and isinstance(z.ctx, ast.Load)]
                                    if pn is not None and loads and all(id(z) in in_key for z in loads):
                                        o.holds(ae, x, f"`{txt(a)}` (depends on phi / u) reaches {m.name} only as part of the cache key `{pn}`: the table is keyed more finely, the cached values do not change")
                                        continue
                                    bad = True
                                    o.violated(ae, x, f"`{txt(a)}` (depends on phi / u) is passed into {m.name}, whose result is cached in self.{cache}")
                    # the writer itself must not compute with a parameter named like phi; every parameter is structural:
                    extra = [q for q in m.params[1:] if q in (p_param, "p", "phi")]
                    if extra:
                        bad = True
                        o.violated(m, m.node, f"{m.name} takes `{extra[0]}` and caches its result in self.{cache}")
                    used = astx.names_in(st.value)
                    msc = Scope(m.node)
                    # stored value built from pow/p-like arithmetic?
                    for nm in used:
                        d = msc.single_def(nm, allow_mutated=True)
                if not bad:
                    o.holds(m, st, f"self.{cache}[key] is computed from the graph structure only ({len(reach)} function(s) scanned, no read of 'u', no phi argument)")
        # (c) a cached VALUE must not be the motif graph, a copy or a view of it: graph objects carry the caller's 'u' attributes
        for cache in list(writers):
            for m, st in writers[cache]:
                msc = Scope(m.node)
                v = msc.resolve(st.value, allow_mutated=True)
                gparams = [q for q in m.params[1:] if q.lower() in ("g", "h", "graph", "motif")]
                for x in ast.walk(v):
                    carries = False
                    if isinstance(x, ast.Call) and isinstance(x.func, ast.Attribute) and x.func.attr in ("subgraph", "copy", "edge_subgraph", "to_undirected") \
                            and astx.root_name(x.func.value) in gparams:
                        carries = True
                    if isinstance(x, ast.Call) and txt(x.func) in ("nx.Graph", "networkx.Graph", "nx.subgraph", "nx.induced_subgraph") and x.args and astx.root_name(x.args[0]) in gparams:
                        carries = True
                    if carries:
                        o.violated(m, st, f"self.{cache} stores `{txt(x)[:60]}`, a graph object derived from the motif graph: it carries (or, as a view, aliases) the 'u' values of the "
                                          "call that filled the entry, so later evaluations of the same named motif read stale u")
                if isinstance(v, ast.Name) and v.id in gparams:
                    o.violated(m, st, f"self.{cache} stores the motif graph itself")
        # (d) a graph object that comes OUT of a cache still carries the u values of the call that stored it: reading u from it
        # (directly or through get_us) evaluates the motif with stale values
        for m in {mm.qualname: mm for ws_ in writers.values() for mm, _ in ws_}.values():
            cached_ = set()
            ch_ = True
            while ch_:
                ch_ = False
                for n_ in astx.walk_fn(m.node):
                    tgs_, v_ = [], None
                    if isinstance(n_, ast.Assign) and len(n_.targets) == 1:
                        tgs_, v_ = [x.id for x in ast.walk(n_.targets[0]) if isinstance(x, ast.Name) and isinstance(x.ctx, ast.Store)], n_.value
                    elif isinstance(n_, ast.For):
                        tgs_, v_ = [x.id for x in ast.walk(n_.target) if isinstance(x, ast.Name)], n_.iter
                    if v_ is None:
                        continue
                    from_cache_ = any(isinstance(x, ast.Subscript) and astx.self_attr(x.value) in writers and isinstance(x.ctx, ast.Load) for x in ast.walk(v_)) or \
                        any(isinstance(x, ast.Call) and isinstance(x.func, ast.Attribute) and x.func.attr in ("get", "setdefault") and astx.self_attr(x.func.value) in writers for x in ast.walk(v_)) or \
                        bool(astx.names_in(v_) & cached_)
                    fresh_ = isinstance(v_, ast.Call) and txt(v_.func) in ("list", "tuple", "len", "set", "sorted") and False
                    if from_cache_ and not fresh_:
                        for t_ in tgs_:
                            if t_ not in cached_:
                                cached_.add(t_)
                                ch_ = True
            for n_ in astx.walk_fn(m.node):
                if isinstance(n_, ast.Call) and txt(n_.func) == "self.get_us" and n_.args and isinstance(n_.args[0], ast.Name) and n_.args[0].id in cached_:
                    o.violated(m, n_, f"`{txt(n_)[:60]}` reads the u values from `{n_.args[0].id}`, an object taken out of the cache: they are the values of the call that filled the entry, "
                                      "not of this call (a later evaluation of the same named motif is answered with stale u)", shape_free=True)
            for ur_ in _u_reads(m.node):
                base_ = astx.root_name(ur_.value) if isinstance(ur_, ast.Subscript) else None
                if base_ in cached_:
                    o.violated(m, ur_, f"`{txt(ur_)[:60]}` reads u from `{base_}`, an object taken out of the cache (stale values of an earlier call)", shape_free=True)
        # positive control: get_us does read 'u' (the rule can see such reads)
        if not _u_reads(gus.node):
            o.undecided("positive control failed: no read of the 'u' attribute found in get_us", gus)
        else:
            o.holds(gus, _u_reads(gus.node)[0], "positive control: the rule sees the read of 'u' in get_us (which is not cached)")


def run(ctx):
    prog = ctx.prog
    ctx.trust("networkx Graph.copy / neighbors / remove_edges_from / is_connected", "motifs evaluated on one evaluator are distinctly named (the statement's contract)")
    ci = prog.cls("AutomatedEquation")
    ae = prog.method(ci, "automated_equation")
    gcs = prog.method(ci, "get_connected_subgraphs")
    rec = prog.method(ci, "_get_connected_subgraphs")
    gec = prog.method(ci, "get_edge_combinations")
    gus = prog.method(ci, "get_us")
    sc = Scope(ae.node)
    par = sc.parents
    Gp, p_param, root = ae.params[1], ae.params[2], ae.params[3]

    # which methods store into which cache (the two known caches plus any other dict attribute used as one)
    writers = {}
    for m in ci.methods.values():
        for n in astx.walk_fn(m.node):
            if isinstance(n, ast.Assign) and isinstance(n.targets[0], ast.Subscript) and astx.self_attr(n.targets[0].value) is not None:
                writers.setdefault(astx.self_attr(n.targets[0].value), []).append((m, n))
    ALL_CACHES = tuple(CACHES) + tuple(k for k in writers if k not in CACHES)

    cache_rules(ctx, "C15.1", prog, ci, ae, gus, writers, ALL_CACHES, p_param)

    with ctx.obligation("C15.2", "cache keys contain every input of the cached computation besides the motif's identity", floor=2) as o:
        for m, cache in ((gcs, "_connected_subgraphs"), (gec, "_edge_combinations")):
            msc = Scope(m.node)
            ws = [st for mm, st in writers.get(cache, []) if mm is m]
            lookups = [n for n in astx.walk_fn(m.node) if isinstance(n, ast.Subscript) and astx.self_attr(n.value) == cache]
            if not ws:
                o.undecided(f"{m.name} does not store into self.{cache}", m)
                continue
            keys = {txt(msc.resolve(n.slice)) for n in lookups}
            if len(keys) != 1:
                o.violated(m, ws[0], f"self.{cache} is written and read under different keys {sorted(keys)}")
                continue
            kexpr = msc.resolve(ws[0].targets[0].slice)
            parts = set()
            if isinstance(kexpr, ast.JoinedStr):
                for v in kexpr.values:
                    if isinstance(v, ast.FormattedValue):
                        parts.add(txt(v.value))
            elif isinstance(kexpr, ast.Tuple):
                parts = {txt(e) for e in kexpr.elts}
            else:
                o.undecided(f"cache key `{txt(kexpr)}` is neither an f-string nor a tuple", m, ws[0])
                continue
            Gm = m.params[1]
            need = set(m.params[2:]) | {f"{Gm}.name"}
            missing = need - parts
            if missing:
                o.violated(m, ws[0], f"cache key `{txt(kexpr)}` lacks {sorted(missing)}: the entry computed for one "
                                     f"{'focal vertex' if 'root' in missing else 'input'} is returned for another")
            else:
                o.holds(m, ws[0], f"key of self.{cache} = {sorted(parts)} covers parameters {sorted(need)}")

    with ctx.obligation("C15.3", "values read from a cache are not mutated afterwards") as o:
        from_cache = []
        for n in astx.walk_fn(ae.node):
            if isinstance(n, (ast.Assign, ast.AnnAssign)) and isinstance(n.value, ast.Call) and txt(n.value.func) in ("self.get_connected_subgraphs", "self.get_edge_combinations"):
                t = n.targets[0] if isinstance(n, ast.Assign) else n.target
                if isinstance(t, ast.Name):
                    from_cache.append(t.id)
        effs = rules.effects_on(prog, ae, from_cache, scope=sc) if from_cache else []
        # the loop variable over the cached list is re-bound to a copy (c = list(c)) before use
        if effs:
            for e in effs:
                o.violated(ae, e.node, f"{e.kind} on {e.path}: a cached structure is modified in place, later evaluations see the modified value")
        else:
            o.holds(ae, ae.node, f"no write effect on the values obtained from the caches ({from_cache or 'used inline'})", construct="effects on cached values")

    with ctx.obligation("C15.4", "factor structure of the sum; working copy stripped before it is used", floor=5) as o:
        conform(o, ae, REF_EQ, "automated_equation term structure", call_hook=_finer_key_hook(prog, ae))
        conform(o, gus, REF_US, "get_us = product of u over the members except the root")
        # the working copy g
        copies = [nm for nm in sc.assigns if rules.copy_source(sc.assigns[nm][0].value) == Gp]
        if len(copies) != 1:
            o.undecided("working copy g = G.copy() not found", ae)
        else:
            g = copies[0]
            rme = [n for n in astx.walk_fn(ae.node) if isinstance(n, ast.Call) and isinstance(n.func, ast.Attribute) and n.func.attr == "remove_edges_from" and txt(n.func.value) == g]
            rmn = [n for n in astx.walk_fn(ae.node) if isinstance(n, ast.Call) and isinstance(n.func, ast.Attribute) and n.func.attr == "remove_nodes_from" and txt(n.func.value) == g]
            uses = [n for n in astx.walk_fn(ae.node) if isinstance(n, ast.Call) and txt(n.func) in ("self.get_us", "self.get_edge_combinations") and n.args and txt(n.args[0]) == g]
            bad_uses = [n for n in astx.walk_fn(ae.node) if isinstance(n, ast.Call) and txt(n.func) in ("self.get_us", "self.get_edge_combinations") and n.args and txt(n.args[0]) != g]
            for n in bad_uses:
                if txt(n.args[0]) == Gp and len(n.args) == 2 and not n.keywords:
                    o.violated(ae, n, f"`{txt(n)}` works on `{txt(n.args[0])}`, not on the stripped component graph `{g}`")
                else:
                    o.undecided(f"`{txt(n)[:70]}` works on `{txt(n.args[0])}`: whether that is the stripped component graph `{g}` (or a restriction to it) is not recognised", ae, n)
            cfg = CFG(ae.node)
            if len(rme) != 1 or len(rmn) != 1 or len(uses) < 2:
                if not rme:
                    o.violated(ae, ae.node, f"interface / outside edges are never removed from `{g}`: edge combinations are counted on the whole motif")
                elif not rmn:
                    o.violated(ae, ae.node, f"isolated vertices are never removed from `{g}`: the connectivity test fails for every proper component and u values of outside vertices are multiplied in")
                else:
                    o.undecided("stripping of the working copy not recognised", ae)
            else:
                def _site(call_):
                    """the statement that stands for the removal: `if X: g.remove_..(X)` (skipped only when there is nothing to remove) counts as the removal"""
                    st_ = par.stmt_of(call_)
                    up_ = par.parent(st_)
                    if isinstance(up_, ast.If) and any(st_ is b_ for b_ in up_.body) and call_.args and not any(
                            isinstance(x_, ast.Call) and isinstance(x_.func, ast.Attribute) and x_.func.attr in ("remove_edges_from", "remove_nodes_from", "remove_edge", "remove_node") for b_ in up_.orelse for x_ in ast.walk(b_)):
                        a0 = txt(call_.args[0])
                        if txt(up_.test) in (a0, f"len({a0}) > 0", f"len({a0}) != 0", f"{a0} != []", f"len({a0})", f"len({a0}) >= 1"):
                            return up_
                    return st_
                s_rme, s_rmn = _site(rme[0]), _site(rmn[0])
                ok_dom = all(cfg.dominates(s_rme, par.stmt_of(u)) and cfg.dominates(s_rmn, par.stmt_of(u)) for u in uses)
                if ok_dom and cfg.dominates(s_rme, s_rmn):
                    o.holds(ae, rme[0], f"`{g}` is stripped of non-internal edges, then of isolated vertices, before get_us / get_edge_combinations use it")
                else:
                    o.violated(ae, rme[0], f"`{g}` is used before it has been stripped of non-internal edges and isolated vertices")
                # what is removed: edges_to_remove appended exactly on the two non-internal branches
                lst = txt(rme[0].args[0])
                eloops = [n for n in astx.walk_fn(ae.node) if isinstance(n, ast.For) and txt(n.iter) in (f"{Gp}.edges()", f"{Gp}.edges", f"{g}.edges()", f"{g}.edges", f"list({Gp}.edges())")
                          and any(isinstance(x, ast.Call) and txt(x.func) in (f"{lst}.append", f"{lst}.extend") for x in ast.walk(n))]
                ldefs = sc.assigns.get(lst, [])
                from gcmstatic import conform as _cf
                if len(eloops) == 1 and len(ldefs) == 1 and isinstance(rme[0].args[0], ast.Name):
                    el = eloops[0]
                    graph = astx.root_name(el.iter.func if isinstance(el.iter, ast.Call) and txt(el.iter.func) != "list" else (el.iter.args[0].func if isinstance(el.iter, ast.Call) else el.iter))
                    # the component variable: the (re-bound) target of the enclosing loop over the components
                    # the component variable: what the end points are tested against (`e[0] in c`)
                    memb = {txt(x.comparators[0]) for x in ast.walk(el) if isinstance(x, ast.Compare) and len(x.ops) == 1 and isinstance(x.ops[0], (ast.In, ast.NotIn))
                            and isinstance(x.comparators[0], ast.Name)}
                    cvar = memb.pop() if len(memb) == 1 else None
                    if cvar is None:
                        o.undecided("edge classification loop: enclosing component loop not recognised", ae, el)
                    else:
                        others = sorted((astx.names_in(el) - {graph, cvar, lst, "self"}) - {x.id for x in ast.walk(el) if isinstance(x, ast.Name) and isinstance(x.ctx, ast.Store)})
                        got = _cf.snippet_term([ldefs[0], el], lst, [graph, cvar] + others)
                        want = _cf.term_of_src("def f(G, c):\n    return [e for e in G.edges() if not (e[0] in c and e[1] in c)]\n")
                        if got == want:
                            o.holds(ae, el, "removed from the working copy: exactly the edges with fewer than two end points in the component")
                        elif tm.has_opaque(got):
                            o.undecided(f"edge classification loop not understood: {tm.show(got)[:160]}", ae, el)
                        else:
                            o.violated(ae, el, f"the edges removed from the working copy are  {tm.show(got)[:300]}  - they must be exactly the edges with fewer than two end points "
                                               f"in the component:  {tm.show(want)[:300]}  (internal edges removed, or interface / outside edges left in)")
                else:
                    o.undecided("edge classification loop not recognised", ae)
                # isolated vertices
                a = rmn[0].args[0]
                if isinstance(a, ast.ListComp) and txt(a.generators[0].iter) in (f"{g}.nodes()", f"{g}.nodes", f"list({g}.nodes())") and len(a.generators[0].ifs) == 1:
                    n_ = txt(a.generators[0].target)
                    cond = txt(a.generators[0].ifs[0])
                    nb = [f"list({g}.neighbors({n_}))", f"{g}[{n_}]", f"{g}.adj[{n_}]", f"{g}.neighbors({n_})", f"set({g}.neighbors({n_}))", f"tuple({g}.neighbors({n_}))"]
                    ok_conds = {f"{g}.degree({n_}) == 0", f"{g}.degree[{n_}] == 0"} | {f"len({x}) == 0" for x in nb if not x.endswith(f".neighbors({n_})")} \
                        | {f"not {x}" for x in nb if not x.endswith(f".neighbors({n_})")} | {f"len({x}) < 1" for x in nb if not x.endswith(f".neighbors({n_})")}
                    neg_conds = {f"len({x}) > 0" for x in nb} | {f"len({x}) != 0" for x in nb} | {f"{g}.degree({n_}) > 0", f"{g}.degree({n_}) != 0", f"{g}.degree({n_}) >= 1"} | set(nb)
                    if cond in ok_conds:
                        o.holds(ae, rmn[0], "exactly the isolated vertices are dropped")
                    elif cond in neg_conds or ("== 1" in cond or "<= 1" in cond or "< 2" in cond):
                        o.violated(ae, rmn[0], f"vertices dropped under `{cond}`, not exactly the isolated ones")
                    else:
                        o.undecided(f"condition `{cond}` under which vertices are dropped not recognised as 'isolated'", ae, rmn[0])
                elif txt(a) in (f"list(nx.isolates({g}))", f"nx.isolates({g})", f"list(networkx.isolates({g}))", f"tuple(nx.isolates({g}))") and prog.external(ae.module, ast.parse("nx.isolates", mode="eval").body) in ("networkx.isolates", None):
                    o.holds(ae, rmn[0], "exactly the isolated vertices are dropped (networkx.isolates, materialised before the removal)" if txt(a).startswith(("list", "tuple")) else "exactly the isolated vertices are dropped")
                else:
                    o.undecided("isolated-vertex removal not recognised", ae, rmn[0])
        # get_edge_combinations: every subset size 0..E, count connected remainders, record the size
        esc = Scope(gec.node)
        epar = esc.parents
        combs = [n for n in astx.walk_fn(gec.node) if isinstance(n, ast.Call) and prog.external(gec.module, n.func) == "itertools.combinations"]
        Ge = gec.params[1]
        if len(combs) != 1:
            o.undecided("itertools.combinations not found in get_edge_combinations", gec)
        else:
            cb = combs[0]
            lps = epar.loops_of(cb)
            okr = False
            if lps:
                b = match(pat("range($lo, $hi)"), lps[-1].iter) or match(pat("range($hi)"), lps[-1].iter)
                if b is not None:
                    lo = rules.term_of(b["lo"], esc) if "lo" in b else tm.ZERO
                    hi = rules.term_of(b["hi"], esc)
                    want_hi = tm.parse(f"len({Ge}.edges()) + 1")
                    alt_hi = tm.parse(f"{Ge}.number_of_edges() + 1")
                    if lo == tm.ZERO and hi in (want_hi, alt_hi) and txt(cb.args[1]) == txt(lps[-1].target) and txt(cb.args[0]) in (f"{Ge}.edges()", f"{Ge}.edges"):
                        okr = True
                        o.holds(gec, cb, "every subset of the edges, of every size 0..E")
                    elif lo == tm.ZERO and hi in (tm.sub(want_hi, tm.ONE), tm.sub(alt_hi, tm.ONE)) and txt(cb.args[1]) == txt(lps[-1].target) and txt(cb.args[0]) in (f"{Ge}.edges()", f"{Ge}.edges"):
                        # sizes 0..E-1: only the subset of ALL edges is left out, and removing every edge of a graph with two or
                        # more vertices never leaves it connected - that subset contributes nothing; automated_equation calls this
                        # only for components of at least two vertices (independent differential audit: identical values)
                        okr = True
                        o.holds(gec, cb, "every subset of the edges of size 0..E-1 (the full subset never leaves a motif component connected)")
                    elif not tm.has_opaque(hi):
                        o.violated(gec, lps[-1], f"subset sizes range({tm.show(lo)}, {tm.show(hi)}) do not cover 0..E: terms of the sum are missing")
            if not okr and not any(r.status == "VIOLATED" and r.function.endswith("get_edge_combinations") for r in o.results):
                o.undecided("subset enumeration not recognised", gec, cb)
            conn = [n for n in astx.walk_fn(gec.node) if isinstance(n, ast.Call) and prog.external(gec.module, n.func) == "networkx.is_connected"]
            app = [n for n in astx.walk_fn(gec.node) if isinstance(n, ast.Call) and isinstance(n.func, ast.Attribute) and n.func.attr == "append" and n.args and txt(n.args[0]).startswith("len(")]
            if len(conn) == 1 and len(app) == 1:
                # under which outcome of the connectivity test is the size recorded?  (enclosing if, negated
                # continue-guard, or the test bound to a local first - all are path conditions of the append)
                polarity = None
                ifn = epar.stmt_of(conn[0])
                for t_, p_ in rules.known_facts(epar, app[0]):
                    if txt(esc.resolve(t_)) == txt(conn[0]):
                        polarity = p_
                        ifn = epar.stmt_of(t_)
                if polarity is True:
                    tst = txt(conn[0].args[0])
                    rm = [n for n in astx.walk_fn(gec.node) if isinstance(n, ast.Call) and isinstance(n.func, ast.Attribute) and n.func.attr == "remove_edges_from" and txt(n.func.value) == tst]
                    if rm and rules.is_copy_of(esc, tst, [Ge]) or (rm and rules.copy_source(esc.single_def(tst, allow_mutated=True)) == Ge):
                        es = txt(rm[0].args[0])
                        if txt(app[0].args[0]) == f"len({es})":
                            o.holds(gec, app[0], "records the number of removed edges for every subset whose removal keeps the component connected")
                        else:
                            o.violated(gec, app[0], f"records `{txt(app[0].args[0])}`, not the number of removed edges")
                    else:
                        o.undecided("connectivity test is not on a fresh copy with the subset removed", gec, conn[0])
                elif polarity is False:
                    o.violated(gec, ifn, "counts the subsets whose removal DISconnects the component")
                else:
                    o.undecided("connectivity filter not recognised", gec)
            else:
                o.undecided("connectivity filter not recognised", gec)

    with ctx.obligation("C15.5", "enumeration skeleton: each connected superset of the root is produced exactly once", floor=4) as o:
        if rec is None:
            o.undecided("the recursive enumerator `_get_connected_subgraphs` no longer exists under a recognisable name", gcs)
            return
        rsc = Scope(rec.node)
        rp = rec.params  # self, G, subgraph, possible, excluded, results, max_size
        if len(rp) < 7:
            o.undecided("_get_connected_subgraphs signature changed", rec)
            return
        Gr, sub, poss, excl, res, mx = rp[1:7]
        body = astx.strip_logging(rec.body)
        first = body[0] if body else None
        if isinstance(first, ast.Expr) and match(pat(f"{res}.append({sub})"), first.value) is not None:
            o.holds(rec, first, "the current vertex set is recorded")
        else:
            o.violated(rec, rec.node, "the current vertex set is not recorded on entry: components are missing from the sum")
        rpar_ = rsc.parents
        early = [r_ for r_ in astx.walk_fn(rec.node) if isinstance(r_, ast.Return) and not rpar_.loops_of(r_)]
        xloops = [s for s in astx.walk_fn(rec.node) if isinstance(s, ast.For) and not rpar_.loops_of(s)]
        stop_terms = []
        for r_ in early:
            stop_terms.append((rules.path_term(rpar_, rsc, r_, keep=[sub, mx]), r_))
        if not early and len(xloops) == 1 and rules.path_conditions(rpar_, xloops[0]):
            # the extension loop itself is guarded instead:  if len(subgraph) != max_size: for ...
            stop_terms.append((tm.canon(tm.mk_not(rules.path_term(rpar_, rsc, xloops[0], keep=[sub, mx]))), xloops[0]))
        ok_stop = [rules.cond_term(f"len({sub}) == {mx}"), rules.cond_term(f"len({sub}) >= {mx}")]
        if len(stop_terms) == 1 and stop_terms[0][0] in ok_stop:
            o.holds(rec, stop_terms[0][1], "recursion stops at the full vertex set")
        elif len(stop_terms) == 1 and not tm.has_opaque(stop_terms[0][0]) and mx in tm.leaves(stop_terms[0][0]):
            o.violated(rec, stop_terms[0][1], f"recursion stops under `{tm.show(stop_terms[0][0])[:80]}`: larger components are never produced")
        elif stop_terms:
            o.undecided("stop test", rec, stop_terms[0][1])
        loops = xloops
        if len(loops) != 1:
            o.undecided("extension loop not found", rec)
            return
        lp = loops[0]
        j = txt(lp.target)
        if txt(lp.iter) != f"{poss} - {excl}":
            o.violated(rec, lp, f"extension vertices are `{txt(lp.iter)}`, expected the frontier minus the excluded set (`{poss} - {excl}`)")
        else:
            o.holds(rec, lp, f"extends by every frontier vertex not excluded: {poss} - {excl} (evaluated once at loop entry)")
        env = {}
        calls = []
        excl_rebound = False
        for s in lp.body:
            if isinstance(s, (ast.Assign, ast.AnnAssign)) and s.value is not None:
                t = s.targets[0] if isinstance(s, ast.Assign) else s.target
                if isinstance(t, ast.Name):
                    val = _subst(s.value, env)
                    if t.id == excl:
                        if txt(val) in (f"{excl} | {{{j}}}", f"{{{j}}} | {excl}", f"{excl}.union({{{j}}})"):
                            excl_rebound = True
                        env[excl] = ast.parse(f"{excl}__new", mode="eval").body
                    else:
                        env[t.id] = val
            elif isinstance(s, ast.Expr) and isinstance(s.value, ast.Call) and txt(s.value.func) == f"self.{rec.name}":
                calls.append((_subst(s.value, env), s))
            elif isinstance(s, ast.Expr) and isinstance(s.value, ast.Call) and isinstance(s.value.func, ast.Attribute) and s.value.func.attr in ("add", "update") \
                    and txt(s.value.func.value) == excl:
                o.violated(rec, s, f"`{txt(s.value)}` mutates the caller's exclusion set in place: siblings in other branches are excluded too and components go missing")
                return
        if not excl_rebound:
            o.violated(rec, lp, f"the chosen vertex `{j}` is not added to the loop-carried exclusion set (`{excl} = {excl} | {{{j}}}`): a set containing {j} and a later sibling "
                                "is produced in both branches - components are counted twice")
        else:
            o.holds(rec, lp, f"`{excl} = {excl} | {{{j}}}` re-binds the loop-carried exclusion set: it also holds for every later sibling")
        if len(calls) != 1:
            o.undecided("recursive call not found", rec, lp)
        else:
            c, st = calls[0]
            a = [txt(x) for x in c.args]
            E = f"{excl}__new" if excl_rebound else excl
            want_sub = {f"{sub} | {{{j}}}", f"{{{j}}} | {sub}"}
            want_front = {f"({poss} | set({Gr}.neighbors({j}))) - {E}", f"({poss} | set({Gr}.neighbors({j}))) - ({E})", f"{poss} | set({Gr}.neighbors({j})) - {E}"}
            ok = len(a) == 6 and a[0] == Gr and a[1] in want_sub and a[3] == E and a[4] == res and a[5] == mx
            okf = len(a) == 6 and a[2].replace(" ", "") in {w.replace(" ", "") for w in want_front if "| set" in w and w.startswith("(")}
            if ok and okf:
                o.holds(rec, st, "recursion on (subgraph + j, (frontier + N(j)) - excluded, excluded)")
            elif ok and not okf:
                o.violated(rec, st, f"the new frontier is `{a[2]}`, expected ({poss} | N({j})) - excluded")
            else:
                o.violated(rec, st, f"recursive call arguments ({', '.join(a)}) are not (G, subgraph + j, new frontier, excluded, results, max_size)")
        # entry call
        ent = [n for n in astx.walk_fn(gcs.node) if isinstance(n, ast.Call) and txt(n.func) == f"self.{rec.name}"]
        if len(ent) == 1:
            a = [txt(x) for x in ent[0].args]
            Gg, rt = gcs.params[1], gcs.params[2]
            if a[:4] == [Gg, f"{{{rt}}}", f"set({Gg}.neighbors({rt}))", f"{{{rt}}}"] and a[5] in (f"len({Gg}.nodes())", f"len({Gg})", f"{Gg}.order()", f"{Gg}.number_of_nodes()"):
                o.holds(gcs, ent[0], "enumeration starts from {root} with frontier N(root), excluded {root}, up to all vertices")
            else:
                o.violated(gcs, ent[0], f"enumeration starts with ({', '.join(a)})")
        elif not ent:
            inlined = any(isinstance(n, ast.For) and f"{gcs.params[1]}.neighbors" in txt(n) for n in astx.walk_fn(gcs.node))
            if inlined:
                o.undecided("the enumeration is written inside get_connected_subgraphs: entry call not recognised", gcs)
            else:
                o.violated(gcs, gcs.node, f"get_connected_subgraphs never starts the enumeration (no call of self.{rec.name}): the cached list of components stays empty and "
                                           "every motif's equation evaluates to 0")


def _subst(expr, env):
    import copy

    class T(ast.NodeTransformer):
        def visit_Name(self, n):
            if n.id in env:
                return copy.deepcopy(env[n.id])
            return n
    return T().visit(copy.deepcopy(expr))
