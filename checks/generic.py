"""Repo-wide generic rules run in the thorough tier as a cross-reference (informational: they feed the
evidence, they never change a property's verdict).  They stand in for the opt-in lints that are not installed
(mypy possibly-undefined / attr-defined, pyflakes): K1 attribute read before assignment along constructor
chains, K2 unresolved attribute on an imported third-party module, dynamic-feature scan (getattr/setattr/
exec/eval/__dict__ would void the effect and provenance rules), and the persistent-accumulator rule
(instance attributes accumulated by a public method without being re-bound first)."""
import ast
import importlib

from gcmstatic import astx
from gcmstatic.astx import txt
from gcmstatic.attrs import AttrState


def sweep(prog) -> dict:
    out = {"K1_unassigned_reads": [], "K2_unresolved_external": [], "dynamic_features": [], "persistent_accumulators": [],
           "classes_scanned": 0, "functions_scanned": len(prog.functions), "modules_scanned": len(prog.modules)}
    for ci in prog.classes.values():
        init = ci.methods.get("__init__")
        if init is None:
            continue
        out["classes_scanned"] += 1
        try:
            st = AttrState(prog, ci)
            s = st.summary(init)
        except Exception as e:  # pragma: no cover
            out["K1_unassigned_reads"].append({"class": ci.name, "error": str(e)})
            continue
        for a, sites in s.exposed.items():
            if a.startswith("__") or st.is_class_attr(a):
                continue
            f2, nd = sites[0]
            out["K1_unassigned_reads"].append({"class": ci.name, "attr": a, "where": f2.loc(nd), "function": f2.qualname})
        # persistent accumulators: public methods (no leading underscore) other than __init__
        for mname, m in ci.methods.items():
            if mname.startswith("_") or ".setter" in mname:
                continue
            try:
                ms = AttrState(prog, ci).summary(m)
            except Exception:
                continue
            for a in ms.stores:
                if a in ms.exposed and a not in ms.kills:
                    out["persistent_accumulators"].append({"class": ci.name, "method": mname, "attr": a,
                                                           "note": "accumulated without re-binding in this entry point (state persists across calls)"})
    for mi in prog.modules.values():
        for n in ast.walk(mi.tree):
            if isinstance(n, ast.Attribute):
                ext = prog.external(mi, n)
                if ext is None or ext.split(".")[0] == prog.package or "." not in ext:
                    continue
                root = ext.split(".")[0]
                if root not in ("numpy", "networkx", "math", "random", "itertools", "functools", "collections", "iteration_utilities"):
                    continue
                try:
                    obj = importlib.import_module(root)
                    for part in ext.split(".")[1:]:
                        obj = getattr(obj, part)
                except ImportError:
                    continue
                except AttributeError:
                    out["K2_unresolved_external"].append({"module": mi.relpath, "line": n.lineno, "chain": ext})
            if isinstance(n, ast.Call) and isinstance(n.func, ast.Name) and n.func.id in ("getattr", "setattr", "exec", "eval", "delattr", "vars", "globals", "locals"):
                out["dynamic_features"].append({"module": mi.relpath, "line": n.lineno, "call": n.func.id})
            if isinstance(n, ast.Attribute) and n.attr == "__dict__":
                out["dynamic_features"].append({"module": mi.relpath, "line": n.lineno, "call": "__dict__"})
    return out
