"""C05 - sampled joint degree sequences are handshake-consistent minimal perturbations.

Weighted draw of N keys: population and weights are the keys()/values() of the SAME mapping with no write in
between, k is the parameter N (C05.1); column sums (C05.2); the patch loop runs only when needed and
exactly size - sum % size times (C05.3: fewest additions, 1..size-1); the only write to a joint degree is
+1 on the topology's own column of a copy that is stored back at the same row (C05.4); no row is added or
removed and the row index is uniform over the rows (C05.5); patched rows are stored back as tuples (C05.6);
the patched list is what is returned (C05.7)."""
import ast

from gcmstatic import astx, rules, tm
from gcmstatic.astx import Scope, txt, pat, match

EXPLANATION = __doc__


def run(ctx):
    prog = ctx.prog
    ctx.trust("random.choices(population, weights, k) draws k items with replacement in proportion to weights",
              "random.randrange(0, n) is uniform on 0..n-1", "dict keys()/values() orders agree when the dict is not mutated in between")
    ci = prog.cls("JointDegree")
    sf = prog.method(ci, "sample_jds_from_jdd")
    hf = prog.method(ci, "handshaking_lemma")

    with ctx.obligation("C05.1", "weighted draw of N keys from one mapping") as o:
        sc = Scope(sf.node)
        N = sf.params[1]
        calls = [n for n in astx.walk_fn(sf.node) if isinstance(n, ast.Call) and prog.external(sf.module, n.func) in ("random.choices", "random.sample", "random.choice")]
        if len(calls) != 1:
            o.undecided(f"expected one random.choices call, found {len(calls)}", sf)
        elif prog.external(sf.module, calls[0].func) != "random.choices":
            o.violated(sf, calls[0], f"{txt(calls[0].func)} does not draw with replacement in proportion to the weights")
        else:
            c = calls[0]
            kw = {k.arg: k.value for k in c.keywords}
            pop = c.args[0] if c.args else kw.get("population")
            wts = c.args[1] if len(c.args) > 1 else kw.get("weights")
            kk = kw.get("k")
            state_src = []
            for arg_ in [pop, wts, kw.get("cum_weights")]:
                if arg_ is None:
                    continue
                for nm_ in rules.names_closure(sc, arg_):
                    for st_ in sc.assigns.get(nm_, []) + [x for x in sc.other_binds.get(nm_, []) if isinstance(x, ast.Assign)]:
                        for x in ast.walk(st_.value):
                            a_ = astx.self_attr(x)
                            if a_ is not None and a_ not in ("_jdd", "jdd") and prog.method(ci, a_) is None:
                                state_src.append((a_, st_))
                for x in ast.walk(arg_):
                    a_ = astx.self_attr(x)
                    if a_ is not None and a_ not in ("_jdd", "jdd") and prog.method(ci, a_) is None:
                        state_src.append((a_, c))
            if state_src:
                a_, st_ = state_src[0]
                o.violated(sf, st_, f"the draw takes its keys / weights from `self.{a_}`, state kept from an earlier call, instead of reading the current distribution: after the "
                                    "distribution is re-weighted in place the sample still follows the old weights")
            elif "cum_weights" in kw:
                o.undecided("cum_weights form not recognised", sf, c)
            elif wts is None:
                o.violated(sf, c, "random.choices without weights: keys are drawn uniformly, not in proportion to their probability")
            elif pop is None or kk is None:
                o.violated(sf, c, "random.choices without k draws a single joint degree, not N") if kk is None else o.undecided("no population", sf, c)
            else:
                rp, rw = sc.resolve(pop), sc.resolve(wts)
                bp = match(pat("list($m.keys())"), rp) or match(pat("list($m)"), rp)
                bw = match(pat("list($m.values())"), rw)
                if bp is None or bw is None:
                    if match(pat("list($m.keys())"), rw) is not None or match(pat("list($m.values())"), rp) is not None:
                        o.violated(sf, c, "population and weights are exchanged")
                    elif (bw is not None) != (bp is not None) and any(
                            match(pat(f"{w_}($m.{side}())"), r_) is not None or (side == "keys" and match(pat(f"{w_}($m)"), r_) is not None)
                            for w_ in ("sorted", "reversed", "set", "frozenset") for r_, side in ((rp, "keys"), (rw, "values"))):
                        odd_ = rp if bp is None else rw
                        o.violated(sf, c, f"`{txt(odd_)}` re-orders one side only: keys and weights are paired by POSITION, so every key is drawn with the weight of whatever key "
                                          "happens to stand at its place in the dictionary's own order", shape_free=True)
                    elif bp is not None and not any((isinstance(x, ast.Attribute) and x.attr in ("values", "items", "get")) or
                                                     (isinstance(x, ast.Subscript) and "_jdd" in txt(x.value)) for x in ast.walk(rw)):
                        o.violated(sf, c, f"weights `{txt(rw)}` are not derived from the distribution's probabilities")
                    elif isinstance(rp, (ast.ListComp, ast.GeneratorExp)) and len(rp.generators) == 1 and "_jdd" in txt(rp.generators[0].iter) and rp.generators[0].ifs and any(
                            astx.names_in(c_) & (astx.names_in(rp.generators[0].target.elts[0]) if isinstance(rp.generators[0].target, ast.Tuple) else astx.names_in(rp.generators[0].target))
                            for c_ in rp.generators[0].ifs):
                        kf_ = next(c_ for c_ in rp.generators[0].ifs if astx.names_in(c_) & (astx.names_in(rp.generators[0].target.elts[0]) if isinstance(rp.generators[0].target, ast.Tuple)
                                                                                             else astx.names_in(rp.generators[0].target)))
                        o.violated(sf, c, f"the population is filtered by a test on the KEY (`{txt(kf_)[:60]}`): joint degrees the distribution gives weight to (e.g. the all-zero "
                                          "tuple of isolated vertices) can never be drawn, the others are over-represented", shape_free=True)
                    else:
                        o.undecided(f"population `{txt(rp)}` / weights `{txt(rw)}` are not list(M.keys()) / list(M.values())", sf, c)
                elif txt(bp["m"]) != txt(bw["m"]):
                    o.violated(sf, c, f"keys are taken from `{txt(bp['m'])}` but weights from `{txt(bw['m'])}`: positions do not correspond")
                elif txt(bp["m"]) != "self._jdd":
                    o.undecided(f"draw is from `{txt(bp['m'])}`, not from the distribution self._jdd", sf, c)
                else:
                    effs = [n for n in astx.walk_fn(sf.node) if isinstance(n, (ast.Assign, ast.AugAssign, ast.Delete))
                            and any(astx.self_attr(astx_base(t)) == "_jdd" for t in _targets(n))]
                    if effs:
                        o.violated(sf, effs[0], "the distribution is written between reading its keys and its values")
                    else:
                        o.holds(sf, c, "population = list(self._jdd.keys()), weights = list(self._jdd.values())")
                tk = rules.term_of(kk, sc)
                if tk == tm.sym(N):
                    o.holds(sf, c, f"k = {N}")
                elif not tm.has_opaque(tk):
                    o.violated(sf, c, f"k = {tm.show(tk)}: the sample does not have exactly {N} entries")
                else:
                    o.undecided("k not understood", sf, c)

    with ctx.obligation("C05.7", "the drawn list goes through the handshake patch and the patched list is returned", floor=2) as o:
        sc = Scope(sf.node)
        rets = [n for n in astx.walk_fn(sf.node) if isinstance(n, ast.Return) and n.value is not None]
        ok = False
        for r in rets:
            b = match(pat("self.handshaking_lemma($x)"), r.value)
            if b is not None:
                src = sc.deref(b["x"])
                if isinstance(src, ast.Call) and prog.external(sf.module, src.func) == "random.choices":
                    ok = True
                    o.holds(sf, r, "return self.handshaking_lemma(<the drawn list>)")
                elif isinstance(src, ast.Subscript):
                    o.violated(sf, r, f"only `{txt(src)}` of the drawn list is patched and returned")
                    ok = True
        # EVERY exit hands back a patched list: a shortcut that returns draws (or copies of a key) directly skips the repair
        for r in rets:
            if "handshaking_lemma" in txt(r.value):
                continue
            if isinstance(r.value, (ast.List, ast.Tuple)) and not r.value.elts:
                continue        # an empty sample needs no repair
            pc_ = rules.path_conditions(astx.Parents(sf.node), r)
            if isinstance(r.value, ast.Name) and any(pol_ and txt(t_) in (f"not {r.value.id}", f"len({r.value.id}) == 0", f"{r.value.id} == []") for t_, pol_ in pc_):
                continue        # `if not jds: return jds`: the sample that is returned is empty
            if ok:
                o.violated(sf, r, f"`return {txt(r.value)[:50]}` leaves sample_jds_from_jdd without the handshake patch: on that path the column sums need not be "
                                  "divisible by the motif sizes", shape_free=True)
        if not ok:
            if rets and not any("handshaking_lemma" in txt(r.value) for r in rets):
                o.violated(sf, rets[0], "the sample is returned without the handshake patch: column sums need not be divisible by the motif sizes")
            else:
                o.undecided("return of sample_jds_from_jdd not recognised", sf)
        jds = hf.params[1]
        hrets = [n for n in astx.walk_fn(hf.node) if isinstance(n, ast.Return)]
        if len(hrets) == 1 and hrets[0].value is not None and txt(hrets[0].value) == jds and not astx.Parents(hf.node).loops_of(hrets[0]):
            o.holds(hf, hrets[0], f"handshaking_lemma returns the patched `{jds}`")
        elif len(hrets) == 1 and hrets[0].value is not None and isinstance(hrets[0].value, ast.Subscript):
            o.violated(hf, hrets[0], f"handshaking_lemma returns `{txt(hrets[0].value)}`, not all {jds}")
        elif any(astx.Parents(hf.node).loops_of(r) for r in hrets):
            o.violated(hf, hrets[0], "handshaking_lemma returns from inside the per-topology loop: later topologies are never patched")
        else:
            o.undecided("return of handshaking_lemma not recognised", hf)

    sc = Scope(hf.node)
    par = sc.parents
    jds = hf.params[1]

    with ctx.obligation("C05.2", "per-topology totals = column sums of the sequence") as o:
        outer = [n for n in hf.body if isinstance(n, ast.For)]
        if len(outer) != 1:
            o.undecided("handshaking_lemma does not have a single per-topology loop", hf)
            return
        lp = outer[0]
        it = sc.resolve(lp.iter)
        b = match(pat("enumerate($x)"), it)
        src = b["x"] if b is not None else None
        while src is not None and isinstance(src, ast.Call) and txt(src.func) in ("list", "tuple") and len(src.args) == 1:
            src = src.args[0]
        ok = src is not None and (match(pat(f"map(sum, zip(*{jds}))"), src) is not None
                                  or match(pat(f"[sum($c) for $c in zip(*{jds})]"), src) is not None
                                  or match(pat(f"(sum($c) for $c in zip(*{jds}))"), src) is not None)
        if ok and isinstance(lp.target, ast.Tuple) and len(lp.target.elts) == 2:
            o.holds(hf, lp, f"for i, total in enumerate(column sums of {jds})")
        elif src is not None and isinstance(src, ast.Subscript):
            o.violated(hf, lp, "only some topologies are checked for divisibility")
        else:
            o.undecided(f"per-topology totals `{txt(it)}` not recognised", hf, lp)
            return
    i, ntop = (txt(e) for e in lp.target.elts)
    m_txt = f"self._motif_sizes[{i}]"

    with ctx.obligation("C05.3", "patch only when needed and by the fewest stubs: size - total % size", floor=2) as o:
        ifs = [s for s in lp.body if isinstance(s, ast.If)]
        inner_loops = [n for n in ast.walk(lp) if isinstance(n, ast.For) and n is not lp]
        if len(inner_loops) != 1:
            o.undecided("patch loop not found", hf, lp)
            return
        pl = inner_loops[0]
        b = match(pat("range($n)"), pl.iter)
        if b is None:
            # batched form: rows drawn up front with random.choices(.., k=count)
            draws = [n for n in ast.walk(lp) if isinstance(n, ast.Call) and prog.external(hf.module, n.func) in ("random.choices", "random.sample")]
            dedups = [n for n in ast.walk(lp) if isinstance(n, (ast.DictComp, ast.SetComp)) or (isinstance(n, ast.Call) and txt(n.func) in ("set", "dict", "dict.fromkeys", "Counter"))]
            if len(draws) == 1 and prog.external(hf.module, draws[0].func) == "random.choices":
                dst = par.stmt_of(draws[0])
                dname = txt(dst.targets[0]) if isinstance(dst, ast.Assign) else None
                for d in dedups:
                    srcs = [txt(g_.iter) for g_ in d.generators] if isinstance(d, (ast.DictComp, ast.SetComp)) else [txt(a_) for a_ in d.args]
                    src_nodes = [g_.iter for g_ in d.generators] if isinstance(d, (ast.DictComp, ast.SetComp)) else list(d.args)
                    direct = any(x is draws[0] for s_ in src_nodes for x in ast.walk(s_))      # the draw is written in place
                    if direct or (dname and any(dname in s_ for s_ in srcs)):
                        o.violated(hf, d, f"rows are drawn WITH replacement (`{txt(draws[0])}`) and then collapsed by `{txt(d)[:60]}...`: a vertex drawn twice gains only one stub, "
                                          "so fewer stubs than the deficit are added and the total is not divisible by the motif size")
                        return
            o.undecided(f"patch loop `{txt(pl.iter)}` is not range(count)", hf, pl)
            return
        cnt = rules.term_at(par, sc, b["n"], pl, keep=[ntop, i])
        n_, m_ = tm.sym(ntop), tm.parse(m_txt)
        mod = tm.atom_poly(("mod", n_, m_))
        want_guarded = tm.sub(m_, mod)
        want_unguarded = [tm.atom_poly(("mod", tm.sub(m_, mod), m_)), tm.atom_poly(("mod", tm.neg(n_), m_)),
                          tm.canon(tm.mk_ifexp(tm.mk_cmp("Eq", mod, tm.ZERO), tm.ZERO, tm.sub(m_, mod)))]
        # the guard may be an enclosing `if` or a preceding `if ...: continue` - both are path conditions of the patch loop
        facts = rules.known_facts(par, pl, upto=lp)
        if facts:
            r, g = None, None
            for t_, pol in facts:
                r_ = rules.compare_with_pivot(t_, lambda x: tm.translate(sc.resolve(x)) == mod, negated=not pol)
                if r_ is not None:
                    r, g = r_, par.stmt_of(t_)
                    break
            if g is None:
                g = par.stmt_of(facts[0][0])
            gtest = facts[0][0] if r is None else None
            if r is not None and ((r[0] == "!=" and astx.const_value(r[1]) == 0) or (r[0] == ">" and astx.const_value(r[1]) == 0)):
                o.holds(hf, g, f"patch only when {ntop} % {m_txt} != 0")
                if cnt == want_guarded:
                    o.holds(hf, pl, f"adds exactly {tm.show(cnt)} stubs: the fewest that reach divisibility (1..size-1)")
                elif not tm.has_opaque(cnt):
                    o.violated(hf, pl, f"adds {tm.show(cnt)} stubs; the fewest additions that reach divisibility are {tm.show(want_guarded)}")
                else:
                    o.undecided("patch count not understood", hf, pl)
            elif r is not None:
                o.violated(hf, g, f"patch guard `{txt(g.test) if isinstance(g, ast.If) else txt(g)}` is not `{ntop} % {m_txt} != 0`")
            else:
                if m_txt.replace(f"[{i}]", "") in txt(sc.resolve(gtest)) and f"[{i}]" not in txt(sc.resolve(gtest)):
                    o.violated(hf, g, f"divisibility is tested against `{txt(gtest)}`, not against the size of topology {i}")
                else:
                    o.undecided(f"patch guard `{txt(gtest)}` not recognised", hf, g)
        else:
            if cnt in want_unguarded:
                o.holds(hf, pl, f"adds {tm.show(cnt)} stubs (0 when already divisible)")
                o.holds(hf, pl, "minimal count")
            elif cnt == want_guarded:
                # exact: the patch count IS the guarded formula and no path condition guards it - independent of the function's shape
                o.violated(hf, pl, f"without the divisibility guard {tm.show(cnt)} adds a whole extra motif's worth of stubs when the total is already divisible", shape_free=True)
            elif not tm.has_opaque(cnt) and tm.leaves(cnt) <= {ntop, i, "self._motif_sizes", "self"} | {l for l in tm.leaves(cnt) if l.endswith("()")}:
                o.violated(hf, pl, f"adds {tm.show(cnt)} stubs unconditionally")
            else:
                o.undecided(f"patch count {tm.show(cnt)[:80]} not understood", hf, pl)

    with ctx.obligation("C05.4", "the only write to a joint degree is +1 on the topology's own column, stored back at the same row", floor=2) as o, \
            ctx.obligation("C05.6", "patched rows are stored back as tuples") as o6, \
            ctx.obligation("C05.5", "length N preserved; the patched row is uniform over all rows", floor=2) as o5:
        body = list(astx.stmts_in(pl.body))
        augs = [s for s in body if isinstance(s, ast.AugAssign)]
        stores = [s for s in body if isinstance(s, ast.Assign) and len(s.targets) == 1 and isinstance(s.targets[0], ast.Subscript) and txt(s.targets[0].value) == jds]
        if len(augs) != 1 or len(stores) != 1:
            if not stores and augs:
                o.violated(hf, augs[0], f"the incremented copy is never stored back into {jds}: the patch has no effect")
            else:
                o.undecided("patch body is not {copy row; += 1; store back}", hf, pl)
            return
        aug, st = augs[0], stores[0]
        row = txt(st.targets[0].slice)
        tname = astx.root_name(aug.target)
        tdef = [s for s in body if isinstance(s, (ast.Assign, ast.AnnAssign)) and isinstance((s.targets[0] if isinstance(s, ast.Assign) else s.target), ast.Name)
                and (s.targets[0] if isinstance(s, ast.Assign) else s.target).id == tname]
        ok_copy = len(tdef) == 1 and match(pat(f"list({jds}[$r])"), tdef[0].value) is not None and txt(match(pat(f"list({jds}[$r])"), tdef[0].value)["r"]) == row
        col = txt(aug.target.slice) if isinstance(aug.target, ast.Subscript) else None
        if not isinstance(aug.op, ast.Add) or astx.const_value(aug.value) != 1:
            o.violated(hf, aug, f"`{txt(aug)}`: the patch must add exactly one stub (never remove, never more)")
        elif col != i:
            o.violated(hf, aug, f"`{txt(aug)}` patches column `{col}`, not the topology `{i}` whose total is not divisible")
        else:
            o.holds(hf, aug, f"+1 on column {i}")
        if ok_copy:
            o.holds(hf, st, f"copy of row {row} stored back at row {row}")
        elif len(tdef) == 1 and match(pat(f"list({jds}[$r])"), tdef[0].value) is not None:
            o.violated(hf, st, f"a copy of row `{txt(match(pat(f'list({jds}[$r])'), tdef[0].value)['r'])}` is stored at row `{row}`: another vertex's joint degree is overwritten")
        else:
            o.undecided("row copy not recognised", hf, st)
        v = st.value
        if isinstance(v, ast.Call) and txt(v.func) == "tuple" and len(v.args) == 1 and txt(v.args[0]) == tname:
            o6.holds(hf, st, "stored back as tuple(row)")
        elif isinstance(v, ast.Name) and v.id == tname:
            o6.violated(hf, st, f"`{txt(st)}` stores a list: patched entries are unhashable and rejected wherever a joint degree sequence is tabulated")
        elif isinstance(v, ast.Call) and txt(v.func) == "list":
            o6.violated(hf, st, f"`{txt(st)}` stores a list")
        else:
            o6.undecided(f"stored value `{txt(v)}` not recognised", hf, st)
        # C05.5
        effs = [e for e in rules.effects_on(prog, hf, [jds], scope=sc) if e.kind.startswith("call:") or e.kind == "del"]
        if effs:
            o5.violated(hf, effs[0].node, f"{effs[0].kind} on {effs[0].path}: the sequence no longer has exactly N entries")
        else:
            o5.holds(hf, hf.node, f"no append/insert/pop/del on `{jds}`")
        rdef = [s for s in body if isinstance(s, (ast.Assign, ast.AnnAssign)) and txt(s.targets[0] if isinstance(s, ast.Assign) else s.target) == row]
        if len(rdef) == 1 and isinstance(rdef[0].value, ast.Call):
            c = rdef[0].value
            e = prog.external(hf.module, c.func)
            args = [rules.term_of(a, sc) for a in c.args]
            ln = tm.parse(f"len({jds})")
            if e == "random.randrange" and (args == [tm.ZERO, ln] or args == [ln]):
                o5.holds(hf, rdef[0], "row = random.randrange(0, len(jds))")
            elif e == "random.randint" and args == [tm.ZERO, tm.sub(ln, tm.ONE)]:
                o5.holds(hf, rdef[0], "row = random.randint(0, len(jds) - 1)")
            elif e in ("random.randrange", "random.randint") and not any(tm.has_opaque(a) for a in args):
                o5.violated(hf, rdef[0], f"`{txt(rdef[0])}` is not uniform over all rows 0..len({jds})-1 (some vertex can never be patched or the index can be out of range)")
            else:
                o5.undecided(f"row choice `{txt(rdef[0])}` not recognised", hf, rdef[0])
        else:
            o5.undecided("row choice not recognised", hf, pl)


def _targets(n):
    if isinstance(n, ast.Assign):
        return n.targets
    if isinstance(n, ast.AugAssign):
        return [n.target]
    if isinstance(n, ast.Delete):
        return n.targets
    return []


def astx_base(t):
    while isinstance(t, ast.Subscript):
        t = t.value
    return t
