"""Generic state rules applied to the anchor files of every property (obligation `Cnn.S`).

Every property in the list quantifies over inputs / histories / configurations, so each of them is broken by
state that leaks between calls or between objects.  Three shapes of such leaks are decidable on the source and
are the shapes "optimising" edits produce:
  S1  a class-level mutable container written through `self` (shared by all instances of the class);
  S2  a memo table (dict filled under `if key not in D` / read back by key) whose key does not CONTAIN every
      parameter or loop variable the stored value depends on - the entry computed for one input is served to
      another;
  S3  functools memoisation (lru_cache / cache) on a function that takes `self` or a mutable object (graph,
      list, dict): the cached result goes stale when the object changes.
The three memoised pure-integer functions of number_connected_graphs (Q, QQ, binomial) and the two structural
caches of AutomatedEquation (covered in detail by C15.1-C15.3) are the instances present on the healthy tree."""
import ast
import json
import os

from gcmstatic import astx, rules
from gcmstatic.astx import Scope, txt

VERIF = os.path.dirname(os.path.dirname(os.path.abspath(__file__)))
MUTABLE_PARAM_HINTS = ("graph", "network", "jdd", "jds", "cover", "ejk", "qk", "edgelist")


def property_files(prop: str):
    with open(os.path.join(VERIF, "properties.jsonl")) as fh:
        for line in fh:
            p = json.loads(line)
            if p["id"] == prop:
                return list(p["anchors"]["files"])
    return []


def _mutable_literal(v):
    return isinstance(v, (ast.Dict, ast.List, ast.Set)) or (isinstance(v, ast.Call) and txt(v.func) in ("dict", "list", "set", "defaultdict", "Counter", "OrderedDict"))


def _init_attrs():
    try:
        return json.load(open(os.path.join(VERIF, "known_functions.json"))).get("init_attrs", {})
    except Exception:
        return {}


def _pinned_assigned(cls_name):
    """attribute names assigned anywhere in the class on the pinned tree (from the recorded local/attribute vocabulary)"""
    try:
        d = json.load(open(os.path.join(VERIF, "known_functions.json")))
        return set(d.get("class_attrs_assigned", {}).get(cls_name, []))
    except Exception:
        return set()


def _init_params():
    try:
        return json.load(open(os.path.join(VERIF, "known_functions.json"))).get("init_params", {})
    except Exception:
        return {}


def run_init_and_accessors(ctx, mods):
    """Cnn.I: attributes the constructor initialises on the pinned tree and that methods still read are still
    initialised by the constructor.  Cnn.A: a property setter stores into the field its getter returns."""
    from gcmstatic.attrs import AttrState
    prog = ctx.prog
    pinned = _init_attrs()
    with ctx.obligation(f"{ctx.prop}.I", "objects are fully configured by their constructor: every attribute the constructor set on the pinned tree and that methods "
                                        "still read is definitely assigned by it; property setters store into the field their getter returns") as o:
        n_cls = n_attr = n_acc = 0
        bad = False
        for mi in mods:
            for ci in mi.classes.values():
                init = prog.method(ci, "__init__")
                want = pinned.get(ci.name)
                if want and init is not None:
                    n_cls += 1
                    try:
                        st = AttrState(prog, ci)
                        isum = st.summary(init)
                        must = isum.must
                        # attributes some method reads before writing
                        read_somewhere = set()
                        for c2 in prog.mro(ci):
                            for m in c2.methods.values():
                                if m.name == "__init__":
                                    continue
                                if prog.method(ci, m.name) is not m and "setter" not in m.qualname:
                                    continue
                                try:
                                    read_somewhere |= set(st.summary(m).exposed)
                                except Exception:
                                    pass
                        for a in want:
                            if a in read_somewhere:
                                n_attr += 1
                                if a not in must and prog.class_attr(ci, a) is None and "*" in isum.kills:
                                    o.undecided(f"`{ci.name}.__init__` binds attributes by computed name (setattr): whether `self.{a}` is among them is not decided", init)
                                elif a not in must and prog.class_attr(ci, a) is None:
                                    bad = True
                                    o.violated(init, init.node, f"`{ci.name}.__init__` no longer assigns `self.{a}` on every path, but methods of the class read it: "
                                                                f"an object built by the constructor fails (AttributeError) or works on stale state when they run")
                    except Exception as e:
                        o.undecided(f"constructor analysis of {ci.name} failed: {type(e).__name__}: {e}", init)
                # derived state is built AFTER the configuration it is computed from: a `self.m()` in the constructor that reads
                # `self.a` (before writing it) must not be followed, on some path, by the constructor's own assignment of `self.a`
                # (the object would then report the new setting while holding what was computed from the old one / the default)
                own0 = ci.methods.get("__init__")
                if own0 is not None:
                    try:
                        import networkx as _nx
                        from gcmstatic.cfg import CFG as _CFG
                        st0 = AttrState(prog, ci)
                        cfg0 = _CFG(own0.node)
                        evs0 = {n_: st0.events(own0, cfg0.stmt[n_]) for n_ in cfg0.nodes()}
                        calls0 = [(n_, e_[1], e_[2]) for n_, ev_ in evs0.items() for e_ in ev_ if e_[0] == "call" and e_[1].name != "__init__"]
                        asg0 = [(n_, e_[1], e_[2]) for n_, ev_ in evs0.items() for e_ in ev_ if e_[0] == "assign"]
                        for cn_, m_, cnode_ in calls0:
                            needs = set(st0.summary(m_).exposed)
                            for an_, a_, anode_ in asg0:
                                if a_ in needs and an_ != cn_ and _nx.has_path(cfg0.g, cn_, an_):
                                    again = any(m2_ is m_ and n2_ != cn_ and _nx.has_path(cfg0.g, an_, n2_) for n2_, m2_, _ in calls0)
                                    if again:
                                        continue
                                    bad = True
                                    o.violated(own0, cfg0.stmt[cn_], f"`{ci.name}.__init__` runs `self.{m_.name}()` (which reads `self.{a_}`) BEFORE it stores `self.{a_}` "
                                                                    f"(line {getattr(anode_, 'lineno', '?')}): what {m_.name} builds comes from the old value / the class default, "
                                                                    "while the object reports the caller's setting", shape_free=True)
                    except Exception as e:
                        o.undecided(f"constructor order analysis of {ci.name} failed: {type(e).__name__}: {e}", own0)
                # several OPTIONAL keys read inside one swallowing try: the first missing key also discards the ones read after it
                if own0 is not None and len(own0.params) >= 2:
                    pp0 = own0.params[1]
                    for tr_ in [n for n in astx.walk_fn(own0.node) if isinstance(n, ast.Try)]:
                        sw = [h_ for h_ in tr_.handlers if all(isinstance(x_, (ast.Pass, ast.Continue)) or (isinstance(x_, ast.Expr) and isinstance(x_.value, ast.Constant)) for x_ in h_.body)
                              and (h_.type is None or any(nm_ in txt(h_.type) for nm_ in ("KeyError", "Exception", "LookupError")))]
                        if not sw:
                            continue
                        reads = []
                        for st_ in tr_.body:
                            ks_ = [txt(x_.slice) for x_ in ast.walk(st_) if isinstance(x_, ast.Subscript) and txt(x_.value) == pp0]
                            if ks_ and isinstance(st_, (ast.Assign, ast.AnnAssign)) and any(astx.self_attr(t_) for t_ in (st_.targets if isinstance(st_, ast.Assign) else [st_.target])):
                                reads.append((st_, ks_[0]))
                        keys_ = []
                        for _, k_ in reads:
                            if k_ not in keys_:
                                keys_.append(k_)
                        if len(keys_) >= 2:
                            bad = True
                            later = next(st_ for st_, k_ in reads if k_ != keys_[0])
                            o.violated(own0, later, f"`{txt(later)[:60]}` sits in one `try: .. except {txt(sw[0].type) if sw[0].type is not None else ''}: pass` with the read of {pp0}[{keys_[0]}]: "
                                                   f"when {keys_[0]} is absent the handler swallows the error and {keys_[1]} - which the caller DID pass - is never stored", shape_free=True)
                # configuration keys: self.<attr> <- params[KEY] as on the pinned tree
                own_init = ci.methods.get("__init__")
                wantp = _init_params().get(ci.name)
                if wantp and own_init is not None and len(own_init.params) >= 2:
                    from gcmstatic import rules as _rules, tm as _tm
                    pp = own_init.params[1]
                    isc = Scope(own_init.node)
                    for a, spec in wantp.items():
                        stores = [n for n in astx.walk_fn(own_init.node) if isinstance(n, (ast.Assign, ast.AnnAssign)) and n.value is not None
                                  and any(astx.self_attr(t_) == a for t_ in (n.targets if isinstance(n, ast.Assign) else [n.target]))]
                        hits = [n for n in stores if any(isinstance(x, ast.Subscript) and txt(x.value) == pp and txt(x.slice) == spec["key"] for x in ast.walk(isc.resolve(n.value)))]
                        n_attr += 1
                        if not stores:
                            continue     # reported (if it matters) by the definite-assignment rule above
                        # positional configuration (sizes, names, index lists pair up by position with other parameters and with the
                        # columns of the joint degrees): the value is stored AS GIVEN, not sorted / de-duplicated / reversed
                        for n_ in hits:
                            v_ = isc.resolve(n_.value)
                            wraps = [x for x in ast.walk(v_) if isinstance(x, ast.Call) and txt(x.func) in ("sorted", "set", "frozenset", "reversed", "dict.fromkeys")
                                     and any(isinstance(y, ast.Subscript) and txt(y.value) == pp and txt(y.slice) == spec["key"] for y in ast.walk(x))]
                            # the same wrapper applied to every ELEMENT: [sorted(x) for x in params[KEY]]
                            if not wraps and isinstance(v_, (ast.ListComp, ast.GeneratorExp)) and len(v_.generators) == 1 and isinstance(v_.generators[0].target, ast.Name) \
                                    and isinstance(v_.generators[0].iter, ast.Subscript) and txt(v_.generators[0].iter.value) == pp and txt(v_.generators[0].iter.slice) == spec["key"]:
                                tv_ = v_.generators[0].target.id
                                wraps = [x for x in ast.walk(v_.elt) if isinstance(x, ast.Call) and txt(x.func) in ("sorted", "set", "frozenset", "reversed") and x.args and txt(x.args[0]) == tv_]
                            # the caller's list used only as a FILTER over another container: [x for x in other if x in params[KEY]] takes
                            # its order (and multiplicity) from `other`
                            if not wraps and isinstance(v_, (ast.ListComp, ast.GeneratorExp)) and len(v_.generators) == 1:
                                g_ = v_.generators[0]
                                is_key = lambda y: isinstance(y, ast.Subscript) and txt(y.value) == pp and txt(y.slice) == spec["key"]
                                if not any(is_key(y) for y in ast.walk(g_.iter)) and any(
                                        isinstance(c_, ast.Compare) and len(c_.ops) == 1 and isinstance(c_.ops[0], ast.In) and is_key(c_.comparators[0]) for c_ in g_.ifs):
                                    wraps = [v_]
                            if wraps:
                                bad = True
                                o.violated(own_init, n_, f"`self.{a}` stores `{txt(wraps[0])[:60]}`, not {pp}[{spec['key']}] as the caller gave it: the entries pair up BY POSITION with "
                                                         "the other parameters (and with the columns of every joint degree), so a re-ordered / de-duplicated copy silently re-pairs them", shape_free=True)
                        if not hits:
                            # the value may come through .get(KEY, default) or a helper we cannot see: only accuse when the key is not mentioned at all
                            mentioned = any(spec["key"] in txt(x) for x in ast.walk(own_init.node) if isinstance(x, (ast.Subscript, ast.Call, ast.Compare)))
                            if not mentioned:
                                bad = True
                                o.violated(own_init, stores[-1], f"`{ci.name}.__init__` no longer stores {pp}[{spec['key']}] into `self.{a}`: the caller's setting is ignored "
                                                                  f"(the attribute keeps `{txt(stores[-1].value)[:40]}`)")
                            else:
                                # stored straight from ANOTHER key of the same parameter dict, under the test for its own key: a copy-paste slip
                                other = [n for n in stores if isinstance(isc.resolve(n.value), ast.Subscript) and txt(isc.resolve(n.value).value) == pp
                                         and txt(isc.resolve(n.value).slice) != spec["key"] and txt(isc.resolve(n.value).slice).split(".")[0] == spec["key"].split(".")[0]]
                                if other:
                                    bad = True
                                    o.violated(own_init, other[-1], f"`self.{a}` is stored from {pp}[{txt(isc.resolve(other[-1].value).slice)}], not from {pp}[{spec['key']}]: the caller's "
                                                                     f"setting for {spec['key'].split('.')[-1]} is ignored (and a dictionary that gives only that key raises)", shape_free=True)
                                else:
                                    o.undecided(f"`self.{a}` is not assigned from {pp}[{spec['key']}] in a recognised way", own_init, stores[-1])
                            continue
                        if spec.get("guarded"):
                            got = _rules.path_term(isc.parents, isc, hits[-1])
                            want_t = _rules.cond_term(f"{spec['key']} in {pp}")
                            if got != want_t and _tm.single_atom(got) != ("boolconst", True) and not _tm.has_opaque(got):
                                bad = True
                                o.violated(own_init, hits[-1], f"`self.{a}` takes {pp}[{spec['key']}] under `{_tm.show(got)[:80]}`, not when the key is present: "
                                                                "a setting the caller supplies is ignored (or a missing one raises)")
                # accessors
                getters = {k: m for k, m in ci.methods.items() if "property" in m.decorators and not k.endswith(".setter")}
                for name, g in getters.items():
                    sm = ci.methods.get(name + ".setter")
                    body = astx.strip_logging([s_ for s_ in g.body if not (isinstance(s_, ast.Expr) and isinstance(s_.value, ast.Constant))])
                    if sm is None or len(body) != 1 or not isinstance(body[0], ast.Return):
                        continue
                    fld = astx.self_attr(body[0].value)
                    if fld is None or len(sm.params) < 2:
                        continue
                    n_acc += 1
                    val = sm.params[1]
                    stores = [n for n in astx.walk_fn(sm.node) if isinstance(n, (ast.Assign, ast.AnnAssign)) and
                              any(astx.self_attr(t_) == fld for t_ in (n.targets if isinstance(n, ast.Assign) else [n.target]))]
                    if not stores:
                        bad = True
                        o.violated(sm, sm.node, f"the setter of `{ci.name}.{name}` does not store into `self.{fld}`, the field its getter returns: assignments through the property are lost")
                    elif not any(val in astx.names_in(n.value) for n in stores if n.value is not None):
                        bad = True
                        o.violated(sm, stores[0], f"the setter of `{ci.name}.{name}` stores `{txt(stores[0].value)}`, not the value it was given (`{val}`)")
                    else:
                        # WHAT is stored: the value itself (or a plain copy), not a lazy / re-ordered / de-duplicated / re-labelled rendering of it
                        ssc = Scope(sm.node)
                        for n in stores:
                            if n.value is None:
                                continue
                            v_ = ssc.resolve(n.value)
                            inner = lambda x: any(isinstance(y, ast.Name) and y.id == val for y in ast.walk(x))
                            lazy = [x for x in ast.walk(v_) if (isinstance(x, ast.Call) and txt(x.func) in ("map", "filter", "zip", "iter", "reversed", "enumerate") and inner(x)) or
                                    (isinstance(x, ast.GeneratorExp) and inner(x))]
                            # a lazy object consumed on the spot (list(map(..)), sorted(x for ..)) is not what is stored
                            lazy = [x for x in lazy if x is v_]
                            reorder = [x for x in ast.walk(v_) if isinstance(x, ast.Call) and inner(x) and
                                       (txt(x.func) in ("sorted", "set", "frozenset", "dict.fromkeys") or
                                        (prog.external(sm.module, x.func) or "") in ("networkx.convert_node_labels_to_integers", "networkx.relabel_nodes",
                                                                                      "networkx.relabel.convert_node_labels_to_integers", "networkx.relabel.relabel_nodes",
                                                                                      "random.sample", "numpy.unique"))]
                            keep_old = isinstance(v_, ast.BoolOp) and isinstance(v_.op, ast.Or) and astx.self_attr(v_.values[0]) == fld
                            if lazy:
                                bad = True
                                o.violated(sm, n, f"the setter of `{ci.name}.{name}` stores the one-shot iterator `{txt(lazy[0])[:60]}`: the getter hands the same object to every reader, "
                                                  "so the second reader (a second conversion, an inspection followed by a conversion) sees it empty", shape_free=True)
                            elif reorder:
                                bad = True
                                o.violated(sm, n, f"the setter of `{ci.name}.{name}` stores `{txt(reorder[0])[:70]}`, a re-ordered / de-duplicated / re-labelled rendering of the value it was given: "
                                                  "entries no longer line up with the parallel fields (and vertex ids no longer with the caller's)", shape_free=True)
                            elif keep_old:
                                bad = True
                                o.violated(sm, n, f"the setter of `{ci.name}.{name}` keeps the old `self.{fld}` whenever one is set (`{txt(v_)[:60]}`): assignments through the property are lost", shape_free=True)
        if not bad:
            o.holds(None, None, f"{n_cls} constructors / {n_attr} configured attributes that methods read, {n_acc} property getter-setter pairs", construct="constructor and accessor scan")


def run_exports(ctx, mods0):
    """Cnn.I (exports): the package's `__init__` modules hand out the property's functions / classes under their own names and
    unwrapped.  `from .poisson import exponential as poisson`, `Q as QQ`, or `bond_percolate = lru_cache(..)(bond_percolate)` change
    what `gcmpy.<name>` is without touching the implementation."""
    prog = ctx.prog
    own = {}
    for m in mods0:
        for nm in list(m.functions) + list(m.classes):
            own[nm] = m
    inits = [m for m in prog.modules.values() if m.relpath.endswith("__init__.py")]
    if not inits or not own:
        return
    with ctx.obligation(f"{ctx.prop}.I", "package exports bind each public name of the anchor modules to the object of that name, unwrapped") as o:
        n = 0
        for mi in inits:
            for st in mi.tree.body:
                if isinstance(st, ast.ImportFrom):
                    for al in st.names:
                        src_mod = st.module or ""
                        if al.asname and al.asname != al.name and (al.asname in own or al.name in own):
                            n += 1
                            o.violated(None, st, f"{mi.relpath}: `{al.name} as {al.asname}` exports `{al.name}` of {src_mod} under the name `{al.asname}`"
                                                 + (f", which is the name of another object of {own[al.asname].name}" if al.asname in own else "")
                                                 + ": callers of the package-level name get a different function", shape_free=True)
                        elif al.name in own and not al.asname:
                            # the same name must come from the module that defines it
                            defmod = own[al.name].name
                            if src_mod and not (src_mod == defmod or defmod.endswith("." + src_mod.lstrip(".")) or src_mod.endswith(defmod.split(".")[-1])):
                                n += 1
                                o.undecided(f"{mi.relpath}: `{al.name}` is imported from {src_mod}, not from {defmod}", None, st)
                            else:
                                n += 1
                                o.holds(None, st, f"{mi.relpath}: `{al.name}` exported under its own name from {src_mod}")
                elif isinstance(st, (ast.Assign, ast.AnnAssign)):
                    tg = st.targets[0] if isinstance(st, ast.Assign) else st.target
                    if isinstance(tg, ast.Name) and tg.id in own and getattr(st, "value", None) is not None:
                        n += 1
                        v = st.value
                        if isinstance(v, ast.Name) and v.id == tg.id:
                            continue
                        wrapped = any(isinstance(x, ast.Name) and x.id == tg.id for x in ast.walk(v))
                        caching = any(isinstance(x, (ast.Name, ast.Attribute)) and txt(x).split(".")[-1] in ("lru_cache", "cache", "memoize", "cached") for x in ast.walk(v))
                        if wrapped and caching:
                            o.violated(None, st, f"{mi.relpath}: the exported `{tg.id}` is wrapped in a memoising decorator (`{txt(v)[:60]}`): calls with equal arguments return the first "
                                                 "result for ever - random draws are replayed and later changes of a mutable argument are ignored", shape_free=True)
                        else:
                            o.undecided(f"{mi.relpath}: the exported name `{tg.id}` is re-bound to `{txt(v)[:60]}`", None, st)
        if not n:
            o.holds(None, None, "the package __init__ modules do not mention the anchor modules' names", construct="scan of __init__.py files")


# properties whose statement is DISTRIBUTIONAL ("independently with probability phi", "uniformly random"): the library must not
# reseed / restore the global generator anywhere, or every later draw in the process repeats a fixed sequence (C03 carries the same
# scan as C03.3).  Properties of the form "for every sequence of draws X holds" are not affected by a reseed and do not carry it.
RANDOM_PROPS = ("C18",)


def run_reseed(ctx):
    prog = ctx.prog
    with ctx.obligation(f"{ctx.prop}.R", "the package never reseeds the global RNG") as o:
        seeds = []
        for fn in prog.all_functions():
            for n in astx.walk_fn(fn.node):
                if isinstance(n, ast.Call):
                    e = prog.external(fn.module, n.func)
                    if e in ("random.seed", "random.setstate", "numpy.random.seed", "numpy.random.set_state"):
                        seeds.append((fn, n, e))
        for mi in prog.modules.values():
            for st in mi.tree.body:
                if isinstance(st, ast.Expr) and isinstance(st.value, ast.Call) and prog.external(mi, st.value.func) in ("random.seed", "random.setstate", "numpy.random.seed"):
                    seeds.append((None, st, "module-level " + txt(st.value.func)))
        for fn, n, e in seeds:
            o.violated(fn, n, f"{e} inside library code fixes the state of the shared generator: every draw that follows in the process repeats a fixed sequence, "
                              "so the random choices this property quantifies over are no longer independent / uniform", shape_free=True)
        if not seeds:
            o.holds(None, None, f"no random.seed / setstate call in {len(prog.functions)} functions", construct="repo-wide scan")


def run(ctx):
    prog = ctx.prog
    files = set(property_files(ctx.prop))
    if not files:
        return
    if ctx.prop in RANDOM_PROPS:
        run_reseed(ctx)
    mods0 = [m for m in prog.modules.values() if m.relpath in files]
    if mods0:
        run_init_and_accessors(ctx, mods0)
        try:
            run_exports(ctx, mods0)
        except Exception as e_:
            with ctx.obligation(f"{ctx.prop}.I", "package exports") as o_:
                o_.undecided(f"export scan failed: {type(e_).__name__}: {e_}")
    with ctx.obligation(f"{ctx.prop}.S", "no state leaks between calls or objects in the anchor files (shared class state, incomplete memo keys, memoised mutable arguments)") as o:
        n_classes = n_funcs = n_memo = 0
        found = False
        mods = [m for m in prog.modules.values() if m.relpath in files]
        if not mods:
            o.undecided(f"none of the anchor files {sorted(files)} exists")
            return
        for mi in mods:
            prog.note(mi)
            # ---- S1
            for ci in mi.classes.values():
                n_classes += 1
                for a, v in ci.class_attrs.items():
                    if not _mutable_literal(v):
                        continue
                    fam = [ci] + prog.subclasses(ci)
                    rebound = any(astx.self_attr(t) == a for c2 in fam for m in c2.methods.values() for n in astx.walk_fn(m.node)
                                  if isinstance(n, (ast.Assign, ast.AnnAssign)) for t in (n.targets if isinstance(n, ast.Assign) else [n.target]))
                    if rebound:
                        continue
                    for c2 in fam:
                        for m in c2.methods.values():
                            for n in astx.walk_fn(m.node):
                                hit = False
                                if isinstance(n, (ast.Assign, ast.AugAssign)):
                                    hit = any(isinstance(t, ast.Subscript) and astx.self_attr(t.value) == a for t in (n.targets if isinstance(n, ast.Assign) else [n.target]))
                                if isinstance(n, ast.Call) and isinstance(n.func, ast.Attribute) and n.func.attr in astx.MUTATOR_METHODS and astx.self_attr(n.func.value) == a:
                                    hit = True
                                if hit:
                                    found = True
                                    o.violated(m, n, f"S1: `{ci.name}.{a}` is a class-level mutable container written through `self.{a}`: it is shared by every {ci.name} object, "
                                                     "so one object's (or one call's) values are silently re-used by another", shape_free=True)
            # ---- S8: a mutable default argument that becomes state.  The default object is created ONCE, when the function is
            # defined: storing it on self (then filling it), mutating it, or returning it shares it between every call / object
            # that relies on the default.  A default that is only read is harmless and is not reported.
            for f8 in [f_ for f_ in prog.all_functions() if f_.module is mi]:
                a8 = f8.node.args
                pos = a8.posonlyargs + a8.args
                pairs = list(zip(pos[len(pos) - len(a8.defaults):], a8.defaults)) + [(k_, d_) for k_, d_ in zip(a8.kwonlyargs, a8.kw_defaults) if d_ is not None]
                for arg_, dflt in pairs:
                    mut_ctor = isinstance(dflt, ast.Call) and txt(dflt.func).split(".")[-1] in (
                        "Graph", "DiGraph", "MultiGraph", "MultiDiGraph", "defaultdict", "Counter", "OrderedDict", "deque", "bytearray", "zeros", "ones", "empty", "array", "Network", "LightWeightEdgeList")
                    if not _mutable_literal(dflt) and not mut_ctor:
                        continue
                    nm8 = arg_.arg
                    sc8 = Scope(f8.node)
                    if len(sc8.assigns.get(nm8, [])) > 0:
                        continue        # re-bound inside (`x = x or []` style): not followed
                    how = None
                    for n in astx.walk_fn(f8.node):
                        if isinstance(n, (ast.Assign, ast.AnnAssign)) and isinstance(getattr(n, "value", None), ast.Name) and n.value.id == nm8:
                            tgts = n.targets if isinstance(n, ast.Assign) else [n.target]
                            if any(astx.self_attr(t_) is not None or isinstance(t_, ast.Subscript) for t_ in tgts):
                                how = (n, f"stored as `{txt(tgts[0])}`")
                        if isinstance(n, ast.Call) and isinstance(n.func, ast.Attribute) and n.func.attr in astx.MUTATOR_METHODS and isinstance(n.func.value, ast.Name) and n.func.value.id == nm8:
                            how = how or (n, f"modified by `{txt(n)[:50]}`")
                        if isinstance(n, (ast.Assign, ast.AugAssign)) and any(isinstance(t_, ast.Subscript) and isinstance(t_.value, ast.Name) and t_.value.id == nm8
                                                                              for t_ in (n.targets if isinstance(n, ast.Assign) else [n.target])):
                            how = how or (n, f"written by `{txt(n)[:50]}`")
                        if isinstance(n, ast.Return) and isinstance(n.value, ast.Name) and n.value.id == nm8:
                            how = how or (n, "returned to the caller")
                    if how is not None:
                        found = True
                        o.violated(f8, how[0], f"S8: the mutable default `{nm8}={txt(dflt)}` of `{f8.qualname}` is {how[1]}: the one default object is shared by every call / object that "
                                               "does not pass the argument, so what one of them puts in is seen by the next", shape_free=True)
            # ---- S9: a one-shot iterator bound to a name and traversed twice.  itertools producers, map / zip / filter and generator
            # expressions can be walked ONCE: a second traversal sees nothing, and two consumers fed from the same object
            # (`zip(it, map(f, it))`) take turns.  (`iter(x)` followed by `next` is the deliberate use of that and is not reported.)
            ONE_SHOT = {"map", "zip", "filter", "product", "itertools.product", "combinations", "itertools.combinations", "permutations", "itertools.permutations",
                        "chain", "itertools.chain", "chain.from_iterable", "itertools.chain.from_iterable", "starmap", "itertools.starmap", "accumulate", "itertools.accumulate",
                        "pairwise", "itertools.pairwise", "batched", "itertools.batched", "islice", "itertools.islice", "zip_longest", "itertools.zip_longest", "enumerate", "reversed"}
            for f9 in [f_ for f_ in prog.all_functions() if f_.module is mi]:
                sc9 = Scope(f9.node)
                par9 = astx.Parents(f9.node)
                for nm9, sites in sc9.assigns.items():
                    if len(sites) != 1 or not isinstance(sites[0], ast.Assign) or nm9 in f9.params:
                        continue
                    v9 = sites[0].value
                    if not (isinstance(v9, ast.GeneratorExp) or (isinstance(v9, ast.Call) and txt(v9.func) in ONE_SHOT)):
                        continue
                    if par9.loops_of(sites[0]):
                        continue        # re-created per iteration: each object is traversed in its own iteration
                    reads = [n for n in astx.walk_fn(f9.node) if isinstance(n, ast.Name) and n.id == nm9 and isinstance(n.ctx, ast.Load)]
                    consuming = []
                    for r9 in reads:
                        p9 = par9.parent(r9)
                        if isinstance(p9, (ast.For, ast.comprehension)) and p9.iter is r9:
                            consuming.append(r9)
                        elif isinstance(p9, ast.Call) and r9 in p9.args and txt(p9.func) not in ("next", "isinstance", "id", "type", "iter"):
                            consuming.append(r9)
                        elif isinstance(p9, ast.Starred):
                            consuming.append(r9)
                    in_loop = [r9 for r9 in consuming if par9.loops_of(r9)]
                    if len(consuming) >= 2 or in_loop:
                        found = True
                        where = consuming[1] if len(consuming) >= 2 else in_loop[0]
                        o.violated(f9, par9.stmt_of(where) or where, f"S9: `{nm9} = {txt(v9)[:50]}` is a one-shot iterator, and it is traversed " +
                                   ("more than once" if len(consuming) >= 2 else "inside a loop (again on every iteration)") +
                                   ": after the first pass it is exhausted (or two consumers of the same object take turns) - the later traversal sees nothing / half of the items", shape_free=True)
            # ---- S10: `copy.copy(G)` of a networkx graph is SHALLOW - the new object shares the adjacency and node dictionaries with
            # the original, so removing / adding edges on the "copy" edits the caller's graph (G.copy() and copy.deepcopy do not)
            GRAPH_MUT = {"remove_edge", "remove_edges_from", "add_edge", "add_edges_from", "remove_node", "remove_nodes_from", "add_node", "add_nodes_from", "clear", "clear_edges", "update"}
            for f10 in [f_ for f_ in prog.all_functions() if f_.module is mi]:
                sc10 = Scope(f10.node)
                for nm10, sites in sc10.assigns.items():
                    for st10 in sites:
                        v10 = getattr(st10, "value", None)
                        if not (isinstance(v10, ast.Call) and len(v10.args) == 1 and (txt(v10.func) == "copy.copy" or prog.external(mi, v10.func) == "copy.copy")):
                            continue
                        muts = [n for n in astx.walk_fn(f10.node) if isinstance(n, ast.Call) and isinstance(n.func, ast.Attribute) and n.func.attr in GRAPH_MUT and txt(n.func.value) == nm10]
                        if muts:
                            found = True
                            o.violated(f10, st10, f"S10: `{txt(st10)}` is a SHALLOW copy (it shares the adjacency dictionaries of `{txt(v10.args[0])}`), and `{txt(muts[0])[:50]}` then edits it: "
                                                  "the caller's graph is modified as well", shape_free=True)
            # ---- S13: a graph re-built from its own EDGES (`G.edge_subgraph(G.edges())`, `nx.Graph(G.edges(data=True))`, `nx.from_edgelist(G.edges)`)
            # has lost every vertex without an edge and every vertex attribute: when that rendering is what the object keeps / hands on,
            # isolated vertices silently drop out of counts, fractions and joint degrees
            for f13 in [f_ for f_ in prog.all_functions() if f_.module is mi]:
                par13 = None
                for c13 in [n for n in astx.walk_fn(f13.node) if isinstance(n, ast.Call)]:
                    src13 = None
                    if isinstance(c13.func, ast.Attribute) and c13.func.attr == "edge_subgraph" and len(c13.args) == 1:
                        g_ = txt(c13.func.value)
                        a_ = c13.args[0]
                        if isinstance(a_, ast.Call) and txt(a_.func) in ("list", "tuple", "set") and len(a_.args) == 1:
                            a_ = a_.args[0]
                        if txt(a_) in (f"{g_}.edges", f"{g_}.edges()"):
                            src13 = g_
                    elif (prog.external(mi, c13.func) or "") in ("networkx.Graph", "networkx.from_edgelist", "networkx.convert.from_edgelist") and len(c13.args) == 1:
                        a_ = c13.args[0]
                        if isinstance(a_, ast.Call) and txt(a_.func) in ("list", "tuple") and len(a_.args) == 1:
                            a_ = a_.args[0]
                        if isinstance(a_, ast.Call) and isinstance(a_.func, ast.Attribute) and a_.func.attr == "edges":
                            a_ = a_.func
                        if isinstance(a_, ast.Attribute) and a_.attr == "edges" and isinstance(a_.value, (ast.Name, ast.Attribute)):
                            src13 = txt(a_.value)
                    if src13 is None:
                        continue
                    par13 = par13 or astx.Parents(f13.node)
                    st13 = par13.stmt_of(c13)
                    up13 = par13.parent(c13)
                    kept = (isinstance(st13, (ast.Assign, ast.AnnAssign)) and getattr(st13, "value", None) is c13 and
                            any(astx.self_attr(t_) is not None for t_ in (st13.targets if isinstance(st13, ast.Assign) else [st13.target]))) \
                        or (isinstance(up13, ast.Call) and c13 in up13.args and isinstance(st13, (ast.Assign, ast.AnnAssign)) and
                            any(astx.self_attr(t_) is not None for t_ in (st13.targets if isinstance(st13, ast.Assign) else [st13.target]))) \
                        or (isinstance(st13, ast.Return) and st13.value is c13)
                    if kept:
                        found = True
                        o.violated(f13, st13, f"S13: `{txt(c13)[:70]}` re-builds `{src13}` from its EDGES and the object keeps / hands on that rendering: every vertex without an edge "
                                              "(and every vertex attribute, for a plain re-build) is gone, so isolated vertices drop out of sizes, fractions and joint degrees", shape_free=True)
                    else:
                        o.undecided(f"`{txt(c13)[:60]}` re-builds a graph from its edges (isolated vertices are lost); how the result is used is not decided", f13, st13 or c13)
            # ---- S14: an object read from a vertex / edge annotation of a graph (`G.nodes[u][K]`, `G.edges[e][K]`) and written INTO in place
            # (`x[i] -= 1`, `x.append(..)`) without a copy is the caller's annotation: `G.copy()` copies the attribute dictionaries but not
            # the lists stored in them, so the write lands in the input network as well
            def _annot(e_):
                return isinstance(e_, ast.Subscript) and isinstance(e_.value, ast.Subscript) and isinstance(e_.value.value, ast.Attribute) \
                    and e_.value.value.attr in ("nodes", "edges", "_node", "_adj")
            for f14 in [f_ for f_ in prog.all_functions() if f_.module is mi]:
                alias = {}
                for n14 in astx.walk_fn(f14.node):
                    if isinstance(n14, (ast.Assign, ast.AnnAssign)) and getattr(n14, "value", None) is not None:
                        t14 = n14.targets[0] if isinstance(n14, ast.Assign) and len(n14.targets) == 1 else (n14.target if isinstance(n14, ast.AnnAssign) else None)
                        if isinstance(t14, ast.Name):
                            if _annot(n14.value):
                                alias[t14.id] = ("self", n14)
                            elif isinstance(n14.value, (ast.ListComp, ast.List, ast.Tuple)):
                                els = [n14.value.elt] if isinstance(n14.value, ast.ListComp) else n14.value.elts
                                if els and all(_annot(e_) for e_ in els):
                                    alias[t14.id] = ("elements", n14)
                for n14 in astx.walk_fn(f14.node):
                    if isinstance(n14, ast.For) and isinstance(n14.target, ast.Name) and isinstance(n14.iter, ast.Name) and alias.get(n14.iter.id, ("", None))[0] == "elements":
                        alias[n14.target.id] = ("self", alias[n14.iter.id][1])
                for n14 in astx.walk_fn(f14.node):
                    tgt = None
                    if isinstance(n14, (ast.Assign, ast.AugAssign)):
                        for t_ in (n14.targets if isinstance(n14, ast.Assign) else [n14.target]):
                            if isinstance(t_, ast.Subscript) and isinstance(t_.value, ast.Name) and alias.get(t_.value.id, ("", None))[0] == "self":
                                tgt = t_.value.id
                    elif isinstance(n14, ast.Call) and isinstance(n14.func, ast.Attribute) and n14.func.attr in astx.MUTATOR_METHODS and isinstance(n14.func.value, ast.Name) \
                            and alias.get(n14.func.value.id, ("", None))[0] == "self":
                        tgt = n14.func.value.id
                    if tgt is not None:
                        found = True
                        src14 = alias[tgt][1]
                        o.violated(f14, n14 if isinstance(n14, ast.stmt) else (astx.Parents(f14.node).stmt_of(n14) or n14),
                                   f"S14: `{txt(n14)[:50]}` writes into the object read from a graph annotation (`{txt(src14)[:70]}`, no copy): a list-valued annotation of the "
                                   "caller's network is modified in place (G.copy() shares the attribute VALUES)", shape_free=True)
            # ---- S15: `try: for x in xs: <accumulate d[..x..]> except KeyError: continue / pass` - the handler sits OUTSIDE the loop, so the first
            # item that raises ends the loop for every item after it (an `if key in d` test, or a try inside the loop, skips one item only)
            for f15 in [f_ for f_ in prog.all_functions() if f_.module is mi]:
                for tr15 in [n for n in astx.walk_fn(f15.node) if isinstance(n, ast.Try)]:
                    sw15 = [h_ for h_ in tr15.handlers if h_.type is not None and any(nm_ in txt(h_.type) for nm_ in ("KeyError", "IndexError", "LookupError"))
                            and all(isinstance(x_, (ast.Pass, ast.Continue)) or (isinstance(x_, ast.Expr) and isinstance(x_.value, ast.Constant)) for x_ in h_.body)]
                    body15 = [s_ for s_ in tr15.body if not (isinstance(s_, ast.Expr) and isinstance(s_.value, ast.Constant))]
                    if sw15 and len(body15) == 1 and isinstance(body15[0], ast.For) and not tr15.orelse and not tr15.finalbody:
                        lp15 = body15[0]
                        acc15 = [x_ for x_ in ast.walk(lp15) if isinstance(x_, (ast.Assign, ast.AugAssign)) and any(isinstance(t_, ast.Subscript) for t_ in (x_.targets if isinstance(x_, ast.Assign) else [x_.target]))]
                        loads15 = [x_ for x_ in ast.walk(lp15) if isinstance(x_, ast.Subscript) and isinstance(x_.ctx, ast.Load) and astx.names_in(x_.slice) & astx.names_in(lp15.target)]
                        if acc15 and loads15:
                            found = True
                            o.violated(f15, tr15, f"S15: the whole loop `for {txt(lp15.target)} in {txt(lp15.iter)[:30]}` sits inside `try: .. except {txt(sw15[0].type)}: "
                                                  f"{'continue' if isinstance(sw15[0].body[-1], ast.Continue) else 'pass'}`: the first item for which `{txt(loads15[0])[:40]}` is missing "
                                                  "abandons all the items after it, so the accumulated value lacks their contributions", shape_free=True)
            # ---- S16: `for x in xs: if x == 0: break; acc *= x` - the zero factor ends the loop BEFORE it is multiplied in, so the product stays
            # non-zero (the short-circuit belongs after the multiplication, or must set the product to 0)
            for f16 in [f_ for f_ in prog.all_functions() if f_.module is mi]:
                for lp16 in [n for n in astx.walk_fn(f16.node) if isinstance(n, ast.For)]:
                    for i16, st16 in enumerate(lp16.body[:-1]):
                        if not (isinstance(st16, ast.If) and not st16.orelse and len(st16.body) == 1 and isinstance(st16.body[0], (ast.Break, ast.Continue))):
                            continue
                        t16 = st16.test
                        if not (isinstance(t16, ast.Compare) and len(t16.ops) == 1 and isinstance(t16.ops[0], ast.Eq) and astx.const_value(t16.comparators[0]) == 0):
                            if not (isinstance(t16, ast.UnaryOp) and isinstance(t16.op, ast.Not)):
                                continue
                        fac16 = txt(t16.left) if isinstance(t16, ast.Compare) else txt(t16.operand)
                        nxt16 = lp16.body[i16 + 1]
                        if isinstance(nxt16, ast.AugAssign) and isinstance(nxt16.op, ast.Mult) and txt(nxt16.value) == fac16 and isinstance(nxt16.target, ast.Name) \
                                and fac16 in astx.names_in(lp16.target):
                            found = True
                            o.violated(f16, st16, f"S16: `if {txt(t16)}: {type(st16.body[0]).__name__.lower()}` comes BEFORE `{txt(nxt16)}`: the zero factor is never multiplied in, "
                                                  f"so `{txt(nxt16.target)}` keeps the product of the factors seen so far instead of becoming 0", shape_free=True)
            # ---- S11: `dict.fromkeys(keys, [])` gives every key the SAME list / dict / set object; S12: an augmented assignment to the loop
            # variable of `for k, v in d.items(): v *= s` re-binds a local (numbers are immutable) and leaves the container as it was
            for f11 in [f_ for f_ in prog.all_functions() if f_.module is mi]:
                sc11 = Scope(f11.node)
                for nm11, sites in sc11.assigns.items():
                    for st11 in sites:
                        v11 = getattr(st11, "value", None)
                        if isinstance(v11, ast.Call) and txt(v11.func) in ("dict.fromkeys", "OrderedDict.fromkeys", "defaultdict.fromkeys") and len(v11.args) == 2 and _mutable_literal(v11.args[1]):
                            muts = [n for n in astx.walk_fn(f11.node) if isinstance(n, ast.Call) and isinstance(n.func, ast.Attribute) and n.func.attr in astx.MUTATOR_METHODS
                                    and isinstance(n.func.value, (ast.Subscript, ast.Call)) and astx.root_name(n.func.value) == nm11]
                            via = [n for n in astx.walk_fn(f11.node) if isinstance(n, ast.Call) and isinstance(n.func, ast.Attribute) and n.func.attr in astx.MUTATOR_METHODS
                                   and isinstance(n.func.value, ast.Name) and any(
                                       (isinstance(getattr(d_, "value", None), ast.Subscript) and astx.root_name(d_.value) == nm11)
                                       or (isinstance(getattr(d_, "value", None), ast.Call) and isinstance(d_.value.func, ast.Attribute) and d_.value.func.attr in ("get", "setdefault", "pop")
                                           and isinstance(d_.value.func.value, ast.Name) and d_.value.func.value.id == nm11)
                                       for d_ in sc11.assigns.get(n.func.value.id, []))]
                            if muts or via:
                                found = True
                                o.violated(f11, st11, f"S11: `{txt(st11)[:70]}` binds EVERY key to one and the same `{txt(v11.args[1])}` object, and `{txt((muts or via)[0])[:50]}` then fills it: "
                                                      "what is stored under one key shows up under all of them", shape_free=True)
                            else:
                                o.undecided(f"`{txt(st11)[:60]}`: one mutable object shared by all keys (not seen to be modified)", f11, st11)
                for lp in [n for n in astx.walk_fn(f11.node) if isinstance(n, ast.For)]:
                    tnames = astx.names_in(lp.target)
                    body = [s_ for s_ in lp.body if not (isinstance(s_, ast.Expr) and isinstance(s_.value, ast.Constant))]
                    if len(body) == 1 and isinstance(body[0], ast.AugAssign) and isinstance(body[0].target, ast.Name) and body[0].target.id in tnames and not lp.orelse:
                        nm12 = body[0].target.id
                        later = [n for n in astx.walk_fn(f11.node) if isinstance(n, ast.Name) and n.id == nm12 and isinstance(n.ctx, ast.Load)
                                 and getattr(n, "lineno", 0) > getattr(lp, "end_lineno", lp.lineno)]
                        if not later and not astx.names_in(body[0].value) & {nm12}:
                            found = True
                            o.violated(f11, body[0], f"S12: `{txt(body[0])}` re-binds the loop variable `{nm12}` and nothing else: the elements of `{txt(lp.iter)[:40]}` are never updated "
                                                     "(numbers are immutable - the loop has no effect)", shape_free=True)
            # ---- S2 / S3 on every function of the module
            funcs = [f for f in prog.all_functions() if f.module is mi]
            memo_tables = set()
            for f in funcs:
                n_funcs += 1
                sc = Scope(f.node)
                par = sc.parents
                # S3
                for d in f.decorators:
                    if "lru_cache" in d or d in ("cache", "functools.cache"):
                        params = f.params
                        a = f.node.args
                        ann = {x.arg: (txt(x.annotation) if x.annotation is not None else "") for x in a.posonlyargs + a.args}
                        bad = [p for p in params if p in ("self", "cls") or any(h in ann.get(p, "").lower() for h in ("graph", "list", "dict", "set")) or
                               p.lower() in ("g", "h") or any(h in p.lower() for h in MUTABLE_PARAM_HINTS)]
                        if bad:
                            found = True
                            o.violated(f, f.node, f"S3: `{f.qualname}` is memoised with {d} on {bad}: the cached result is served after the object's content changed "
                                                  "(and, keyed by `self`, keeps every instance alive)", shape_free=True)
                # S2: memo tables.  A store D[K] = V into a persistent container D (instance / class attribute, module
                # global, or a local defined outside the enclosing loop) whose entry D[K] is also read back in the same
                # function (`if K not in D`, `D[K]`, `D.get(K)`, try/except KeyError) is a memo.
                for n in astx.walk_fn(f.node):
                    if not (isinstance(n, ast.Assign) and any(isinstance(t_, ast.Subscript) for t_ in n.targets)):
                        continue
                    tgt = [t_ for t_ in n.targets if isinstance(t_, ast.Subscript)][0]   # `v = D[k] = value` stores into D as well
                    D = txt(tgt.value)
                    base = tgt.value
                    persistent = False
                    if astx.self_attr(base) is not None:
                        persistent = True
                    elif isinstance(base, ast.Name) and not sc.is_local(base.id) and base.id in {t.id for st in mi.tree.body if isinstance(st, (ast.Assign, ast.AnnAssign))
                                                                                              for t in (st.targets if isinstance(st, ast.Assign) else [st.target]) if isinstance(t, ast.Name)}:
                        persistent = True
                    elif isinstance(base, ast.Name) and base.id in sc.assigns and len(sc.assigns[base.id]) == 1:
                        ddef = sc.assigns[base.id][0]
                        persistent = any(not par.inside(ddef, l) for l in par.loops_of(n)) and txt(ddef.value) in ("{}", "dict()")
                    elif isinstance(base, ast.Name) and not sc.is_local(base.id) and f.parent is not None and par.loops_of(n):
                        # a table of the enclosing function, filled from a loop of a nested function / generator
                        psc = Scope(f.parent.node)
                        pdefs = psc.assigns.get(base.id, [])
                        persistent = len(pdefs) == 1 and txt(pdefs[0].value) in ("{}", "dict()")
                    if not persistent:
                        continue
                    ktxt = txt(tgt.slice)
                    read_back = False
                    in_value = {id(x) for st_ in astx.walk_fn(f.node) if isinstance(st_, (ast.Assign, ast.AugAssign))
                                for t_ in (st_.targets if isinstance(st_, ast.Assign) else [st_.target])
                                if isinstance(t_, ast.Subscript) and txt(t_.value) == D for x in ast.walk(st_.value)}
                    for m_ in astx.walk_fn(f.node):
                        if m_ is tgt or id(m_) in in_value:
                            continue  # `D[k] = D.get(k, 0) + w` is an accumulator, not a memo
                        if isinstance(m_, ast.Subscript) and txt(m_.value) == D and isinstance(m_.ctx, ast.Load) and txt(m_.slice) == ktxt:
                            read_back = True
                        if isinstance(m_, ast.Call) and isinstance(m_.func, ast.Attribute) and m_.func.attr in ("get", "setdefault") and txt(m_.func.value) == D \
                                and m_.args and txt(m_.args[0]) == ktxt:
                            read_back = True
                        if isinstance(m_, ast.Compare) and len(m_.ops) == 1 and isinstance(m_.ops[0], (ast.In, ast.NotIn)) and txt(m_.comparators[0]) == D and txt(m_.left) == ktxt:
                            read_back = True
                    if not read_back:
                        continue
                    n_memo += 1
                    memo_tables.add(D)
                    # S7: what is kept in a memo table is handed out again and again: a one-shot iterator (a generator object, a
                    # generator expression, map / filter / zip / iter) is exhausted by its first consumer
                    v7 = sc.resolve(n.value)
                    one_shot = None
                    if isinstance(v7, ast.GeneratorExp):
                        one_shot = "a generator expression"
                    elif isinstance(v7, ast.Call) and txt(v7.func) in ("map", "filter", "zip", "iter", "reversed", "enumerate", "itertools.chain", "chain", "chain.from_iterable", "itertools.chain.from_iterable"):
                        one_shot = f"the iterator `{txt(v7.func)}(..)`"
                    elif isinstance(v7, ast.Call):
                        cal7 = rules.resolve_call(prog, f, v7)
                        if cal7 is not None and any(isinstance(y, (ast.Yield, ast.YieldFrom)) for y in astx.walk_fn(cal7.node)):
                            one_shot = f"the generator object returned by `{cal7.qualname}` (it contains `yield`)"
                    if one_shot:
                        found = True
                        o.violated(f, n, f"S7: memo table `{D}` stores {one_shot}: the first lookup consumes it, every later lookup of the same key finds it exhausted and "
                                         "iterates over nothing (the cached answer silently becomes empty)", sure=True)
                        continue
                    key_r = sc.resolve(tgt.slice)
                    key_names = set(astx.names_in(key_r))
                    if isinstance(key_r, ast.JoinedStr):
                        key_direct = {txt(v.value) for v in key_r.values if isinstance(v, ast.FormattedValue)}
                    else:
                        key_direct = {txt(e) for e in (key_r.elts if isinstance(key_r, ast.Tuple) else [key_r])}
                    ind = set()
                    if isinstance(base, ast.Name) and base.id in sc.assigns:
                        ddef = sc.assigns[base.id][0]
                        for l in par.loops_of(n):
                            if not par.inside(ddef, l):
                                ind |= astx.names_in(l.target)
                    if isinstance(base, ast.Name) and base.id not in sc.assigns and f.parent is not None:
                        for l in par.loops_of(n):
                            ind |= astx.names_in(l.target)      # closure table: every loop of the nested function re-uses it
                    params = set(p for p in f.params if p not in ("self", "cls"))
                    stored = n.value
                    for _ in range(4):
                        # the definition that reaches the store when it is the closest preceding statement of the same block
                        # (`e = D.get(k); if e is None: e = compute(); D[k] = e` stores compute(), not the old entry)
                        if not isinstance(stored, ast.Name) or stored.id in sc.mutated:
                            break      # (a container filled after its definition is not what its definition says)
                        blk_ = par.block_of(n)
                        prev_ = None
                        if blk_ is not None:
                            for st_ in blk_[:[id(x) for x in blk_].index(id(n))][::-1]:
                                if isinstance(st_, ast.Assign) and len(st_.targets) == 1 and isinstance(st_.targets[0], ast.Name) and st_.targets[0].id == stored.id:
                                    prev_ = st_
                                    break
                                if any(isinstance(x, ast.Name) and x.id == stored.id and isinstance(x.ctx, ast.Store) for x in ast.walk(st_)):
                                    break
                        if prev_ is None:
                            break
                        stored = prev_.value
                    deps = rules.names_closure(sc, stored, stop=ind | key_names | params, ignore_ctx=list(par.ancestors(n)))
                    if isinstance(base, ast.Name) and base.id in deps:
                        continue  # the stored value is derived from the table's own previous entry: an accumulator / group-by, not a memo
                    missing = sorted(((deps & params) | (deps & ind)) - key_names)
                    def pins(k, p):
                        # the key component identifies p: p itself, an attribute p.name, an element p[i] - not a computed summary p.m() / f(p)
                        if k == p or k.startswith(p + "["):
                            return True
                        return k.startswith(p + ".") and "(" not in k
                    # repr(x) / str(x) of a display of numbers and sequences of numbers is as good as x itself
                    kr_ = key_r
                    while isinstance(kr_, ast.Call) and txt(kr_.func) in ("repr", "str", "tuple") and len(kr_.args) == 1 and not kr_.keywords:
                        kr_ = kr_.args[0]
                    if kr_ is not key_r and not isinstance(kr_, ast.JoinedStr):
                        key_direct |= {txt(e) for e in (kr_.elts if isinstance(kr_, (ast.Tuple, ast.List)) else [kr_])}
                    weak = [p for p in (deps & params) if p in key_names and not any(pins(k, p) for k in key_direct)]
                    # a summary known to forget content (size, count, name, extreme, sum) is a wrong key; any other derived form
                    # (a structural tuple, a serialisation) may or may not determine the argument: not decidable here
                    LOSSY = ("number_of_nodes", "number_of_edges", "order", "size", "len", "name", "sum", "max", "min", "degree", "degree_histogram", "density", "__len__")
                    weak_unknown = [p for p in weak if not any((isinstance(x, ast.Call) and (txt(x.func).split(".")[-1] in LOSSY)) or (isinstance(x, ast.Attribute) and x.attr in LOSSY)
                                                               for x in ast.walk(key_r) if p in astx.names_in(x))]

                    a_ = f.node.args
                    ann = {x.arg: (txt(x.annotation) if x.annotation is not None else "") for x in a_.posonlyargs + a_.args}
                    mutable_keys = [] if isinstance(key_r, ast.JoinedStr) else [k for k in key_direct if k in params and (any(h in ann.get(k, "").lower() for h in ("graph", "list", "dict", "set"))
                                                                              or k.lower() in ("g", "h") or any(h in k.lower() for h in MUTABLE_PARAM_HINTS))]
                    # keys computed by a digest: look at the key expression and INTO repo helpers it calls
                    DIGESTS = ("weisfeiler_lehman_graph_hash", "weisfeiler_lehman_subgraph_hashes", "hash", "md5", "sha1", "sha256", "blake2b", "crc32",
                               "degree_histogram", "could_be_isomorphic", "fast_could_be_isomorphic", "faster_could_be_isomorphic")

                    def _digest_in(expr_, depth=0):
                        for x_ in ast.walk(expr_):
                            if isinstance(x_, ast.Call):
                                nm_ = x_.func.attr if isinstance(x_.func, ast.Attribute) else (x_.func.id if isinstance(x_.func, ast.Name) else "")
                                if nm_ in DIGESTS:
                                    return nm_
                                callee = rules.resolve_call(prog, f, x_) if depth < 2 else None
                                if callee is not None and callee is not f:
                                    for st_ in callee.body:
                                        d_ = _digest_in(st_, depth + 1)
                                        if d_:
                                            return d_
                        return None
                    dg = _digest_in(key_r)
                    if dg and (deps & params):
                        found = True
                        o.violated(f, n, f"S2: memo table `{D}` is keyed through the digest `{dg}` of {sorted(deps & params)}: a digest is not injective (e.g. the Weisfeiler-Lehman hash cannot "
                                         "tell K3,3 from the triangular prism), so the entry computed for one input is returned for a different one - the result depends on call history",
                                   sure=True)
                        continue
                    if weak and weak_unknown and not missing:
                        found = True
                        o.undecided(f"S2: memo table `{D}` is keyed on {weak_unknown} through the derived form `{txt(key_r)[:70]}`; whether that determines the argument is not decidable here", f, n)
                        continue
                    if missing or weak:
                        found = True
                        why = f"lacks {missing}" if missing else f"contains {weak} only through a derived summary (`{txt(key_r)[:60]}`), which does not determine it"
                        o.violated(f, n, f"S2: memo table `{D}` stores `{txt(n.value)[:70]}` under a key that {why}: the entry computed for one input is returned for another", shape_free=True)
                    elif mutable_keys:
                        found = True
                        o.violated(f, n, f"S2: memo table `{D}` is keyed by the object `{mutable_keys[0]}` itself: the entry is served again after that object's content changed "
                                         "(a size/count check does not detect a content-preserving-size change)", shape_free=True)
            # ---- S1b: module-level mutable containers written by functions
            glob = {}
            for st in mi.tree.body:
                if isinstance(st, (ast.Assign, ast.AnnAssign)) and st.value is not None:
                    for t in (st.targets if isinstance(st, ast.Assign) else [st.target]):
                        if isinstance(t, ast.Name) and (_mutable_literal(st.value) or (isinstance(st.value, ast.Call) and "Dictionary" in txt(st.value.func))
                                                        or (isinstance(st.value, ast.Call) and txt(st.value.func).split(".")[-1] in ("deque", "WeakValueDictionary", "WeakKeyDictionary"))):
                            glob[t.id] = st
            # A keyed store that is read back is a memo: S2 has judged its key above.  What is left are tables that GROW
            # (`T.append(E)`): entry i is created by whichever call first needs it and then served to every later call,
            # so E may depend on the table and on nothing that differs between calls (arguments, enclosing variables).
            # Other writes to a module-level container that functions also read are shared state the rules cannot
            # follow: undecided, not accused.
            readers = {}
            for f in funcs:
                for n in astx.walk_fn(f.node):
                    if isinstance(n, ast.Name) and isinstance(n.ctx, ast.Load) and n.id in glob and not Scope(f.node).is_local(n.id):
                        readers.setdefault(n.id, []).append(f)
            for f in funcs:
                scf = Scope(f.node)
                for n in astx.walk_fn(f.node):
                    nm, how = None, None
                    if isinstance(n, (ast.Assign, ast.AugAssign)):
                        for t in (n.targets if isinstance(n, ast.Assign) else [n.target]):
                            if isinstance(t, ast.Subscript) and isinstance(t.value, ast.Name):
                                nm, how = t.value.id, "store"
                    if isinstance(n, ast.Call) and isinstance(n.func, ast.Attribute) and n.func.attr in astx.MUTATOR_METHODS and isinstance(n.func.value, ast.Name):
                        nm, how = n.func.value.id, n.func.attr
                    if nm not in glob or scf.is_local(nm) or nm in memo_tables:
                        continue
                    if how == "append" and len(n.args) == 1:
                        outer = set(f.params)
                        pf = f.parent
                        while pf is not None:
                            outer |= set(pf.params) | set(Scope(pf.node).assigns)
                            pf = pf.parent
                        deps = rules.names_closure(scf, n.args[0], stop=outer | {nm}) & (outer - {"self", "cls"})
                        if deps:
                            found = True
                            o.violated(f, n, f"S1: module-level table `{nm}` grows by `{txt(n.args[0])[:60]}`, which depends on {sorted(deps)} of the call that happens to create the entry; "
                                             "the entry is then served to every later call: the result depends on call history", shape_free=True)
                        continue
                    if nm in readers:
                        found = True
                        o.undecided(f"S1: module-level container `{nm}` is written by `{f.qualname}` ({how}) and read by {sorted({r.qualname for r in readers[nm]})[:3]}: "
                                    "state shared between calls that the rules cannot follow", f, n)
        # ---- S4 / S5: single-slot caches and derived attributes that did not exist on the pinned tree
        pinned_attrs = _init_attrs()
        for mi in mods:
            for ci in mi.classes.values():
                known_attrs = set()
                for c2 in prog.mro(ci):
                    known_attrs |= set(pinned_attrs.get(c2.name, []))
                if ci.name not in pinned_attrs and not known_attrs:
                    continue
                # attributes assigned anywhere in the class that the pinned constructor did not know
                assigned = {}
                for m in ci.methods.values():
                    for n in astx.walk_fn(m.node):
                        if isinstance(n, (ast.Assign, ast.AnnAssign)) and n.value is not None:
                            for t_ in (n.targets if isinstance(n, ast.Assign) else [n.target]):
                                a = astx.self_attr(t_)
                                if a is not None:
                                    assigned.setdefault(a, []).append((m, n))
                new_attrs = {a: v for a, v in assigned.items() if a not in known_attrs and a not in _pinned_assigned(ci.name)}
                for a, sites in new_attrs.items():
                    # S4: lazily filled slot handed out by reference:  if self._x is None: self._x = <fresh>; return self._x
                    for m in ci.methods.values():
                        rets = [r for r in astx.walk_fn(m.node) if isinstance(r, ast.Return) and astx.self_attr(r.value) == a]
                        fills = [n for (mm, n) in sites if mm is m and not (isinstance(n.value, ast.Constant) and n.value.value is None)]
                        if not rets or not fills:
                            continue
                        for caller in prog.all_functions():
                            if caller.module.relpath not in files and caller.cls is not ci:
                                continue
                            csc = Scope(caller.node)
                            for c in astx.walk_fn(caller.node):
                                if isinstance(c, ast.Call) and isinstance(c.func, ast.Attribute) and c.func.attr == m.name and rules.resolve_call(prog, caller, c) is m:
                                    st_ = csc.parents.stmt_of(c)
                                    if isinstance(st_, (ast.Assign, ast.AnnAssign)) and st_.value is c:
                                        tgt = st_.targets[0] if isinstance(st_, ast.Assign) else st_.target
                                        if isinstance(tgt, ast.Name):
                                            effs = [e for e in rules.effects_on(prog, caller, [tgt.id], scope=csc) if e.root == tgt.id and e.kind != "rebind"]
                                            if effs:
                                                found = True
                                                o.violated(caller, effs[0].node, f"S4: `{ci.name}.{m.name}` now returns its cached `self.{a}` by reference and `{caller.qualname}` modifies the returned "
                                                                                  f"object in place ({effs[0].kind}): the cache is corrupted, later calls get the modified value", sure=True)
                    # S6: lazily filled derived cache:  if self.a is None: self.a = f(self.b)  - every other method that writes
                    # self.b (in this class, its bases and its subclasses) has to reset self.a, else readers keep the old table
                    par_cache = {}
                    for (m, n) in sites:
                        if isinstance(n.value, ast.Constant) and n.value.value is None:
                            continue
                        pr = par_cache.setdefault(m.qualname, astx.Parents(m.node))
                        guard = next((anc for anc in pr.ancestors(n) if isinstance(anc, ast.If) and any(
                            isinstance(c_, ast.Compare) and astx.self_attr(c_.left) == a and len(c_.ops) == 1 and isinstance(c_.ops[0], ast.Is)
                            and isinstance(c_.comparators[0], ast.Constant) and c_.comparators[0].value is None for c_ in ast.walk(anc.test))), None)
                        if guard is None:
                            continue
                        # `self.a = None` unconditionally before the guard, in the same function: the table is rebuilt on every
                        # call, it is a per-call temporary, not a cache
                        reset_first = False
                        crossed = []
                        cur_ = guard
                        while cur_ is not None and cur_ is not m.node and not reset_first:
                            blk_ = pr.block_of(cur_)
                            if blk_ is None:
                                break
                            for st_ in blk_[:[id(x) for x in blk_].index(id(cur_))]:
                                if isinstance(st_, ast.Assign) and any(astx.self_attr(t_) == a for t_ in st_.targets) and isinstance(st_.value, ast.Constant) and st_.value.value is None:
                                    reset_first = True
                            cur_ = pr.parent(cur_)
                            while cur_ is not None and not isinstance(cur_, ast.stmt):
                                cur_ = pr.parent(cur_)
                            if isinstance(cur_, (ast.For, ast.While)):
                                crossed.append(cur_)       # a reset outside the loop does not reset each iteration ...
                        if reset_first:
                            # ... which only matters when the loop itself can change what the table is computed from
                            body_calls = {x.func.attr for l_ in crossed for x in ast.walk(l_) if isinstance(x, ast.Call) and isinstance(x.func, ast.Attribute)
                                          and isinstance(x.func.value, ast.Name) and x.func.value.id == "self"}
                            body_writes = any(isinstance(x, ast.Attribute) and isinstance(x.ctx, ast.Store) and isinstance(x.value, ast.Name) and x.value.id == "self" and x.attr != a
                                              for l_ in crossed for x in ast.walk(l_))
                            writer_names = {w.name for c2 in [ci] + prog.subclasses(ci) + list(prog.mro(ci)) for w in c2.methods.values()
                                            if any(isinstance(x, ast.Attribute) and isinstance(x.ctx, ast.Store) and isinstance(x.value, ast.Name) and x.value.id == "self" and x.attr != a
                                                   for x in ast.walk(w.node))}
                            if not crossed or (not body_writes and not (body_calls & writer_names)):
                                continue
                        deps = {x.attr for st_ in guard.body for x in ast.walk(st_) if isinstance(x, ast.Attribute) and isinstance(x.value, ast.Name) and x.value.id == "self"
                                and isinstance(x.ctx, ast.Load) and x.attr != a}
                        deps = {b for b in deps if b in known_attrs or b in _pinned_assigned(ci.name)}
                        fam = []
                        for c2 in [ci] + prog.subclasses(ci) + [c3 for c3 in prog.mro(ci) if c3 is not ci]:
                            if c2 not in fam:
                                fam.append(c2)

                        def _resets(w, depth=0):
                            for x in astx.walk_fn(w.node):
                                if isinstance(x, (ast.Assign, ast.AugAssign, ast.Delete)):
                                    for t_ in (x.targets if isinstance(x, (ast.Assign, ast.Delete)) else [x.target]):
                                        if astx.self_attr(t_) == a:
                                            return True
                                if depth < 2 and isinstance(x, ast.Call) and isinstance(x.func, ast.Attribute) and isinstance(x.func.value, ast.Name) and x.func.value.id == "self" \
                                        and w.cls is not None and prog.method(w.cls, x.func.attr) is not None and prog.method(w.cls, x.func.attr) is not w \
                                        and _resets(prog.method(w.cls, x.func.attr), depth + 1):
                                    return True
                            return False
                        for b in sorted(deps):
                            for c2 in fam:
                                for w in c2.methods.values():
                                    if w is m or w.name == "__init__":
                                        continue
                                    writes = [x for x in astx.walk_fn(w.node) if
                                              (isinstance(x, (ast.Assign, ast.AugAssign)) and any(astx.self_attr(t_) == b or (isinstance(t_, ast.Subscript) and astx.self_attr(t_.value) == b)
                                                                                                   for t_ in (x.targets if isinstance(x, ast.Assign) else [x.target])))
                                              or (isinstance(x, ast.Call) and isinstance(x.func, ast.Attribute) and x.func.attr in astx.MUTATOR_METHODS and astx.self_attr(x.func.value) == b)]
                                    if writes and not _resets(w):
                                        found = True
                                        o.violated(w, writes[0], f"S6: `{ci.name}.{m.name}` keeps `self.{a}`, computed once from `self.{b}`; `{w.qualname}` changes `self.{b}` without resetting "
                                                                 f"`self.{a}`: after it, `{m.qualname}` keeps answering from the old `{b.lstrip('_')}`", shape_free=True)
                    # S5: derived from configuration that can be replaced through a setter, never refreshed
                    for (m, n) in sites:
                        srcs = {x.attr for x in ast.walk(n.value) if isinstance(x, ast.Attribute) and isinstance(x.value, ast.Name) and x.value.id == "self" and x.attr != a}
                        # ... and through the locals the value is computed from (a spliced helper leaves `self.a = tmp`)
                        try:
                            msc = Scope(m.node)
                            # the definitions that REACH this store: preceding statements of the enclosing blocks, nearest
                            # first; an unconditional definition hides everything before it (a later or conditional
                            # re-definition of the same local does not flow into the value stored here)
                            reach = []
                            seen_names = set()
                            work = list(astx.names_in(n.value))
                            mpar = msc.parents
                            while work:
                                nm_ = work.pop()
                                if nm_ in seen_names:
                                    continue
                                seen_names.add(nm_)
                                cur_ = mpar.stmt_of(n)
                                done_ = False
                                while cur_ is not None and not done_:
                                    blk_ = mpar.block_of(cur_)
                                    if blk_ is None:
                                        break
                                    for st_ in blk_[:[id(x) for x in blk_].index(id(cur_))][::-1]:
                                        tnames_ = {y.id for y in ast.walk(st_) if isinstance(y, ast.Name) and isinstance(y.ctx, ast.Store)}
                                        # ... and containers filled in place: x[k] = .., x.append(..)
                                        filled_ = {astx.root_name(y.value) for y in ast.walk(st_) if isinstance(y, (ast.Subscript, ast.Attribute)) and isinstance(y.ctx, ast.Store)} | \
                                            {astx.root_name(y.func.value) for y in ast.walk(st_) if isinstance(y, ast.Call) and isinstance(y.func, ast.Attribute) and y.func.attr in astx.MUTATOR_METHODS}
                                        if nm_ in tnames_ or nm_ in filled_:
                                            reach.append(st_)
                                            work.extend(y.id for y in ast.walk(st_) if isinstance(y, ast.Name) and isinstance(y.ctx, ast.Load))
                                            if isinstance(st_, (ast.Assign, ast.AnnAssign)) and nm_ in tnames_ and any(isinstance(t_, ast.Name) and t_.id == nm_ for t_ in (st_.targets if isinstance(st_, ast.Assign) else [st_.target])):
                                                done_ = True       # unconditional at this level
                                                break
                                    cur_ = mpar.parent(cur_) if not done_ else None
                                    while cur_ is not None and not isinstance(cur_, ast.stmt):
                                        cur_ = mpar.parent(cur_)
                                    if cur_ is m.node:
                                        break
                            reach_ids = {id(x) for st_ in reach for x in ast.walk(st_)}
                            dep_names = seen_names
                            for x in astx.walk_fn(m.node):
                                if id(x) not in reach_ids:
                                    continue
                                tgt_names = set()
                                src_expr = None
                                if isinstance(x, (ast.Assign, ast.AnnAssign)) and x.value is not None:
                                    tgt_names = {y.id for t2 in (x.targets if isinstance(x, ast.Assign) else [x.target]) for y in ast.walk(t2) if isinstance(y, ast.Name)}
                                    src_expr = x.value
                                elif isinstance(x, ast.For):
                                    tgt_names = astx.names_in(x.target)
                                    src_expr = x.iter
                                if src_expr is not None and tgt_names & dep_names:
                                    srcs |= {y.attr for y in ast.walk(src_expr) if isinstance(y, ast.Attribute) and isinstance(y.value, ast.Name) and y.value.id == "self" and y.attr != a}
                        except Exception:
                            pass
                        # through a helper call that takes self.<b> as an argument
                        for b in sorted(srcs):
                            prop_name = b.lstrip("_")
                            setter = ci.methods.get(prop_name + ".setter") or next((c2.methods.get(prop_name + ".setter") for c2 in prog.mro(ci) if c2.methods.get(prop_name + ".setter")), None)
                            if setter is None:
                                continue
                            refreshed = any(astx.self_attr(t_) == a for x in astx.walk_fn(setter.node) if isinstance(x, (ast.Assign, ast.AnnAssign))
                                            for t_ in (x.targets if isinstance(x, ast.Assign) else [x.target]))
                            calls_refresh = any(isinstance(x, ast.Call) and isinstance(x.func, ast.Attribute) and astx.self_attr(x.func) is None and isinstance(x.func.value, ast.Name)
                                                and x.func.value.id == "self" and prog.method(ci, x.func.attr) is not None
                                                and any(astx.self_attr(t2) == a for y in astx.walk_fn(prog.method(ci, x.func.attr).node) if isinstance(y, (ast.Assign, ast.AnnAssign))
                                                        for t2 in (y.targets if isinstance(y, ast.Assign) else [y.target])) for x in astx.walk_fn(setter.node))
                            readers = [mm for mm in ci.methods.values() if mm is not m and mm.name != "__init__" and
                                       any(astx.self_attr(x) == a and isinstance(x.ctx, ast.Load) for x in astx.walk_fn(mm.node) if isinstance(x, ast.Attribute))]
                            if not refreshed and not calls_refresh and readers and m.name == "__init__":
                                found = True
                                o.violated(m, n, f"S5: `self.{a}` is a snapshot derived from `self.{b}` when the object is built; `{ci.name}.{prop_name}` has a public setter that does not refresh it, "
                                                 f"and `{readers[0].qualname}` reads the snapshot: after the {prop_name} is replaced (or edited in place) the object keeps working with the old one", sure=True)
        if not found:
            o.holds(None, None, f"{n_classes} classes, {n_funcs} functions, {n_memo} memo stores in {len(mods)} anchor files: no shared class state, complete memo keys, "
                                "no memoised mutable argument", construct="state-leak scan of " + ", ".join(sorted(m.relpath for m in mods)))
