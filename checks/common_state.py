"""Generic state rules applied to the anchor files of every property (obligation `Cnn.S`).

Every property in the list quantifies over inputs / histories / configurations, so each of them is broken by
state that leaks between calls or between objects.  Three shapes of such leaks are decidable on the source and
are the shapes "optimising" edits produce:
  S1  a class-level mutable container written through `self` (shared by all instances of the class);
  S2  a memo table (dict filled under `if key not in D` / read back by key) whose key does not CONTAIN every
      parameter or loop variable the stored value depends on - the entry computed for one input is served to
      another;
  S3  functools memoisation (lru_cache / cache) on a function that takes `self` or a mutable object (graph,
      list, dict): the cached result goes stale when the object changes.
The three memoised pure-integer functions of number_connected_graphs (Q, QQ, binomial) and the two structural
caches of AutomatedEquation (covered in detail by C15.1-C15.3) are the instances present on the healthy tree."""
import ast
import json
import os

from gcmstatic import astx, rules
from gcmstatic.astx import Scope, txt

VERIF = os.path.dirname(os.path.dirname(os.path.abspath(__file__)))
MUTABLE_PARAM_HINTS = ("graph", "network", "jdd", "jds", "cover", "ejk", "qk", "edgelist")


def property_files(prop: str):
    with open(os.path.join(VERIF, "properties.jsonl")) as fh:
        for line in fh:
            p = json.loads(line)
            if p["id"] == prop:
                return list(p["anchors"]["files"])
    return []


def _mutable_literal(v):
    return isinstance(v, (ast.Dict, ast.List, ast.Set)) or (isinstance(v, ast.Call) and txt(v.func) in ("dict", "list", "set", "defaultdict", "Counter", "OrderedDict"))


def _init_attrs():
    try:
        return json.load(open(os.path.join(VERIF, "known_functions.json"))).get("init_attrs", {})
    except Exception:
        return {}


def _init_params():
    try:
        return json.load(open(os.path.join(VERIF, "known_functions.json"))).get("init_params", {})
    except Exception:
        return {}


def run_init_and_accessors(ctx, mods):
    """Cnn.I: attributes the constructor initialises on the pinned tree and that methods still read are still
    initialised by the constructor.  Cnn.A: a property setter stores into the field its getter returns."""
    from gcmstatic.attrs import AttrState
    prog = ctx.prog
    pinned = _init_attrs()
    with ctx.obligation(f"{ctx.prop}.I", "objects are fully configured by their constructor: every attribute the constructor set on the pinned tree and that methods "
                                        "still read is definitely assigned by it; property setters store into the field their getter returns") as o:
        n_cls = n_attr = n_acc = 0
        bad = False
        for mi in mods:
            for ci in mi.classes.values():
                init = prog.method(ci, "__init__")
                want = pinned.get(ci.name)
                if want and init is not None:
                    n_cls += 1
                    try:
                        st = AttrState(prog, ci)
                        must = st.summary(init).must
                        # attributes some method reads before writing
                        read_somewhere = set()
                        for c2 in prog.mro(ci):
                            for m in c2.methods.values():
                                if m.name == "__init__":
                                    continue
                                if prog.method(ci, m.name) is not m and "setter" not in m.qualname:
                                    continue
                                try:
                                    read_somewhere |= set(st.summary(m).exposed)
                                except Exception:
                                    pass
                        for a in want:
                            if a in read_somewhere:
                                n_attr += 1
                                if a not in must and prog.class_attr(ci, a) is None:
                                    bad = True
                                    o.violated(init, init.node, f"`{ci.name}.__init__` no longer assigns `self.{a}` on every path, but methods of the class read it: "
                                                                f"an object built by the constructor fails (AttributeError) or works on stale state when they run")
                    except Exception as e:
                        o.undecided(f"constructor analysis of {ci.name} failed: {type(e).__name__}: {e}", init)
                # configuration keys: self.<attr> <- params[KEY] as on the pinned tree
                own_init = ci.methods.get("__init__")
                wantp = _init_params().get(ci.name)
                if wantp and own_init is not None and len(own_init.params) >= 2:
                    from gcmstatic import rules as _rules, tm as _tm
                    pp = own_init.params[1]
                    isc = Scope(own_init.node)
                    for a, spec in wantp.items():
                        stores = [n for n in astx.walk_fn(own_init.node) if isinstance(n, (ast.Assign, ast.AnnAssign)) and n.value is not None
                                  and any(astx.self_attr(t_) == a for t_ in (n.targets if isinstance(n, ast.Assign) else [n.target]))]
                        hits = [n for n in stores if any(isinstance(x, ast.Subscript) and txt(x.value) == pp and txt(x.slice) == spec["key"] for x in ast.walk(isc.resolve(n.value)))]
                        n_attr += 1
                        if not stores:
                            continue     # reported (if it matters) by the definite-assignment rule above
                        if not hits:
                            # the value may come through .get(KEY, default) or a helper we cannot see: only accuse when the key is not mentioned at all
                            mentioned = any(spec["key"] in txt(x) for x in ast.walk(own_init.node) if isinstance(x, (ast.Subscript, ast.Call, ast.Compare)))
                            if not mentioned:
                                bad = True
                                o.violated(own_init, stores[-1], f"`{ci.name}.__init__` no longer stores {pp}[{spec['key']}] into `self.{a}`: the caller's setting is ignored "
                                                                  f"(the attribute keeps `{txt(stores[-1].value)[:40]}`)")
                            else:
                                o.undecided(f"`self.{a}` is not assigned from {pp}[{spec['key']}] in a recognised way", own_init, stores[-1])
                            continue
                        if spec.get("guarded"):
                            got = _rules.path_term(isc.parents, isc, hits[-1])
                            want_t = _rules.cond_term(f"{spec['key']} in {pp}")
                            if got != want_t and _tm.single_atom(got) != ("boolconst", True) and not _tm.has_opaque(got):
                                bad = True
                                o.violated(own_init, hits[-1], f"`self.{a}` takes {pp}[{spec['key']}] under `{_tm.show(got)[:80]}`, not when the key is present: "
                                                                "a setting the caller supplies is ignored (or a missing one raises)")
                # accessors
                getters = {k: m for k, m in ci.methods.items() if "property" in m.decorators and not k.endswith(".setter")}
                for name, g in getters.items():
                    sm = ci.methods.get(name + ".setter")
                    body = astx.strip_logging([s_ for s_ in g.body if not (isinstance(s_, ast.Expr) and isinstance(s_.value, ast.Constant))])
                    if sm is None or len(body) != 1 or not isinstance(body[0], ast.Return):
                        continue
                    fld = astx.self_attr(body[0].value)
                    if fld is None or len(sm.params) < 2:
                        continue
                    n_acc += 1
                    val = sm.params[1]
                    stores = [n for n in astx.walk_fn(sm.node) if isinstance(n, (ast.Assign, ast.AnnAssign)) and
                              any(astx.self_attr(t_) == fld for t_ in (n.targets if isinstance(n, ast.Assign) else [n.target]))]
                    if not stores:
                        bad = True
                        o.violated(sm, sm.node, f"the setter of `{ci.name}.{name}` does not store into `self.{fld}`, the field its getter returns: assignments through the property are lost")
                    elif not any(val in astx.names_in(n.value) for n in stores if n.value is not None):
                        bad = True
                        o.violated(sm, stores[0], f"the setter of `{ci.name}.{name}` stores `{txt(stores[0].value)}`, not the value it was given (`{val}`)")
        if not bad:
            o.holds(None, None, f"{n_cls} constructors / {n_attr} configured attributes that methods read, {n_acc} property getter-setter pairs", construct="constructor and accessor scan")


def run(ctx):
    prog = ctx.prog
    files = set(property_files(ctx.prop))
    if not files:
        return
    mods0 = [m for m in prog.modules.values() if m.relpath in files]
    if mods0:
        run_init_and_accessors(ctx, mods0)
    with ctx.obligation(f"{ctx.prop}.S", "no state leaks between calls or objects in the anchor files (shared class state, incomplete memo keys, memoised mutable arguments)") as o:
        n_classes = n_funcs = n_memo = 0
        found = False
        mods = [m for m in prog.modules.values() if m.relpath in files]
        if not mods:
            o.undecided(f"none of the anchor files {sorted(files)} exists")
            return
        for mi in mods:
            prog.note(mi)
            # ---- S1
            for ci in mi.classes.values():
                n_classes += 1
                for a, v in ci.class_attrs.items():
                    if not _mutable_literal(v):
                        continue
                    fam = [ci] + prog.subclasses(ci)
                    rebound = any(astx.self_attr(t) == a for c2 in fam for m in c2.methods.values() for n in astx.walk_fn(m.node)
                                  if isinstance(n, (ast.Assign, ast.AnnAssign)) for t in (n.targets if isinstance(n, ast.Assign) else [n.target]))
                    if rebound:
                        continue
                    for c2 in fam:
                        for m in c2.methods.values():
                            for n in astx.walk_fn(m.node):
                                hit = False
                                if isinstance(n, (ast.Assign, ast.AugAssign)):
                                    hit = any(isinstance(t, ast.Subscript) and astx.self_attr(t.value) == a for t in (n.targets if isinstance(n, ast.Assign) else [n.target]))
                                if isinstance(n, ast.Call) and isinstance(n.func, ast.Attribute) and n.func.attr in astx.MUTATOR_METHODS and astx.self_attr(n.func.value) == a:
                                    hit = True
                                if hit:
                                    found = True
                                    o.violated(m, n, f"S1: `{ci.name}.{a}` is a class-level mutable container written through `self.{a}`: it is shared by every {ci.name} object, "
                                                     "so one object's (or one call's) values are silently re-used by another")
            # ---- S2 / S3 on every function of the module
            funcs = [f for f in prog.all_functions() if f.module is mi]
            for f in funcs:
                n_funcs += 1
                sc = Scope(f.node)
                par = sc.parents
                # S3
                for d in f.decorators:
                    if "lru_cache" in d or d in ("cache", "functools.cache"):
                        params = f.params
                        a = f.node.args
                        ann = {x.arg: (txt(x.annotation) if x.annotation is not None else "") for x in a.posonlyargs + a.args}
                        bad = [p for p in params if p in ("self", "cls") or any(h in ann.get(p, "").lower() for h in ("graph", "list", "dict", "set")) or
                               p.lower() in ("g", "h") or any(h in p.lower() for h in MUTABLE_PARAM_HINTS)]
                        if bad:
                            found = True
                            o.violated(f, f.node, f"S3: `{f.qualname}` is memoised with {d} on {bad}: the cached result is served after the object's content changed "
                                                  "(and, keyed by `self`, keeps every instance alive)")
                # S2: memo tables.  A store D[K] = V into a persistent container D (instance / class attribute, module
                # global, or a local defined outside the enclosing loop) whose entry D[K] is also read back in the same
                # function (`if K not in D`, `D[K]`, `D.get(K)`, try/except KeyError) is a memo.
                for n in astx.walk_fn(f.node):
                    if not (isinstance(n, ast.Assign) and len(n.targets) == 1 and isinstance(n.targets[0], ast.Subscript)):
                        continue
                    tgt = n.targets[0]
                    D = txt(tgt.value)
                    base = tgt.value
                    persistent = False
                    if astx.self_attr(base) is not None:
                        persistent = True
                    elif isinstance(base, ast.Name) and not sc.is_local(base.id) and base.id in {t.id for st in mi.tree.body if isinstance(st, (ast.Assign, ast.AnnAssign))
                                                                                              for t in (st.targets if isinstance(st, ast.Assign) else [st.target]) if isinstance(t, ast.Name)}:
                        persistent = True
                    elif isinstance(base, ast.Name) and base.id in sc.assigns and len(sc.assigns[base.id]) == 1:
                        ddef = sc.assigns[base.id][0]
                        persistent = any(not par.inside(ddef, l) for l in par.loops_of(n)) and txt(ddef.value) in ("{}", "dict()")
                    if not persistent:
                        continue
                    ktxt = txt(tgt.slice)
                    read_back = False
                    in_value = {id(x) for st_ in astx.walk_fn(f.node) if isinstance(st_, (ast.Assign, ast.AugAssign))
                                for t_ in (st_.targets if isinstance(st_, ast.Assign) else [st_.target])
                                if isinstance(t_, ast.Subscript) and txt(t_.value) == D for x in ast.walk(st_.value)}
                    for m_ in astx.walk_fn(f.node):
                        if m_ is tgt or id(m_) in in_value:
                            continue  # `D[k] = D.get(k, 0) + w` is an accumulator, not a memo
                        if isinstance(m_, ast.Subscript) and txt(m_.value) == D and isinstance(m_.ctx, ast.Load) and txt(m_.slice) == ktxt:
                            read_back = True
                        if isinstance(m_, ast.Call) and isinstance(m_.func, ast.Attribute) and m_.func.attr in ("get", "setdefault") and txt(m_.func.value) == D \
                                and m_.args and txt(m_.args[0]) == ktxt:
                            read_back = True
                        if isinstance(m_, ast.Compare) and len(m_.ops) == 1 and isinstance(m_.ops[0], (ast.In, ast.NotIn)) and txt(m_.comparators[0]) == D and txt(m_.left) == ktxt:
                            read_back = True
                    if not read_back:
                        continue
                    n_memo += 1
                    key_r = sc.resolve(tgt.slice)
                    key_names = set(astx.names_in(key_r))
                    if isinstance(key_r, ast.JoinedStr):
                        key_direct = {txt(v.value) for v in key_r.values if isinstance(v, ast.FormattedValue)}
                    else:
                        key_direct = {txt(e) for e in (key_r.elts if isinstance(key_r, ast.Tuple) else [key_r])}
                    ind = set()
                    if isinstance(base, ast.Name) and base.id in sc.assigns:
                        ddef = sc.assigns[base.id][0]
                        for l in par.loops_of(n):
                            if not par.inside(ddef, l):
                                ind |= astx.names_in(l.target)
                    params = set(p for p in f.params if p not in ("self", "cls"))
                    deps = rules.names_closure(sc, n.value, stop=ind | key_names | params, ignore_ctx=list(par.ancestors(n)))
                    if isinstance(base, ast.Name) and base.id in deps:
                        continue  # the stored value is derived from the table's own previous entry: an accumulator / group-by, not a memo
                    missing = sorted(((deps & params) | (deps & ind)) - key_names)
                    def pins(k, p):
                        # the key component identifies p: p itself, an attribute p.name, an element p[i] - not a computed summary p.m() / f(p)
                        if k == p or k.startswith(p + "["):
                            return True
                        return k.startswith(p + ".") and "(" not in k
                    weak = [p for p in (deps & params) if p in key_names and not any(pins(k, p) for k in key_direct)]
                    a_ = f.node.args
                    ann = {x.arg: (txt(x.annotation) if x.annotation is not None else "") for x in a_.posonlyargs + a_.args}
                    mutable_keys = [] if isinstance(key_r, ast.JoinedStr) else [k for k in key_direct if k in params and (any(h in ann.get(k, "").lower() for h in ("graph", "list", "dict", "set"))
                                                                              or k.lower() in ("g", "h") or any(h in k.lower() for h in MUTABLE_PARAM_HINTS))]
                    if missing or weak:
                        found = True
                        why = f"lacks {missing}" if missing else f"contains {weak} only through a derived summary (`{txt(key_r)[:60]}`), which does not determine it"
                        o.violated(f, n, f"S2: memo table `{D}` stores `{txt(n.value)[:70]}` under a key that {why}: the entry computed for one input is returned for another")
                    elif mutable_keys:
                        found = True
                        o.violated(f, n, f"S2: memo table `{D}` is keyed by the object `{mutable_keys[0]}` itself: the entry is served again after that object's content changed "
                                         "(a size/count check does not detect a content-preserving-size change)")
            # ---- S1b: module-level mutable containers written by functions
            glob = {}
            for st in mi.tree.body:
                if isinstance(st, (ast.Assign, ast.AnnAssign)) and st.value is not None:
                    for t in (st.targets if isinstance(st, ast.Assign) else [st.target]):
                        if isinstance(t, ast.Name) and (_mutable_literal(st.value) or (isinstance(st.value, ast.Call) and "Dictionary" in txt(st.value.func))
                                                        or (isinstance(st.value, ast.Call) and txt(st.value.func).split(".")[-1] in ("deque", "WeakValueDictionary", "WeakKeyDictionary"))):
                            glob[t.id] = st
            for f in funcs:
                scf = Scope(f.node)
                for n in astx.walk_fn(f.node):
                    nm = None
                    if isinstance(n, (ast.Assign, ast.AugAssign)):
                        for t in (n.targets if isinstance(n, ast.Assign) else [n.target]):
                            if isinstance(t, ast.Subscript) and isinstance(t.value, ast.Name):
                                nm = t.value.id
                    if isinstance(n, ast.Call) and isinstance(n.func, ast.Attribute) and n.func.attr in astx.MUTATOR_METHODS and isinstance(n.func.value, ast.Name):
                        nm = n.func.value.id
                    if nm in glob and not scf.is_local(nm):
                        found = True
                        o.violated(f, n, f"S1: module-level container `{nm}` is written by `{f.qualname}`: state survives between calls and is shared by every caller in the process")
        if not found:
            o.holds(None, None, f"{n_classes} classes, {n_funcs} functions, {n_memo} memo stores in {len(mods)} anchor files: no shared class state, complete memo keys, "
                                "no memoised mutable argument", construct="state-leak scan of " + ", ".join(sorted(m.relpath for m in mods)))
