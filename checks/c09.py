"""C09 - EECC returns an edge-disjoint edge clique cover within the size bound.

That the greedy heuristic as a whole yields an exact cover for every graph and tie-break is a property of the
algorithm; no static rule set in reach proves it and this check does NOT claim it.  Decided here are clauses
that are visible in the code and each necessary: the working graph is empty on return and edges leave it only
by being covered (C09.1 + C09.2: "no edge uncovered, afterwards no edges left"); every clique put in the
cover has ALL its pairs removed before cliques are re-enumerated (C09.2, the structural cause of double
covering); every returned clique passed the size guard or is an m0-subset, and decomposed cliques are
excluded (C09.3); members are canonicalised BEFORE duplicates are removed (C09.4); score-0 cliques go in
intact and the random tie-break is over the largest minimum-score candidates (C09.5); the overlap test looks
at every other clique (C09.6)."""
import ast

from gcmstatic import astx, rules, tm
from gcmstatic.astx import Scope, txt, pat, match
from gcmstatic.cfg import CFG
from gcmstatic.pm import AnalysisError

EXPLANATION = __doc__


def removal_nests(fn):
    """[(outer_loop, N term text, X text, call, ok_shape, why)] for `for i in range(N): for j in range(i+1, N): self.remove_edge(X[i], X[j])`
    (N is reported as `len(X)` when it is that expression or a local bound once to it), and for the equivalent
    `for a, b in combinations(X, 2): self.remove_edge(a, b)`."""
    out = []
    par = astx.Parents(fn.node)
    sc_ = Scope(fn.node)
    for n in astx.walk_fn(fn.node):
        # bulk form: self._G.remove_edges_from(combinations(X, 2))  removes every pair of X at once
        if isinstance(n, ast.Call) and isinstance(n.func, ast.Attribute) and n.func.attr == "remove_edges_from" and txt(n.func.value) in ("self._G", "self.G") and len(n.args) == 1:
            a_ = sc_.deref(n.args[0]) if isinstance(n.args[0], ast.Name) else n.args[0]
            while isinstance(a_, ast.Call) and txt(a_.func) in ("list", "tuple", "set") and len(a_.args) == 1:
                a_ = a_.args[0]
            bc_ = match(pat("combinations($x, 2)"), a_) or match(pat("itertools.combinations($x, 2)"), a_)
            st_ = par.stmt_of(n)
            if bc_ is not None:
                X_ = txt(bc_["x"])
                out.append((st_, f"len({X_})", X_, n, True, ""))
            else:
                out.append((None, None, None, n, False, f"`{txt(n)[:60]}` does not remove all pairs of one clique"))
            continue
        if isinstance(n, ast.Call) and txt(n.func) == "self.remove_edge" and len(n.args) == 2:
            loops = par.loops_of(n)
            if loops:
                it0 = loops[0].iter
                bc = match(pat("combinations($x, 2)"), it0) or match(pat("itertools.combinations($x, 2)"), it0)
                if bc is None and isinstance(it0, ast.Name):
                    it0 = sc_.deref(it0)
                    bc = match(pat("combinations($x, 2)"), it0) or match(pat("itertools.combinations($x, 2)"), it0)
                    while bc is None and isinstance(it0, ast.Call) and txt(it0.func) in ("list", "tuple") and len(it0.args) == 1:
                        it0 = it0.args[0]
                        bc = match(pat("combinations($x, 2)"), it0) or match(pat("itertools.combinations($x, 2)"), it0)
                tg = loops[0].target
                if bc is not None and isinstance(tg, ast.Tuple) and len(tg.elts) == 2 and match(pat("range($n)"), bc["x"]) is not None \
                        and all(isinstance(a, ast.Subscript) for a in n.args):
                    # index pairs: for i, j in combinations(range(N), 2): remove_edge(X[i], X[j])  =  the nested index loops
                    N_ = match(pat("range($n)"), bc["x"])["n"]
                    xs = {txt(a.value) for a in n.args}
                    idx = sorted(txt(a.slice) for a in n.args)
                    okc = len(xs) == 1 and idx == sorted(txt(e) for e in tg.elts)
                    X_ = sorted(xs)[0]
                    nt = txt(sc_.resolve(N_))
                    out.append((loops[0], nt if nt != f"len({X_})" else f"len({X_})", X_, n, okc, "" if okc else "arguments are not X[i], X[j] of one clique for the index pair drawn"))
                    continue
                if bc is not None and isinstance(tg, ast.Tuple) and len(tg.elts) == 2:
                    X_ = txt(bc["x"])
                    okc = sorted(txt(a) for a in n.args) == sorted(txt(e) for e in tg.elts)
                    out.append((loops[0], f"len({X_})", X_, n, okc, "" if okc else f"removes ({txt(n.args[0])}, {txt(n.args[1])}), not the pair drawn from combinations({X_}, 2)"))
                    continue
            if len(loops) < 2:
                out.append((None, None, None, n, False, "remove_edge is not inside an i<j loop nest"))
                continue
            jl, il = loops[0], loops[1]
            i, j = txt(il.target), txt(jl.target)
            bi = match(pat("range($n)"), il.iter) or match(pat("range(0, $n)"), il.iter)
            bj = match(pat("range($lo, $n)"), jl.iter)
            a0, a1 = n.args
            why = ""
            ok = True
            if bi is None or bj is None:
                ok, why = False, f"loop domains `{txt(il.iter)}` / `{txt(jl.iter)}` are not range(N) / range(i+1, N)"
            else:
                N1, N2 = rules.term_of(bi["n"], sc_), rules.term_of(bj["n"], sc_)
                lo = rules.term_of(bj["lo"], sc_)
                if N1 != N2:
                    ok, why = False, f"outer bound {tm.show(N1)} and inner bound {tm.show(N2)} differ"
                elif lo != tm.add(tm.sym(i), tm.ONE):
                    ok, why = False, f"inner loop starts at {tm.show(lo)}, not at {i}+1: " + ("pairs (i,i) only / pairs skipped" if True else "")
            X = None
            if isinstance(a0, ast.Subscript) and isinstance(a1, ast.Subscript) and txt(a0.value) == txt(a1.value):
                X = txt(a0.value)
                if ok and not (txt(a0.slice) == i and txt(a1.slice) == j):
                    ok, why = False, f"removes ({txt(a0)}, {txt(a1)}), not the pair (X[{i}], X[{j}])"
            else:
                ok, why = False, "arguments are not X[i], X[j] of one clique"
            Ntxt = txt(bi["n"]) if bi else None
            if bi is not None and X is not None and txt(sc_.resolve(bi["n"], keep=tuple(astx.names_in(ast.parse(X, mode="eval")))) ) == f"len({X})":
                Ntxt = f"len({X})"
            out.append((il, Ntxt, X, n, ok, why))
    return out


def _sweep_of_cover(par, il, X):
    """The nest (outer loop il, clique expression X) runs for EVERY clique of EC: `for c in range(len(EC))` with
    X = EC[c], or `for X in EC` / `for _, X in enumerate(EC)`."""
    outer = [l for l in par.loops_of(il) if isinstance(l, ast.For)]
    if not outer or X is None:
        return None
    lp = outer[0]
    if X.startswith("EC[") and X.endswith("]"):
        return txt(lp.iter) == "range(len(EC))" and txt(lp.target) == X[3:-1]
    if txt(lp.iter) in ("EC", "list(EC)") and txt(lp.target) == X:
        return True
    if txt(lp.iter) == "enumerate(EC)" and isinstance(lp.target, ast.Tuple) and len(lp.target.elts) == 2 and txt(lp.target.elts[1]) == X:
        return True
    return None


def _dedupe_flow(lm, scl):
    """De-duplication written as ONE expression: {tuple(c) for c in SRC} / set(tuple(c) for c in SRC) / set(map(tuple, SRC)).
    Returns (node, [(leaf expression, "sorted" | "raw" | "unknown")]) for the element sources of SRC, or None."""
    cands = []
    for n in astx.walk_fn(lm.node):
        if isinstance(n, ast.SetComp) and len(n.generators) == 1 and isinstance(n.generators[0].target, ast.Name) and txt(n.elt) == f"tuple({n.generators[0].target.id})":
            cands.append((n, n.generators[0].iter))
        elif isinstance(n, ast.Call) and txt(n.func) == "set" and len(n.args) == 1:
            a = n.args[0]
            if isinstance(a, (ast.GeneratorExp, ast.ListComp)) and len(a.generators) == 1 and isinstance(a.generators[0].target, ast.Name) and txt(a.elt) == f"tuple({a.generators[0].target.id})":
                cands.append((n, a.generators[0].iter))
            elif isinstance(a, ast.Call) and txt(a.func) == "map" and len(a.args) == 2 and txt(a.args[0]) == "tuple":
                cands.append((n, a.args[1]))
    if len(cands) != 1:
        return None
    node, src = cands[0]

    def is_sorted_seq(x, env):
        x = scl.resolve(x) if isinstance(x, ast.Name) and x.id not in env else x
        if isinstance(x, ast.Call) and txt(x.func) == "sorted":
            return True
        if isinstance(x, ast.Call) and txt(x.func) in ("tuple", "list") and len(x.args) == 1:
            return is_sorted_seq(x.args[0], env)
        if isinstance(x, ast.Name) and x.id in env:
            return env[x.id] == "sorted" if env[x.id] in ("sorted", "raw") else None
        return None

    def elems(x, env, depth=0):
        """statuses of the ELEMENTS of iterable x"""
        if depth > 8:
            return [(x, "unknown")]
        if isinstance(x, ast.Name) and x.id not in env:
            r = scl.resolve(x)
            if r is not x and not (isinstance(r, ast.Name) and r.id == x.id):
                return elems(r, env, depth + 1)
            return [(x, "unknown")]
        if isinstance(x, ast.Call):
            f = txt(x.func)
            if f in ("self.find_cliques", "nx.find_cliques", "networkx.find_cliques"):
                return [(x, "raw")]
            if f in ("list", "tuple", "iter") and len(x.args) == 1:
                return elems(x.args[0], env, depth + 1)
            if f in ("chain", "itertools.chain"):
                return [l for a in x.args for l in elems(a, env, depth + 1)]
            if f in ("chain.from_iterable", "itertools.chain.from_iterable") and len(x.args) == 1 and isinstance(x.args[0], (ast.GeneratorExp, ast.ListComp)) and len(x.args[0].generators) == 1:
                g = x.args[0].generators[0]
                env2 = dict(env)
                if isinstance(g.target, ast.Name):
                    st = {l[1] for l in elems(g.iter, env, depth + 1)}
                    env2[g.target.id] = st.pop() if len(st) == 1 else "unknown"
                return elems(x.args[0].elt, env2, depth + 1)
            if f in ("combinations", "itertools.combinations") and len(x.args) == 2:
                ok = is_sorted_seq(x.args[0], env)
                return [(x, "sorted" if ok else ("raw" if ok is False else "unknown"))]
            if f == "map" and len(x.args) == 2 and txt(x.args[0]) == "sorted":
                return [(x, "sorted")]
            return [(x, "unknown")]
        if isinstance(x, (ast.GeneratorExp, ast.ListComp)) and len(x.generators) == 1:
            g = x.generators[0]
            env2 = dict(env)
            if isinstance(g.target, ast.Name):
                st = {l[1] for l in elems(g.iter, env, depth + 1)}
                env2[g.target.id] = st.pop() if len(st) == 1 else "unknown"
            e = x.elt
            ok = is_sorted_seq(e, env2)
            if ok is False and isinstance(e, ast.Name) and env2.get(e.id) == "raw":
                return [(x, "whole")]       # maximal cliques passed through as they are
            return [(x, "sorted" if ok else ("raw" if ok is False else "unknown"))]
        if isinstance(x, ast.BinOp) and isinstance(x.op, ast.Add):
            return elems(x.left, env, depth + 1) + elems(x.right, env, depth + 1)
        return [(x, "unknown")]
    return node, elems(src, {})


def run(ctx):
    prog = ctx.prog
    ctx.trust("networkx find_cliques yields all maximal cliques", "Graph.remove_edge removes exactly that edge; Network.remove_edge ignores a missing edge",
              "random.choice picks a member of the list")
    ci = prog.cls("EECC")
    ge = prog.method(ci, "get_EECC")
    cs = prog.method(ci, "compute_scores")
    lm = prog.method(ci, "limited_maximal_cliques")
    # roles -> the names the rules below use (C, EC, ord, r): taken from compute_scores' signature and from the
    # arguments of its first call in get_EECC, so that renaming a local in the repository changes nothing here
    ROLES = ["C", "EC", "ord", "r", "indexes_score0"]
    if len(cs.params) >= 6:
        rules.rename_roles(cs, dict(zip(cs.params[1:6], ROLES)))
    first_call = next((n for n in astx.walk_fn(ge.node) if isinstance(n, ast.Call) and txt(n.func) == "self.compute_scores" and len(n.args) == 5
                       and all(isinstance(a_, ast.Name) for a_ in n.args)), None)
    if first_call is not None:
        rules.rename_roles(ge, dict(zip([a_.id for a_ in first_call.args], ROLES)))
    sc = Scope(ge.node)
    par = sc.parents
    cfg = CFG(ge.node)

    whiles = [n for n in ge.body if isinstance(n, ast.While)]
    with ctx.obligation("C09.1", "the working graph is empty on return: the main loop ends only when has_edges() is false", floor=2) as o:
        if len(whiles) != 1:
            o.undecided(f"expected one main while loop in get_EECC, found {len(whiles)}", ge)
            raise AnalysisError("main loop not found")
        wl = whiles[0]
        if txt(wl.test) != "self.has_edges()":
            t = txt(wl.test)
            if "has_edges" in t:
                o.violated(ge, wl, f"loop condition `{t}` can end the loop while edges remain")
            else:
                o.undecided(f"loop condition `{t}` not recognised", ge, wl)
        else:
            jumps = [x for s in wl.body for x in ast.walk(s) if isinstance(x, (ast.Break, ast.Return))]
            # breaks inside nested loops belong to those loops
            own = [x for x in jumps if isinstance(x, ast.Return) or par.loops_of(x)[0] is wl]
            if own:
                o.violated(ge, own[0], "the main loop can be left while the working graph still has edges: those edges are in no cover clique")
            else:
                o.holds(ge, wl, "`while self.has_edges()` is left only when its condition is false (no break/return inside)")
        he = prog.method(ci, "has_edges")
        body = astx.strip_logging(he.body)
        if len(body) == 1 and isinstance(body[0], ast.Return):
            t = rules.term_of(body[0].value)
            ok_forms = [tm.parse("len(self._G.edges()) > 0"), tm.parse("self._G.number_of_edges() > 0"), tm.parse("len(self._G.edges) > 0"),
                        tm.parse("len(self._G.edges()) != 0"), tm.parse("self._G.number_of_edges() != 0"), tm.parse("len(self._G.edges()) >= 1")]
            if t in ok_forms:
                o.holds(he, body[0], "has_edges() is true exactly when an edge remains")
            elif not tm.has_opaque(t) and ("len()" in tm.leaves(t) or "self._G.number_of_edges()" in tm.leaves(t)):
                o.violated(he, body[0], f"has_edges() returns `{txt(body[0].value)}`, which is not 'at least one edge remains'")
            else:
                o.undecided(f"has_edges body `{txt(body[0].value)}` not recognised", he)
        else:
            o.undecided("has_edges is not a single return", he)
        rets = [n for n in ge.body if isinstance(n, ast.Return)]
        if not rets or ge.body.index(rets[-1]) < ge.body.index(wl):
            o.undecided("return after the main loop not found", ge)

    nests = removal_nests(ge)
    with ctx.obligation("C09.2", "Network's edge methods do to the working graph what their names say") as o:
        # the covering loop removes cover edges through self.remove_edge and ends when has_edges() is false: a remove_edge that
        # does not remove leaves every edge in place (the loop never ends / cliques are picked again)
        for mname, want in (("remove_edge", "remove_edge"), ("add_edge", "add_edge"), ("add_edges_from", "add_edges_from")):
            m = prog.method(ci, mname)
            if m is None:
                o.undecided(f"Network.{mname} not found")
                continue
            calls = [n for n in astx.walk_fn(m.node) if isinstance(n, ast.Call) and isinstance(n.func, ast.Attribute) and n.func.attr == want
                     and astx.self_attr(n.func.value) in ("_G", "G")]
            if not calls:
                o.violated(m, m.node, f"Network.{mname} never calls {want} on the working graph: the graph is left unchanged", shape_free=True)
                continue
            c0 = calls[0]
            mp = astx.Parents(m.node)
            conds = [(t_, pol_) for t_, pol_ in rules.path_conditions(mp, c0)]
            a9 = m.node.args
            n_def = len(a9.defaults)
            pos9 = [x.arg for x in a9.posonlyargs + a9.args]
            ps = [x for x in (pos9[: len(pos9) - n_def] if n_def else pos9) if x not in ("self", "cls")]      # the edge arguments: parameters WITHOUT a default (options do not count)
            argn = set()
            for a_ in c0.args:
                argn |= astx.names_in(a_.value if isinstance(a_, ast.Starred) else a_)
            filt = [a_ for a_ in c0.args if (isinstance(a_, (ast.GeneratorExp, ast.ListComp)) and any(g_.ifs for g_ in a_.generators) and astx.names_in(a_) & set(ps))
                    or (isinstance(a_, ast.Call) and txt(a_.func) == "filter" and astx.names_in(a_) & set(ps))
                    or (isinstance(a_, ast.Subscript) and isinstance(a_.slice, ast.Slice) and astx.names_in(a_.value) & set(ps))]
            if filt:
                o.violated(m, c0, f"Network.{mname} hands on only part of what it is given (`{txt(filt[0])[:70]}`): the edges that are filtered out never reach the working graph "
                                  "and are covered by nothing", shape_free=True)
            elif conds and any(isinstance(t_, ast.Compare) and len(t_.ops) == 1 and isinstance(t_.ops[0], (ast.Lt, ast.Gt, ast.LtE, ast.GtE))
                               and astx.names_in(t_.left) & set(ps) and astx.names_in(t_.comparators[0]) & set(ps)
                               and not (astx.names_in(t_) - set(ps) - {"len", "min", "max"}) for t_, _ in conds):
                bad_c = next(t_ for t_, _ in conds if isinstance(t_, ast.Compare) and isinstance(t_.ops[0], (ast.Lt, ast.Gt, ast.LtE, ast.GtE)))
                o.violated(m, c0, f"Network.{mname} reaches `{txt(c0)[:40]}` only when `{txt(bad_c)}`: an (undirected) edge written with its endpoints the other way round "
                                  "never reaches the working graph and is covered by nothing", shape_free=True)
            elif conds and not all(isinstance(t_, ast.Call) and txt(t_.func).endswith("has_edge") for t_, _ in conds):
                o.undecided(f"`{txt(c0)}` in Network.{mname} is conditional (`{txt(conds[0][0])}`)", m, c0)
            elif not set(ps) <= argn:
                o.violated(m, c0, f"`{txt(c0)}` does not pass on the parameter(s) {sorted(set(ps) - argn)}: not the edge(s) it was given")
            else:
                o.holds(m, c0, f"Network.{mname} passes its argument(s) to `{txt(c0.func)}`")

    with ctx.obligation("C09.2", "every clique put in the cover has all its pairs removed before cliques are re-enumerated", floor=4) as o:
        for il, N, X, call, ok, why in nests:
            if not ok:
                o.violated(ge, call, f"edge removal of a cover clique is incomplete: {why}")
        good = [n for n in nests if n[4]]
        # (a) the randomly chosen clique
        apps = [n for n in astx.walk_fn(ge.node) if isinstance(n, ast.Call) and isinstance(n.func, ast.Attribute) and n.func.attr == "append" and txt(n.func.value) == "EC"]
        recalls = [par.stmt_of(n) for n in astx.walk_fn(ge.node) if isinstance(n, ast.Call) and txt(n.func) == "self.limited_maximal_cliques"]
        in_loop_recalls = [s for s in recalls if par.inside(s, wl)]
        if len(apps) != 1:
            o.undecided(f"expected one EC.append in get_EECC, found {len(apps)}", ge)
        else:
            a = apps[0]
            cli = txt(a.args[0])
            ast_ = par.stmt_of(a)
            mine = [n for n in good if n[2] == cli and par.inside(n[0], wl)]
            if not mine:
                o.violated(ge, a, f"the chosen clique `{cli}` is appended to the cover but its edges are not removed pairwise before the cliques are enumerated again: "
                                  "the same edges are covered twice")
            else:
                il, N, X, call, _, _ = mine[0]
                nxt = in_loop_recalls[0] if in_loop_recalls else None
                if nxt is not None and wl.body.index(_top(par, il, wl)) < wl.body.index(_top(par, nxt, wl)) and wl.body.index(_top(par, ast_, wl)) < wl.body.index(_top(par, nxt, wl)):
                    o.holds(ge, call, f"all pairs of `{cli}` are removed before limited_maximal_cliques() is called again")
                else:
                    o.violated(ge, call, "the removal does not precede the next clique enumeration")
                # the bound N must equal len(cli)
                if N == f"len({cli})":
                    o.holds(ge, il, f"removal bound = len({cli})")
                else:
                    # premises: idx from a list filtered by ord[idx] == N; compute_scores stores ord[c] = len(C[c]); lock-step filtering
                    p1 = any(isinstance(n, ast.ListComp) and len(n.generators) == 1 and len(n.generators[0].ifs) == 1
                             and txt(n.generators[0].ifs[0]) == f"ord[{txt(n.generators[0].target)}] == {N}" for n in ast.walk(wl))
                    cdef = [s for s in wl.body if isinstance(s, (ast.Assign, ast.AnnAssign)) and txt(s.targets[0] if isinstance(s, ast.Assign) else s.target) == cli]
                    p_idx = len(cdef) == 1 and match(pat("C[$i]"), cdef[0].value) is not None
                    sc_cs = Scope(cs.node)
                    p2 = any(isinstance(n, ast.Assign) and match(pat("ord[$c]"), n.targets[0]) is not None and
                             match(pat("len(C[$c])"), sc_cs.resolve(n.value)) is not None and txt(match(pat("ord[$c]"), n.targets[0])["c"]) == txt(match(pat("len(C[$c])"), sc_cs.resolve(n.value))["c"])
                             for n in astx.walk_fn(cs.node))
                    p3 = _lockstep(ge)
                    other_filter = [n for n in ast.walk(wl) if isinstance(n, ast.ListComp) and len(n.generators) == 1 and len(n.generators[0].ifs) == 1
                                    and isinstance(n.generators[0].ifs[0], ast.Compare) and txt(n.generators[0].ifs[0].left) == f"ord[{txt(n.generators[0].target)}]"
                                    and txt(n.generators[0].ifs[0].comparators[0]) == N and not isinstance(n.generators[0].ifs[0].ops[0], ast.Eq)]
                    if other_filter and p_idx:
                        o.violated(ge, other_filter[0], f"candidates are filtered by `{txt(other_filter[0].generators[0].ifs[0])}` but only the first `{N}` vertices of the chosen clique "
                                                        f"`{cli}` have their pairs removed: a chosen clique larger than `{N}` keeps edges in the working graph, which are covered a second time")
                    elif p1 and p2 and p3 and p_idx:
                        o.holds(ge, il, f"removal bound `{N}` = len({cli}): candidates are filtered by ord[idx] == {N}, ord[c] = len(C[c]), and C/ord/r are filtered in lock-step")
                    elif not p2:
                        o.violated(cs, cs.node, f"the removal bound `{N}` relies on ord[c] = len(C[c]), which compute_scores no longer guarantees")
                    elif p3 is None:
                        o.undecided("the filtering of C / ord / r after scoring is not recognised (neither the three-append loop nor three comprehensions over one index set)", ge, wl)
                    elif not p3:
                        o.violated(ge, wl, "C, ord and r are no longer filtered in lock-step: ord[idx] need not be the size of C[idx], so the removal bound is wrong")
                    else:
                        o.undecided(f"removal bound `{N}` could not be related to len({cli})", ge, il)
        # (b) score-0 cliques appended in compute_scores: sweep over all of EC after every compute_scores call
        sweeps = [n for n in good if n[2] and _sweep_of_cover(par, n[0], n[2]) is not None]
        cs_calls = [par.stmt_of(n) for n in astx.walk_fn(ge.node) if isinstance(n, ast.Call) and txt(n.func) == "self.compute_scores"]
        for call_st in cs_calls:
            blk = wl.body if par.inside(call_st, wl) else ge.body
            # the sweep must follow the call in the SAME block (its own outer loop is the top-level statement there): a
            # sweep that only happens inside a later loop runs after the next clique has been chosen on a stale graph
            def _sweep_loop(n_):
                outer_ = [l for l in par.loops_of(n_[0]) if isinstance(l, ast.For)]
                return outer_[0] if outer_ else n_[0]
            after = [n for n in sweeps if any(_sweep_loop(n) is s for s in blk[blk.index(call_st) + 1:])]
            if after:
                il, N, X, call, _, _ = after[0]
                full = bool(_sweep_of_cover(par, il, X)) and (N == f"len({X})" or _n_is_len(par, il, N, X))
                if full:
                    o.holds(ge, call, "after compute_scores every cover clique (incl. the new score-0 ones) has all its pairs removed")
                else:
                    o.violated(ge, call, "the sweep that removes the edges of score-0 cliques does not cover every clique of EC completely")
            else:
                o.violated(ge, call_st, "score-0 cliques are added to the cover by compute_scores but their edges are not removed afterwards")
        # remove_edge is the only edge-removing effect; nothing adds edges during covering
        for f in (ge, cs, lm):
            for n in astx.walk_fn(f.node):
                if isinstance(n, ast.Call) and isinstance(n.func, ast.Attribute) and n.func.attr in ("add_edge", "add_edges_from") and "self" in txt(n.func.value):
                    o.violated(f, n, "edges are added to the working graph during covering")

    # ---- limited_maximal_cliques: names are discovered, not assumed
    scl = Scope(lm.node)
    parl = scl.parents
    fcs = [s_ for s_ in astx.walk_fn(lm.node) if isinstance(s_, (ast.Assign, ast.AnnAssign)) and s_.value is not None and txt(s_.value) == "self.find_cliques()"]
    Cn = txt(fcs[0].targets[0] if isinstance(fcs[0], ast.Assign) else fcs[0].target) if len(fcs) == 1 else None
    cl_loops = [s_ for s_ in lm.body if isinstance(s_, ast.For) and Cn and txt(scl.resolve(s_.iter, keep=[Cn])) in (f"range(len({Cn}))", f"range(0, len({Cn}))")]
    combs = [n for n in astx.walk_fn(lm.node) if isinstance(n, ast.Call) and prog.external(lm.module, n.func) == "itertools.combinations"]
    big = None   # canonical condition "this clique exceeds m0"
    with ctx.obligation("C09.3", "the size bound the caller sets is the bound the cover uses: set_max_clique_size stores every admissible m0 (m0 >= 2)") as o:
        sm = prog.method(prog.cls("EECC"), "set_max_clique_size")
        if sm is None or len(sm.params) < 2:
            o.undecided("EECC.set_max_clique_size not found")
        else:
            mp_ = sm.params[1]
            stores = [n for n in astx.walk_fn(sm.node) if isinstance(n, (ast.Assign, ast.AnnAssign)) and n.value is not None
                      and any(astx.self_attr(t_) == "_m0" for t_ in (n.targets if isinstance(n, ast.Assign) else [n.target]))]
            if not stores:
                o.violated(sm, sm.node, "set_max_clique_size does not store into `self._m0`, the bound limited_maximal_cliques reads: the caller's bound is ignored", shape_free=True)
            elif len(stores) > 1:
                o.undecided("set_max_clique_size stores the bound in more than one place", sm, stores[1])
            else:
                st_ = stores[0]
                smp = astx.Parents(sm.node)
                ssc = Scope(sm.node)
                v_ = ssc.resolve(st_.value)
                conds_ = rules.path_conditions(smp, st_)
                if txt(v_) not in (mp_, f"int({mp_})"):
                    tv_ = rules.term_of(v_)
                    if not tm.has_opaque(tv_) and tm.compare(tv_, tm.sym(mp_)) == "different":
                        o.violated(sm, st_, f"set_max_clique_size stores `{txt(v_)}`, not the bound it was given", shape_free=True)
                    else:
                        o.undecided(f"set_max_clique_size stores `{txt(v_)[:60]}`", sm, st_)
                elif not conds_:
                    o.holds(sm, st_, "the bound is stored unconditionally")
                else:
                    # admissible bounds are the integers >= 2 (an edge is a 2-clique): the store must be reached for every one of them
                    verdict = "holds"
                    for t_, pol_ in conds_:
                        r_ = rules.compare_with_pivot(t_, lambda x: txt(x) == mp_)
                        c_ = astx.const_value(r_[1]) if r_ else None
                        if not r_ or not isinstance(c_, (int, float)) or isinstance(c_, bool):
                            verdict = "undecided" if verdict == "holds" else verdict
                            continue
                        op_ = r_[0] if pol_ else {"<": ">=", "<=": ">", ">": "<=", ">=": "<", "==": "!=", "!=": "=="}.get(r_[0])
                        ok_ = {">": c_ < 2, ">=": c_ <= 2, "!=": c_ < 2, "<": False, "<=": False, "==": False}.get(op_)
                        if ok_ is False:
                            verdict = ("violated", t_, op_, c_)
                            break
                        if ok_ is None:
                            verdict = "undecided" if verdict == "holds" else verdict
                    if isinstance(verdict, tuple):
                        o.violated(sm, st_, f"the bound is stored only when `{mp_} {verdict[2]} {verdict[3]}`: an admissible bound outside that range (m0 = 2 is the smallest) is silently "
                                            "ignored and the object keeps whatever bound it had - the cover then contains cliques larger than the bound the caller asked for", shape_free=True)
                    elif verdict == "holds":
                        o.holds(sm, st_, f"the bound is stored for every m0 >= 2 (guards: {[txt(t_) for t_, _ in conds_]})")
                    else:
                        o.undecided(f"the store of the bound is conditional (`{txt(conds_[0][0])[:60]}`)", sm, st_)

    with ctx.obligation("C09.3", "every exit of limited_maximal_cliques comes after the size loop") as o:
        # a shortcut exit (`if len(C) == 1: return [sorted(C[0])]`) hands back cliques that never met the `> m0` test
        if len(cl_loops) == 1:
            lp0 = cl_loops[0]
            n_ret = 0
            for r_ in [n for n in astx.walk_fn(lm.node) if isinstance(n, ast.Return)]:
                n_ret += 1
                if r_.lineno < lp0.lineno or parl.inside(r_, lp0):
                    if r_.value is not None and isinstance(r_.value, (ast.List, ast.Tuple)) and not r_.value.elts:
                        o.holds(lm, r_, "an early exit with an empty list (no cliques, nothing to bound)")
                    else:
                        o.violated(lm, r_, f"`return {txt(r_.value)[:50] if r_.value is not None else ''}` leaves limited_maximal_cliques before / inside the loop that compares each clique with m0: "
                                           "a clique larger than the bound is returned whole", shape_free=True)
            if n_ret:
                o.holds(lm, lp0, f"{n_ret} return statement(s) examined against the size loop")
        else:
            o.undecided("size loop of limited_maximal_cliques not found", lm)

    with ctx.obligation("C09.3", "size bound: returned cliques passed `not size > m0` or are m0-subsets; decomposed cliques are excluded", floor=3) as o:
        if Cn is None or len(cl_loops) != 1 or len(combs) != 1 or not parl.inside(combs[0], cl_loops[0]):
            o.undecided("size guard / decomposition not found in limited_maximal_cliques", lm)
        else:
            lp = cl_loops[0]
            cv = txt(lp.target)
            cb = combs[0]
            keep = [Cn, cv]
            big = rules.cond_term(f"len({Cn}[{cv}]) > self._m0")
            got = rules.path_term(parl, scl, cb, upto=lp, keep=keep)
            where = parl.stmt_of(rules.path_conditions(parl, cb, upto=lp)[0][0]) if rules.path_conditions(parl, cb, upto=lp) else cb
            big_eq = rules.cond_term(f"len({Cn}[{cv}]) >= self._m0")
            if got == big:
                o.holds(lm, where, "decompose iff len(clique) > m0")
            elif got == big_eq:
                # the only m0-subset of a clique with exactly m0 vertices is that clique (sorted): the same cover entry either way
                # (independent differential audit: identical covers on 167 graphs)
                o.holds(lm, where, "decompose iff len(clique) >= m0: a clique of exactly m0 vertices decomposes into itself")
                big = big_eq
            elif not tm.has_opaque(got) and tm.leaves(got) <= {Cn, cv, "self._m0", "len()"}:
                o.violated(lm, where, f"cliques are decomposed when `{tm.show(got)}`; exactly the cliques LARGER than m0 must be decomposed (cliques of size m0 stay intact)")
            else:
                o.undecided(f"size guard `{tm.show(got)[:120]}` not recognised", lm, where)
            if len(cb.args) == 2 and txt(scl.resolve(cb.args[1])) == "self._m0":
                o.holds(lm, cb, "oversized cliques are replaced by their m0-subsets")
            elif len(cb.args) == 2:
                o.violated(lm, cb, f"sub-cliques of size `{txt(cb.args[1])}` instead of m0: the size bound is exceeded or cliques are needlessly split")
            # the index of a decomposed clique is recorded (on the same path) and filtered out afterwards
            excl = [n for n in ast.walk(lp) if isinstance(n, ast.Call) and isinstance(n.func, ast.Attribute) and n.func.attr in ("append", "add") and len(n.args) == 1
                    and txt(n.args[0]) == cv and isinstance(n.func.value, ast.Name) and rules.path_term(parl, scl, n, upto=lp, keep=keep) == got]
            if not excl:
                o.violated(lm, where, "the index of a decomposed clique is not recorded for exclusion: oversized cliques stay in the result (size bound broken, edges covered twice)")
            else:
                X = txt(excl[0].func.value)
                # the keep-set  set(range(len(C))) - set(X)  and an iteration over it that picks C[i]
                def _is_keepset(e_):
                    e_ = scl.resolve(e_, keep=[Cn, X])
                    while isinstance(e_, ast.Call) and txt(e_.func) in ("sorted", "list", "tuple") and len(e_.args) == 1:
                        e_ = e_.args[0]
                    return match(pat(f"set(range(len({Cn}))) - set({X})"), e_) is not None or match(pat(f"set(range(len({Cn}))).difference({X})"), e_) is not None \
                        or match(pat(f"set(range(len({Cn}))) - {X}"), e_) is not None
                keepsets = [n for n in astx.walk_fn(lm.node) if isinstance(n, (ast.BinOp, ast.Call)) and _is_keepset(n)]
                users = []
                for n in astx.walk_fn(lm.node):
                    gens = n.generators if isinstance(n, (ast.ListComp, ast.GeneratorExp, ast.SetComp)) else []
                    for g_ in gens:
                        if _is_keepset(g_.iter) and any(isinstance(x, ast.Subscript) and txt(x.value) == Cn and txt(x.slice) == txt(g_.target) for x in ast.walk(n.elt)):
                            users.append(n)
                    if isinstance(n, ast.For) and _is_keepset(n.iter) and any(isinstance(x, ast.Subscript) and txt(x.value) == Cn and txt(x.slice) == txt(n.target) for b_ in n.body for x in ast.walk(b_)):
                        users.append(n)
                if users:
                    o.holds(lm, users[0], "the indices of decomposed cliques are removed from the result")
                elif not keepsets:
                    o.violated(lm, excl[0], "the computed keep-set is not applied: oversized cliques stay in the result next to their sub-cliques")
                else:
                    o.undecided(f"how the keep-set `{txt(keepsets[0])[:60]}` is applied was not recognised", lm, keepsets[0])

    with ctx.obligation("C09.4", "members are sorted BEFORE duplicates are removed", floor=2) as o:
        dedupes = [n for n in astx.walk_fn(lm.node) if isinstance(n, ast.Call) and txt(n.func) == "set" and n.args and isinstance(n.args[0], (ast.GeneratorExp, ast.ListComp))
                   and txt(n.args[0].elt).startswith("tuple(")]
        flow = _dedupe_flow(lm, scl) if len(dedupes) != 1 else None
        if flow is not None:
            node, leaves = flow
            raw = [l for l in leaves if l[1] == "raw"]
            unk = [l for l in leaves if l[1] == "unknown"]
            for l in leaves:
                if l[1] == "sorted":
                    o.holds(lm, l[0], f"`{txt(l[0])[:70]}` enters the de-duplication in sorted order")
                elif l[1] == "whole":
                    o.holds(lm, l[0], f"`{txt(l[0])[:70]}`: maximal cliques kept whole are distinct vertex sets, their vertex order does not matter for the de-duplication")
            for l in raw:
                o.violated(lm, l[0], f"`{txt(l[0])[:70]}` enters the de-duplication in the vertex order the clique finder happened to produce: the same vertex set reached "
                                     "in two orders (a sub-clique shared by two oversized cliques, (a, b) and (b, a)) survives the set, and its edges are covered twice", shape_free=True)
            if unk and not raw:
                o.undecided(f"order of `{txt(unk[0][0])[:70]}` entering the de-duplication not understood", lm, unk[0][0])
        elif len(dedupes) != 1:
            o.undecided("duplicate removal set(tuple(row) ...) not found", lm)
        elif len(combs) == 1 and Cn is not None and len(cl_loops) == 1 and big is not None:
            lp = cl_loops[0]
            cv = txt(lp.target)
            cb = combs[0]
            a0 = scl.resolve(cb.args[0], keep=[Cn, cv])
            if isinstance(a0, ast.Call) and txt(a0.func) == "sorted":
                o.holds(lm, cb, "sub-cliques are combinations of the SORTED member list, hence sorted tuples")
            else:
                wrapped = [a for a in parl.ancestors(cb) if isinstance(a, ast.Call) and txt(a.func) == "sorted"]
                o.violated(lm, cb, "sub-cliques are taken from an unsorted member list" + (" (sorting the list of subsets does not sort the subsets)" if wrapped else "") +
                           ": two overlapping oversized cliques contribute (a, b) and (b, a), both survive set(), and that edge is covered twice")
            # the cliques kept whole: Cn[c] = sorted(Cn[c]) on the complementary path, or a sorting pass before the de-duplication
            small = tm.canon(tm.mk_not(big))
            srt = [s_ for s_ in ast.walk(lp) if isinstance(s_, ast.Assign) and txt(s_.targets[0]) == f"{Cn}[{cv}]" and txt(scl.resolve(s_.value, keep=[Cn, cv])) == f"sorted({Cn}[{cv}])"
                   and rules.path_term(parl, scl, s_, upto=lp, keep=[Cn, cv]) in (small, tm.atom_poly(("boolconst", True)))]
            pre = [s_ for s_ in lm.body if isinstance(s_, ast.For) and s_ is not lp and lm.body.index(s_) < lm.body.index(_top(parl, dedupes[0], lm.node))
                   and any(isinstance(x, ast.Assign) and isinstance(x.value, ast.Call) and txt(x.value.func) == "sorted" for x in ast.walk(s_))]
            pre += [s_ for s_ in lm.body if isinstance(s_, (ast.Assign, ast.AnnAssign)) and isinstance(s_.value, ast.ListComp) and txt(s_.value.elt).startswith("sorted(")
                    and lm.body.index(s_) < lm.body.index(_top(parl, dedupes[0], lm.node)) and lm.body.index(s_) > lm.body.index(lp)]
            if srt or pre:
                o.holds(lm, (srt or pre)[0], "cliques kept whole are sorted before the de-duplication")
            else:
                # Network.find_cliques lists every MAXIMAL clique once, and no sub-clique of an oversized clique is maximal:
                # a clique kept whole can coincide with no other entry, whatever its vertex order (confirmed by a
                # differential run of the variant that drops the early sort: identical covers)
                o.holds(lm, lp, "cliques kept whole are distinct vertex sets (maximal cliques, each listed once): their vertex order does not matter for the de-duplication")

    with ctx.obligation("C09.5", "compute_scores is handed the clique list and the cover in that order") as o:
        # the scorer's first parameter is the list it scores (cliques), its second the list it appends score-0 cliques to (the
        # cover that get_EECC returns): both are lists, so a swap is silent
        rets_ = [n for n in astx.walk_fn(ge.node) if isinstance(n, ast.Return) and n.value is not None]
        cover = None
        if rets_:
            rv = rets_[-1].value
            while isinstance(rv, ast.Call) and txt(rv.func) in ("sorted", "list", "tuple") and rv.args:
                rv = rv.args[0]             # return sorted(EC, key=..)
            cover = rv.id if isinstance(rv, ast.Name) else None
        for c_ in [n for n in astx.walk_fn(ge.node) if isinstance(n, ast.Call) and txt(n.func) == "self.compute_scores"]:
            if len(c_.args) < 2 or cover is None:
                o.undecided("call of compute_scores / returned cover not recognised", ge, c_)
                continue
            a0, a1 = txt(c_.args[0]), txt(c_.args[1])
            cl_defs = [s_ for s_ in sc.assigns.get(a0, []) if isinstance(getattr(s_, "value", None), ast.Call) and txt(s_.value.func) == "self.limited_maximal_cliques"]
            if a1 == cover and cl_defs:
                o.holds(ge, c_, f"compute_scores({a0} = the enumerated cliques, {a1} = the cover that is returned, ..)")
            elif a0 == cover:
                o.violated(ge, c_, f"compute_scores is called with the cover `{a0}` as the list to score and `{a1}` as the list to extend: the score-0 cliques are appended to the "
                                   "candidate list instead of the cover", shape_free=True)
            else:
                o.undecided(f"arguments ({a0}, {a1}) of compute_scores not recognised as (cliques, cover)", ge, c_)

    with ctx.obligation("C09.5", "score-0 cliques go in intact; the random tie-break is over the largest minimum-score candidates", floor=3) as o:
        scs = Scope(cs.node)
        pcs = scs.parents
        apps = [n for n in astx.walk_fn(cs.node) if isinstance(n, ast.Call) and isinstance(n.func, ast.Attribute) and n.func.attr == "append" and txt(n.func.value) == cs.params[2]]
        if len(apps) != 1:
            o.undecided("EC.append in compute_scores not found", cs)
        else:
            a = apps[0]
            arg_r = scs.resolve(a.args[0], keep=["C"])
            b = match(pat("C[$c]"), arg_r) or match(pat("sorted(C[$c])"), arg_r)
            lpa = pcs.loops_of(a)
            if b is None or not lpa:
                o.undecided("score-0 append not recognised", cs, a)
            else:
                c = txt(b["c"])
                got = rules.path_term(pcs, scs, a, upto=lpa[-1], keep=["r", c])
                if got in (rules.cond_term(f"r[{c}] == 0"), rules.cond_term(f"not r[{c}]"), rules.cond_term(f"r[{c}] <= 0")):
                    o.holds(cs, a, f"C[{c}] appended whole exactly when its score r[{c}] is 0")
                elif tm.single_atom(got) == ("boolconst", True):
                    o.violated(cs, a, "every clique is put in the cover unconditionally, not exactly the ones that share no edge with another clique (score 0)")
                elif not tm.has_opaque(got):
                    o.violated(cs, a, f"a clique is put in the cover under `{tm.show(got)[:100]}`, not exactly when it shares no edge with another clique (score 0)")
                else:
                    o.undecided("score-0 append condition not understood", cs, a)
        ch = [n for n in astx.walk_fn(ge.node) if isinstance(n, ast.Call) and prog.external(ge.module, n.func) in ("random.choice",)]
        if len(ch) != 1:
            o.undecided("random choice of the candidate not found", ge)
        else:
            L = sc.resolve(ch[0].args[0])
            ok = isinstance(L, ast.ListComp) and len(L.generators) == 1 and len(L.generators[0].ifs) == 1
            if ok:
                idx = txt(L.generators[0].target)
                cond = L.generators[0].ifs[0]
                src = L.generators[0].iter
                b = match(pat(f"ord[{idx}] == $m"), cond)
                srcb = match(pat("[$i for $i, $e in enumerate(r) if $e == min(r)]"), src) or match(pat("[$i for $i, $e in enumerate(r) if $e == max(r)]"), src)
                if b is not None and srcb is not None:
                    o.holds(ge, ch[0], "choice over {idx in argmin r : ord[idx] == max ord over argmin r}")
                    # max_ord is the maximum of ord over min_r_set
                    mname = txt(b["m"])
                    if not isinstance(b["m"], ast.Name):
                        bm = match(pat("max(ord[$i] for $i in $src)"), b["m"]) or match(pat("max([ord[$i] for $i in $src])"), b["m"])
                        if bm is not None and txt(sc.resolve(bm["src"])) == txt(src):
                            o.holds(ge, ch[0], "threshold = max of ord over the minimum-score set")
                        elif match(pat("min(ord[$i] for $i in $src)"), b["m"]) is not None:
                            o.violated(ge, ch[0], "the threshold is the MINIMUM size among the minimum-score candidates")
                    # running maximum:  for idx in S: if ord[idx] > m: m = ord[idx]   (any spelling of the guard)
                    upd = [n for n in ast.walk(wl) if isinstance(n, ast.Assign) and txt(n.targets[0]) == mname and match(pat("ord[$i]"), n.value) is not None and par.loops_of(n)
                           and par.loops_of(n)[0] is not wl]
                    mx = []
                    if upd and isinstance(b["m"], ast.Name):
                        ii = txt(match(pat("ord[$i]"), upd[0].value)["i"])
                        gt = rules.path_term(par, sc, upd[0], upto=par.loops_of(upd[0])[0], keep=[mname, ii, "ord"])
                        mx = [par.stmt_of(rules.path_conditions(par, upd[0], upto=par.loops_of(upd[0])[0])[0][0])] if rules.path_conditions(par, upd[0], upto=par.loops_of(upd[0])[0]) else [upd[0]]
                        if gt in (rules.cond_term(f"ord[{ii}] > {mname}"), rules.cond_term(f"ord[{ii}] >= {mname}")):
                            o.holds(ge, mx[0], f"`{mname}` is the running maximum of ord over the minimum-score set")
                        elif not tm.has_opaque(gt):
                            o.violated(ge, mx[0], f"`{mname}` is not the maximum size among the minimum-score candidates: updated when `{tm.show(gt)[:80]}`")
                        else:
                            mx = []
                    if mx:
                        pass
                    else:
                        # closed form: max_ord = max(ord[idx] for idx in <the minimum-score set>)
                        md = [s_ for s_ in ast.walk(wl) if isinstance(s_, (ast.Assign, ast.AnnAssign)) and txt(s_.targets[0] if isinstance(s_, ast.Assign) else s_.target) == mname]
                        if len(md) == 1:
                            bm = match(pat("max(ord[$i] for $i in $src)"), md[0].value) or match(pat("max([ord[$i] for $i in $src])"), md[0].value)
                            if bm is not None and txt(sc.resolve(bm["src"])) == txt(L.generators[0].iter):
                                o.holds(ge, md[0], f"`{mname}` = max of ord over the minimum-score set")
                            elif match(pat("min(ord[$i] for $i in $src)"), md[0].value) is not None:
                                o.violated(ge, md[0], f"`{mname}` is the MINIMUM size among the minimum-score candidates")
                elif srcb is None and b is not None:
                    t = txt(src)
                    if "max(r)" in t:
                        o.holds(ge, ch[0], "a different score heuristic (same guarantees)")
                    else:
                        o.undecided(f"candidate set `{t}` not recognised", ge, ch[0])
                else:
                    o.undecided("tie-break list not recognised", ge, ch[0])
            else:
                o.undecided("tie-break list not recognised", ge, ch[0])

    with ctx.obligation("C09.6", "the overlap test looks at every other clique", floor=2) as o:
        wls = [n for n in astx.walk_fn(cs.node) if isinstance(n, ast.While)]
        anys = [n for n in astx.walk_fn(cs.node) if isinstance(n, ast.Call) and txt(n.func) == "any" and len(n.args) == 1 and isinstance(n.args[0], (ast.GeneratorExp, ast.ListComp))
                and "issubset" in txt(n.args[0].elt) and len(n.args[0].generators) == 1]
        if not wls and len(anys) == 1:
            # closed form of the scan: any(n != c and {u, v}.issubset(C[n]) for n in range(len(C)))
            g_ = anys[0].args[0].generators[0]
            scs_ = Scope(cs.node)
            it_ = scs_.resolve(g_.iter)
            b_ = match(pat("range($n)"), it_) or match(pat("range(0, $n)"), it_)
            nv_ = txt(g_.target)
            if b_ is None and match(pat("enumerate(C)"), it_) is not None and isinstance(g_.target, ast.Tuple) and len(g_.target.elts) == 2:
                # any(n != c and edge <= other for n, other in enumerate(C)): every clique, with its index
                b_ = {"n": ast.parse("len(C)", mode="eval").body}
                nv_ = txt(g_.target.elts[0])
            conj = anys[0].args[0].elt.values if isinstance(anys[0].args[0].elt, ast.BoolOp) and isinstance(anys[0].args[0].elt.op, ast.And) else [anys[0].args[0].elt]
            conj = list(conj) + list(g_.ifs)
            if b_ is None:
                o.undecided(f"scan domain `{txt(it_)}` not recognised", cs, anys[0])
            else:
                bound = rules.term_of(b_["n"], scs_)
                if bound == tm.parse("len(C)"):
                    o.holds(cs, anys[0], f"any(...) over every clique index {nv_} in range(len(C))")
                    o.holds(cs, anys[0], "no early exit other than 'overlap found'")
                elif not tm.has_opaque(bound):
                    o.violated(cs, anys[0], f"the scan covers range({tm.show(bound)}), not every clique: an overlapping clique is overlooked, both get score 0 and their shared edge is covered twice")
                else:
                    o.undecided("scan bound not understood", cs, anys[0])
                skip = [v for v in conj if isinstance(v, ast.Compare) and nv_ in astx.names_in(v) and isinstance(v.ops[0], ast.NotEq)]
                if not skip:
                    o.violated(cs, anys[0], "the clique is compared with itself: every edge counts as overlapping")
        elif not wls and [n for n in astx.walk_fn(cs.node) if isinstance(n, ast.For) and isinstance(n.iter, ast.Call) and txt(n.iter.func) == "range"
                          and "issubset" in txt(n) and not any(isinstance(x, ast.For) and "issubset" in txt(x) for s_ in n.body for x in ast.walk(s_))]:
            # the scan written as `for n in range(B)`: B must be the number of cliques, starting at 0
            fl = [n for n in astx.walk_fn(cs.node) if isinstance(n, ast.For) and isinstance(n.iter, ast.Call) and txt(n.iter.func) == "range"
                  and "issubset" in txt(n) and not any(isinstance(x, ast.For) and "issubset" in txt(x) for s_ in n.body for x in ast.walk(s_))][0]
            ra = fl.iter.args
            lo_ = tm.ZERO if len(ra) == 1 else rules.term_of(ra[0], Scope(cs.node))
            hi_ = rules.term_of(ra[0] if len(ra) == 1 else ra[1], Scope(cs.node))
            if len(ra) <= 2 and lo_ == tm.ZERO and hi_ == tm.parse("len(C)"):
                o.holds(cs, fl, f"scan index {txt(fl.target)} runs over range(len(C)): every clique")
                o.undecided("exits of the for-form scan not analysed", cs, fl)
            elif len(ra) <= 2 and not tm.has_opaque(hi_) and not tm.has_opaque(lo_):
                o.violated(cs, fl, f"the scan covers range({tm.show(lo_)}, {tm.show(hi_)}), not every clique 0..len(C)-1: an overlapping clique is overlooked, both get score 0 and their "
                                   "shared edge is covered twice", shape_free=True)
            else:
                o.undecided(f"scan range `{txt(fl.iter)}` not understood", cs, fl)
        elif len(wls) != 1:
            o.undecided("inner scan loop not found", cs)
        else:
            w = wls[0]
            nvar = None
            r = rules.compare_with_pivot(w.test, lambda x: isinstance(x, ast.Name))
            if r is None:
                o.undecided(f"scan condition `{txt(w.test)}` not recognised", cs, w)
            else:
                nvar = txt(w.test.left) if isinstance(w.test.left, ast.Name) else txt(w.test.comparators[0])
                bound = rules.term_of(r[1], Scope(cs.node))
                numc = tm.parse("len(C)")
                ok = (r[0] == "<=" and bound == tm.sub(numc, tm.ONE)) or (r[0] == "<" and bound == numc)
                if ok:
                    o.holds(cs, w, f"scan index {nvar} runs to the last clique")
                else:
                    o.violated(cs, w, f"scan stops at `{txt(w.test)}`: the last clique(s) are never compared, an overlapping clique gets score 0 and its shared edge is covered twice")
                pw = astx.Parents(cs.node)
                scs2 = Scope(cs.node)
                init = [s for s in ast.walk(cs.node) if isinstance(s, (ast.Assign, ast.AnnAssign)) and txt(s.targets[0] if isinstance(s, ast.Assign) else s.target) == nvar
                        and not pw.inside(s, w)]
                if init and all(astx.const_value(s.value) == 0 for s in init) and any(pw.loops_of(s) and pw.loops_of(w) and pw.loops_of(s)[0] is pw.loops_of(w)[0] for s in init):
                    o.holds(cs, init[0], f"{nvar} starts at 0")
                else:
                    o.violated(cs, w, f"scan index `{nvar}` does not start at 0 for every edge")
                # exits of the scan: only "overlap found" or exhaustion.  The condition of every break, as a canonical
                # term, must be  n != c  and  <pair>.issubset(C[n])
                cvar = txt(pw.loops_of(w)[-1].target) if pw.loops_of(w) else None

                def _found_shape(t):
                    a_ = tm.single_atom(t)
                    if a_ is None or a_[0] != "bool" or a_[1] != "And" or len(a_[2]) != 2:
                        return None
                    ne = [x for x in a_[2] if (tm.single_atom(x) or ("",))[0] == "cmp" and tm.single_atom(x)[1] == "NotEq"]
                    sub_ = [x for x in a_[2] if (tm.single_atom(x) or ("",))[0] == "call" and tm.single_atom(x)[1].endswith("issubset")]
                    if len(ne) == 1 and len(sub_) == 1:
                        return tm.leaves(ne[0])
                    if len(sub_) == 1:
                        return set()
                    return None
                brs = [x for x in ast.walk(w) if isinstance(x, (ast.Break, ast.Return))]
                for br in brs:
                    t = rules.path_term(pw, scs2, br, upto=w)
                    shape = _found_shape(t)
                    if shape is None:
                        a_ = tm.single_atom(t)
                        if a_ is not None and a_[0] == "call" and a_[1].endswith("issubset"):
                            o.violated(cs, br, "the clique is compared with itself: every edge counts as overlapping")
                        else:
                            o.violated(cs, br, f"the scan over the other cliques can stop early (`{tm.show(t)[:90]}`) without having compared every clique: an "
                                               "overlapping clique is overlooked, both get score 0 and their shared edge is covered twice")
                    elif nvar not in shape:
                        o.violated(cs, br, "the clique is compared with itself: every edge counts as overlapping")
                if not brs:
                    o.undecided("scan loop has no `found` exit", cs, w)


def _top(par, node, container):
    """Top-level statement of `container` (a loop or a function node) that contains node."""
    body = container.body
    n = node
    while n is not None:
        if any(n is s for s in body):
            return n
        n = par.parent(n)
    return None


def blk_owner(par, st, wl, ge):
    return wl if par.inside(st, wl) else ge.node


def _n_is_len(par, il, N, X):
    """N is a local assigned `len(X)` in the enclosing loop body just before the nest."""
    outer = par.loops_of(il)
    if not outer:
        return False
    for s in outer[0].body:
        if isinstance(s, (ast.Assign, ast.AnnAssign)) and astx.txt(s.targets[0] if isinstance(s, ast.Assign) else s.target) == N and astx.txt(s.value) == f"len({X})":
            return True
    return False


def _lockstep(ge):
    """Every filtering loop appends C[i], ord[i], r[i] with the same i, one append each."""
    ok_any = None         # None: no filtering construct recognised; True / False: recognised and (not) in lock-step
    for n in astx.walk_fn(ge.node):
        # comprehension form:  C, ord, r = [C[i] for i in S], [ord[i] for i in S], [r[i] for i in S]   (or three assignments)
        if isinstance(n, ast.Assign) and len(n.targets) == 1 and isinstance(n.targets[0], ast.Tuple) and isinstance(n.value, ast.Tuple) \
                and len(n.targets[0].elts) == 3 and len(n.value.elts) == 3 and sorted(astx.txt(t) for t in n.targets[0].elts) == ["C", "ord", "r"]:
            comps = list(n.value.elts)
            if all(isinstance(c, ast.ListComp) and len(c.generators) == 1 and not c.generators[0].ifs and isinstance(c.elt, ast.Subscript) for c in comps):
                same_src = len({astx.txt(c.generators[0].iter) for c in comps}) == 1
                aligned = all(astx.txt(c.elt) == f"{astx.txt(t)}[{astx.txt(c.generators[0].target)}]" for t, c in zip(n.targets[0].elts, comps))
                if same_src and aligned:
                    ok_any = True if ok_any is None else ok_any
                else:
                    return False
        if isinstance(n, ast.For):
            apps = [s for s in n.body if isinstance(s, ast.Expr) and isinstance(s.value, ast.Call) and isinstance(s.value.func, ast.Attribute) and s.value.func.attr == "append"]
            if len(apps) == 3 and len(n.body) == 3:
                i = astx.txt(n.target)
                srcs = sorted(astx.txt(a.value.args[0]) for a in apps)
                if srcs == sorted([f"C[{i}]", f"ord[{i}]", f"r[{i}]"]):
                    ok_any = True
                else:
                    return False
    return ok_any
