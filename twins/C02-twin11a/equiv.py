import sys, os; sys.path.insert(0, os.getcwd())
import random, hashlib, itertools, types
import numpy as np

from gcmpy.names.gcm_algorithm_names import GCMAlgorithmNames as N
from gcmpy.gcm_algorithm.gcm_algorithm import GCMAlgorithm
from gcmpy.gcm_algorithm.gcm_algorithm_fast import GCMAlgorithmFast
from gcmpy.gcm_algorithm.gcm_algorithm_network import GCMAlgorithmNetwork
from gcmpy.gcm_algorithm.gcm_algorithm_custom_motifs import GCMAlgorithmCustomMotifs
from gcmpy.gcm_algorithm.gcm_algorithm_factory import GCMAlgorithmFactory
from gcmpy.gcm_algorithm.gcm_algorithm_main import GCMAlgorithmMain
from gcmpy.gcm_algorithm.gcm_algorithm_types import GCMAlgorithmTypes
from gcmpy.network.edge_list import LightWeightEdgeList
from gcmpy.network.network import Network
from gcmpy.network.network_to_edge_list import NetworkToEdgeList
from gcmpy.motif_generators.clique_motif import clique_motif
from gcmpy.motif_generators.cycle_motif import cycle_motif
from gcmpy.motif_generators.diamond_motif import diamond_motif

OUT = []


def emit(*a):
    OUT.append(" ".join(str(x) for x in a))


def rng_state():
    h = hashlib.sha256()
    h.update(repr(random.getstate()).encode())
    st = np.random.get_state()
    h.update(repr((st[0], st[1].tolist(), st[2], st[3], st[4])).encode())
    return h.hexdigest()[:16]


def seed(s):
    random.seed(s)
    np.random.seed(s)


def attempt(label, f):
    try:
        r = f()
        emit(label, "OK", r)
    except BaseException as e:  # noqa
        ctx = type(e.__context__).__name__ if e.__context__ is not None else None
        emit(label, "EXC", type(e).__name__, "ctx=" + str(ctx))
    emit(label, "rng", rng_state())


def show_el(el):
    if isinstance(el, LightWeightEdgeList):
        return ("EL", el.edge_list, el.topologies, el.motif_id, el.joint_degrees,
                sorted(vars(el).keys()))
    if isinstance(el, Network):
        G = el.G
        return ("NET", sorted(G.nodes(data=True), key=lambda t: t[0]),
                [(u, v, sorted(d.items())) for u, v, d in G.edges(data=True)])
    return ("OTHER", type(el).__name__, repr(el))


def make_jds(n, sizes, s):
    """joint degree sequence whose column sums are multiples of the motif sizes"""
    r = random.Random(s)
    jds = [[r.randint(0, 3) for _ in sizes] for _ in range(n)]
    for c, m in enumerate(sizes):
        tot = sum(row[c] for row in jds)
        while tot % m:
            jds[r.randrange(n)][c] += 1
            tot += 1
    return [tuple(row) for row in jds]


def bare_edge(vs):
    return (vs[0], vs[1])


def two_edges(vs):
    return [(vs[0], vs[1]), (vs[1], vs[2])]


def path3(vs):
    return ((vs[0], vs[1]), (vs[1], vs[2]))


FAST_CONFIGS = [
    ([2], [clique_motif], ["2-clique"]),
    ([3], [clique_motif], ["3-clique"]),
    ([2, 3], [clique_motif, clique_motif], ["2-clique", "3-clique"]),
    ([2, 3, 4], [clique_motif, cycle_motif, diamond_motif], ["t", "c3", "dia"]),
    ([4, 5], [cycle_motif, clique_motif], ["c4", "k5"]),
    ([3, 2], [two_edges, clique_motif], ["p3", "e"]),
    ([2], [bare_edge], ["bare"]),
]


def run_algorithms(kinds=("fast", "network", "main")):
    for ci, (sizes, builds, names) in enumerate(FAST_CONFIGS):
        for n in (0, 1, 5, 23):
            jds = make_jds(n, sizes, 100 * ci + n) if n else []
            params = {N.MOTIF_SIZES: sizes, N.BUILD_FUNCTIONS: builds, N.EDGE_NAMES: names}
            if "fast" in kinds:
                seed(7 + ci + n)
                alg = None

                def mk():
                    nonlocal alg
                    alg = GCMAlgorithmFast(params)
                    return sorted(vars(alg).keys())
                attempt(f"fast{ci}/{n}/new", mk)
                if alg is not None:
                    for rep in range(3):   # repeated calls on one object
                        attempt(f"fast{ci}/{n}/run{rep}",
                                lambda: show_el(alg.random_clustered_graph(jds)))
            if "network" in kinds:
                seed(11 + ci + n)
                attempt(f"net{ci}/{n}",
                        lambda: show_el(GCMAlgorithmNetwork(params).random_clustered_graph(jds)))
                seed(11 + ci + n)
                attempt(f"net{ci}/{n}/roundtrip", lambda: show_el(NetworkToEdgeList.convert(
                    GCMAlgorithmNetwork(params).random_clustered_graph(jds))))
            if "main" in kinds:
                for t in ("fast", "network", "motifs", "bogus", None, 3, GCMAlgorithmTypes.FAST):
                    p = dict(params)
                    p[N.GCM_TYPE] = t
                    seed(13 + ci + n)

                    def go():
                        a = GCMAlgorithmMain.load_gcm_algorithm(p)
                        return (type(a).__name__, show_el(a.random_clustered_graph(jds)))
                    attempt(f"main{ci}/{n}/{t}", go)


def custom_params():
    def diamond(vs):
        return ((vs[0], vs[1]), (vs[1], vs[2]), (vs[2], vs[3]), (vs[3], vs[1]), (vs[0], vs[2]))

    def diamond_names():
        return ("d-o", "d-o", "d-o", "d-o", "d-i")

    def twoclique(vs):
        return (vs[0], vs[1])

    def twoclique_names():
        return "2-clique"

    def threeclique(vs):
        return (vs[0], vs[1]), (vs[0], vs[2]), (vs[1], vs[2])

    def threeclique_names():
        return "3-clique", "3-clique", "3-clique"

    def pent(vs):
        return ((vs[0], vs[1]), (vs[1], vs[2]), (vs[2], vs[3]), (vs[3], vs[4]),
                (vs[0], vs[4]), (vs[1], vs[3]))

    def pent_names():
        return "p01", "p12", "p23", "p34", "p40", "p13"

    def path(vs):
        return [(vs[0], vs[1]), (vs[1], vs[2])]

    def path_names():
        return ["pa", "pb"]

    jds = [
        (2, 1, 0, 1, 1, 0, 0), (1, 1, 0, 1, 1, 0, 0), (3, 1, 1, 0, 0, 1, 0),
        (2, 0, 1, 0, 0, 1, 0), (0, 0, 0, 1, 0, 0, 1), (1, 0, 0, 1, 0, 0, 0),
        (1, 0, 1, 0, 0, 0, 0), (1, 0, 1, 0, 0, 0, 0), (1, 0, 0, 1, 0, 0, 0),
        (1, 0, 0, 1, 0, 0, 0), (1, 0, 1, 0, 0, 0, 0), (0, 0, 1, 0, 0, 0, 0),
    ]
    big = {
        N.MOTIF_SIZES: [2, 3, 2, 2, 2, 2, 1],
        N.EDGE_NAMES: [twoclique_names, threeclique_names, diamond_names, pent_names],
        N.BUILD_FUNCTIONS: [twoclique, threeclique, diamond, pent],
        N.MOTIF_INDICES: [[0], [1], [2, 3], [4, 5, 6]],
    }
    small = {
        N.MOTIF_SIZES: [2, 3],
        N.EDGE_NAMES: [twoclique_names, path_names],
        N.BUILD_FUNCTIONS: [twoclique, path],
        N.MOTIF_INDICES: [[0], [1]],
    }
    return [(big, jds), (small, make_jds(9, [2, 3], 5)), (small, make_jds(30, [2, 3], 6)),
            (small, [])]


def run_custom():
    for ci, (params, jds) in enumerate(custom_params()):
        seed(21 + ci)
        alg = GCMAlgorithmCustomMotifs(params)
        emit(f"cust{ci}/vars", sorted(vars(alg).keys()))
        for rep in range(3):
            attempt(f"cust{ci}/run{rep}", lambda: show_el(alg.random_clustered_graph(jds)))
        p = dict(params)
        p[N.GCM_TYPE] = "motifs"
        seed(22 + ci)
        attempt(f"cust{ci}/main", lambda: show_el(
            GCMAlgorithmMain.load_gcm_algorithm(p).random_clustered_graph(jds)))
        # sizes that do not divide the stub counts (silent remainder partitions)
        if jds:
            q = dict(params)
            q[N.MOTIF_SIZES] = [m + 1 for m in params[N.MOTIF_SIZES]]
            seed(23 + ci)
            attempt(f"cust{ci}/odd", lambda: show_el(
                GCMAlgorithmCustomMotifs(q).random_clustered_graph(jds)))
            q[N.MOTIF_SIZES] = [0 for _ in params[N.MOTIF_SIZES]]
            seed(24 + ci)
            attempt(f"cust{ci}/zero", lambda: show_el(
                GCMAlgorithmCustomMotifs(q).random_clustered_graph(jds)))


def run_malformed():
    full = {N.MOTIF_SIZES: [2], N.BUILD_FUNCTIONS: [clique_motif], N.EDGE_NAMES: ["e"],
            N.MOTIF_INDICES: [[0]]}
    keys = list(full)
    classes = [GCMAlgorithmFast, GCMAlgorithmNetwork, GCMAlgorithmCustomMotifs, GCMAlgorithm]
    for cls in classes:
        for r in range(len(keys) + 1):
            for sub in itertools.combinations(keys, r):
                p = {k: full[k] for k in sub}
                seed(1)
                attempt(f"mal/{cls.__name__}/{[k.name for k in sub]}",
                        lambda: sorted(vars(cls(p)).items(), key=lambda t: t[0]).__repr__()
                        .replace(repr(clique_motif), "<clique_motif>"))
        for bad in (None, [], 5, "x", {"motif_sizes": [2]}):
            seed(1)
            attempt(f"mal/{cls.__name__}/params={bad!r}", lambda: sorted(vars(cls(bad))))
        # escaped half-initialised object
        o = object.__new__(cls) if cls is not GCMAlgorithm else None
        if o is not None:
            attempt(f"mal/{cls.__name__}/halfinit", lambda: o.__init__({N.MOTIF_SIZES: [9]}))
            emit(f"mal/{cls.__name__}/halfinit/vars", sorted(vars(o).items()))
    for t in list(GCMAlgorithmTypes) + ["fast", None, 0, [], {}, GCMAlgorithmTypes]:
        for p in (full, {}, None):
            seed(2)
            attempt(f"fac/{t!r}/{'full' if p else p!r}",
                    lambda: type(GCMAlgorithmFactory.resolve_algorithm(t, p)).__name__)


def run_site():
    import inspect
    emit("isgenfunc", inspect.isgeneratorfunction(GCMAlgorithm.infinite_sequence),
         inspect.isgeneratorfunction(GCMAlgorithmFast.infinite_sequence))
    emit("sig", str(inspect.signature(GCMAlgorithm.infinite_sequence)))
    p = {N.MOTIF_SIZES: [2], N.BUILD_FUNCTIONS: [clique_motif], N.EDGE_NAMES: ["e"],
         N.MOTIF_INDICES: [[0]]}
    for cls in (GCMAlgorithmFast, GCMAlgorithmNetwork, GCMAlgorithmCustomMotifs):
        seed(3)
        alg = cls(p)
        g = alg.infinite_sequence()
        emit(cls.__name__, "type", type(g).__name__, isinstance(g, types.GeneratorType),
             g.gi_code.co_name, g.__name__, g.__qualname__, iter(g) is g)
        emit("state0", inspect.getgeneratorstate(g))
        vals = [next(g) for _ in range(2000)]
        emit("vals", hashlib.sha256(repr(vals).encode()).hexdigest()[:16], vals[:5], vals[-1],
             {type(v).__name__ for v in vals})
        emit("send", g.send("ignored"), g.send(None), g.send(10 ** 30), next(g))
        g2 = alg.infinite_sequence()
        emit("independent", next(g2), next(g2), next(g), next(g2))
        emit("islice", list(itertools.islice(alg.infinite_sequence(), 5, 12)))
        attempt("throw", lambda: g.throw(KeyError("boom")))
        attempt("after-throw", lambda: next(g))
        emit("state-after-throw", inspect.getgeneratorstate(g))
        emit("close", g2.close(), inspect.getgeneratorstate(g2))
        attempt("after-close", lambda: next(g2))
        g3 = alg.infinite_sequence()
        attempt("send-before-start", lambda: g3.send(1))
        emit("then", next(g3), next(g3))
        g4 = alg.infinite_sequence()
        attempt("throw-before-start", lambda: g4.throw(ValueError))
        attempt("after", lambda: next(g4))
        g5 = alg.infinite_sequence()
        emit("close-unstarted", g5.close())
        attempt("after", lambda: next(g5))
        # unbound call with a foreign self: self is never used
        emit("foreign", list(itertools.islice(GCMAlgorithm.infinite_sequence(None), 3)))
        emit("rng", rng_state())
    # a long run (ids are plain ints all the way)
    g = GCMAlgorithmFast(p).infinite_sequence()
    last = None
    for last in itertools.islice(g, 300000):
        pass
    emit("long", last, type(last).__name__, next(g))


run_site()
run_algorithms()
run_custom()
run_malformed()
print("\n".join(OUT))
print("DIGEST", hashlib.sha256("\n".join(OUT).encode()).hexdigest())
