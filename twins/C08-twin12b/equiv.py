import sys, os; sys.path.insert(0, os.getcwd())
"""Variant b: `if not d: return` + iteration over a snapshot `list(d.items())` in
JointDegree.convert_jds_to_jdd.  Exercises it directly on every concrete loader object and
through the loaders that call it (cover, empirical, marginal-by-sampling)."""
import hashlib
import random
from collections import Counter, OrderedDict, deque

import numpy as np

from gcmpy.joint_degree.joint_degree_distribution import JointDegreeDistribution
from gcmpy.joint_degree.joint_degree_loaders.joint_degree_cover import JointDegreeCover
from gcmpy.joint_degree.joint_degree_loaders.joint_degree_empirical import JointDegreeEmpirical
from gcmpy.joint_degree.joint_degree_loaders.joint_degree_marginal import JointDegreeMarginal
from gcmpy.names.joint_degree_names import JointDegreeNames

random.seed(80802)
np.random.seed(80802)

LINES = []


def out(*parts):
    LINES.append(" ".join(str(p) for p in parts))


def rng_digest():
    s = repr(random.getstate()) + repr(np.random.get_state()[1].tolist()) + repr(np.random.get_state()[2:])
    return hashlib.sha256(s.encode()).hexdigest()[:16]


def attempt(label, fn):
    try:
        r = fn()
        out(label, "OK", repr(r))
    except BaseException as e:  # noqa
        out(label, "EXC", type(e).__name__)
    out(label, "rng", rng_digest())


def state(obj):
    return {k: repr(vars(obj)[k]) for k in sorted(vars(obj))}


def fresh():
    """one live object of each loader that uses convert_jds_to_jdd"""
    return [
        ("cover", JointDegreeCover({JointDegreeNames.COVER: [[0, 1], [1, 2, 3], [3, 0]]})),
        ("emp", JointDegreeEmpirical({JointDegreeNames.MOTIF_SIZES: [2, 3],
                                      JointDegreeNames.JDS: [(1, 0), (1, 1), (1, 0)]})),
    ]


class Weird:
    """hashable, equal to every other Weird with the same tag"""
    def __init__(self, tag):
        self.tag = tag

    def __hash__(self):
        return hash(self.tag)

    def __eq__(self, other):
        return isinstance(other, Weird) and other.tag == self.tag

    def __repr__(self):
        return "W(%r)" % (self.tag,)


def gen():
    yield (1, 2)


INPUTS = [
    ("empty-list", lambda: []),
    ("empty-tuple", lambda: ()),
    ("empty-str", lambda: ""),
    ("empty-dict", lambda: {}),
    ("empty-set", lambda: set()),
    ("empty-deque", lambda: deque()),
    ("empty-np", lambda: np.array([])),
    ("empty-np-2d", lambda: np.zeros((0, 3), dtype=int)),
    ("empty-range", lambda: range(0)),
    ("empty-counter", lambda: Counter()),
    ("single", lambda: [(1, 2)]),
    ("single-empty-tuple", lambda: [()]),
    ("all-same", lambda: [(1, 0)] * 7),
    ("two", lambda: [(1, 0), (0, 1)]),
    ("thirds", lambda: [(1, 0), (0, 1), (0, 1)]),
    ("zeros", lambda: [(0, 0), (0, 0), (0, 0)]),
    ("order", lambda: [(3, 3), (1, 1), (2, 2), (1, 1), (3, 3), (0, 0)]),
    ("eq-keys", lambda: [1, 1.0, True, 2, 2.0]),
    ("weird", lambda: [Weird("a"), Weird("b"), Weird("a")]),
    ("ints", lambda: [1, 2, 2, 3, 3, 3]),
    ("none-items", lambda: [None, None, (1,)]),
    ("string", lambda: "abca"),
    ("dict", lambda: {(1, 0): 5, (0, 1): 1}),
    ("ordered-dict", lambda: OrderedDict([((1, 0), 5), ((0, 1), 1)])),
    ("counter", lambda: Counter({(1, 0): 5, (0, 1): 1})),
    ("set", lambda: {(1, 0), (0, 1)}),
    ("range", lambda: range(5)),
    ("np-1d", lambda: np.array([1, 2, 2, 5])),
    ("np-float", lambda: np.array([0.5, 0.5, 1.5])),
    ("tuple-of-tuples", lambda: ((1, 0), (1, 0), (2, 2))),
    ("deque", lambda: deque([(1, 0), (1, 0), (2, 2)])),
    ("random-big", lambda: [(random.randint(0, 3), random.randint(0, 2)) for _ in range(500)]),
    # malformed
    ("unhashable-lists", lambda: [[1, 0], [0, 1]]),
    ("unhashable-late", lambda: [(1, 0), [0, 1]]),
    ("np-2d", lambda: np.array([[1, 0], [0, 1]])),
    ("none", lambda: None),
    ("int", lambda: 7),
    ("float", lambda: 0.5),
    ("generator", gen),
    ("iterator", lambda: iter([(1, 0)])),
    ("map", lambda: map(tuple, [[1, 0]])),
]

for name, mk in INPUTS:
    for oname, o in fresh():
        label = "direct/%s/%s" % (oname, name)
        arg = mk()
        arg_repr = repr(arg)
        old = o.jdd
        old_snapshot = repr(old)
        attempt(label, lambda: o.convert_jds_to_jdd(arg))
        out(label, "state", state(o))
        out(label, "items", list(o.jdd.items()) if isinstance(o.jdd, dict) else o.jdd)
        out(label, "type", type(o.jdd).__name__, "fresh-dict", o.jdd is not old,
            "old-untouched", repr(old) == old_snapshot, "arg-untouched", repr(arg) == arg_repr)
        # a second call on the same object, then sample from whatever is there
        attempt(label + "/again", lambda: (o.convert_jds_to_jdd(mk()), list(o.jdd.items())))
        attempt(label + "/sample", lambda: o.sample_jds_from_jdd(6))
        attempt(label + "/norm", lambda: (o.normalise_jdd(), list(o.jdd.items())))

# ---- through the empirical loader
for name, mk in INPUTS:
    def emp():
        o = JointDegreeEmpirical({JointDegreeNames.MOTIF_SIZES: [2, 3], JointDegreeNames.JDS: mk()})
        return (state(o), list(o.jdd.items()))
    attempt("empirical/" + name, emp)

    def emp_loader():
        o = JointDegreeDistribution.load_joint_degree({
            JointDegreeNames.JOINT_DEGREE_TYPE: "empirical",
            JointDegreeNames.MOTIF_SIZES: [2, 3], JointDegreeNames.JDS: mk()})
        r = (state(o), list(o.jdd.items()))
        o.empirical_jds = [(2, 2), (2, 2), (0, 1)]
        o.create_jdd()
        return r, list(o.jdd.items()), o.sample_jds_from_jdd(9)
    attempt("empirical-loader/" + name, emp_loader)

# ---- through the cover loader
COVERS = [
    [[0, 1]], [[1, 2]], [[0]], [[0, 1], [1, 2], [2, 0], [0, 1, 2]],
    [[1, 2, 3], [3, 4], [4, 5, 1], [2, 5]], [[0, 1, 2, 3, 4]], [], [[]], [[0, 1], [1, 5]],
    [(0, 1), (1, 2, 3), (3, 0)], [[0, 0, 1], [1, 1]],
]
for _ in range(8):
    n = random.choice([3, 6, 12])
    base = random.choice([0, 1])
    cov = [[v + base, (v + 1) % n + base] for v in range(n)]
    for _ in range(random.randint(0, 8)):
        cov.append([v + base for v in random.sample(range(n), random.choice([2, 3]))])
    COVERS.append(cov)
for i, cov in enumerate(COVERS):
    def via_cover():
        o = JointDegreeCover({JointDegreeNames.COVER: cov})
        first = list(o.jdd.items())
        o.create_jdd()
        return state(o), first, list(o.jdd.items()), o.sample_jds_from_jdd(11)
    attempt("cover/%d" % i, via_cover)

# ---- through the marginal loader (sampling route), incl. n_samples = 0 and 1
def pk(k):
    return 1.0 / (k + 1)

for ns in (0, 1, 2, 50, -1, 2.0, None):
    def marg():
        o = JointDegreeMarginal({
            JointDegreeNames.MOTIF_SIZES: [2, 3], JointDegreeNames.ARR_FP: [pk, pk],
            JointDegreeNames.LOW_HIGH_DEGREE_BOUND: [(0, 3), (1, 2)],
            JointDegreeNames.USE_SAMPLING: True, JointDegreeNames.N_SAMPLES: ns})
        return state(o)["_jdd"], list(o.jdd.items()), o.sample_jds_from_jdd(5)
    attempt("marginal/%r" % (ns,), marg)

out("final-rng", rng_digest())
text = "\n".join(LINES)
print(text)
print("DIGEST", hashlib.sha256(text.encode()).hexdigest())
