"""Equivalence digest for gcmpy.tools.bond_percolate (run with cwd = a checkout)."""
import hashlib
import os
import random
import sys

sys.path.insert(0, os.getcwd())

import numpy as np
import networkx as nx

from gcmpy.tools.bond_percolate import bond_percolate
import gcmpy


def digest(obj) -> str:
    return hashlib.sha256(repr(obj).encode()).hexdigest()[:16]


def graph_state(g):
    """Full, order-sensitive snapshot of a graph (nodes, adjacency order, attributes)."""
    if not isinstance(g, nx.Graph):
        return ("non-graph", repr(g))
    return (
        type(g).__name__,
        list(g.nodes(data=True)),
        [(u, list(nbrs.items())) for u, nbrs in g.adj.items()],
        sorted(g.graph.items()),
    )


def rng_state():
    return (digest(random.getstate()), digest(np.random.get_state()[1].tolist()),
            np.random.get_state()[2])


def shuffled_insert_graph():
    # node order and adjacency order deliberately "unnatural"
    g = nx.Graph()
    g.add_nodes_from([5, 3, 9, 0, 7, 1])
    for e in [(1, 9), (0, 9), (0, 1), (7, 5), (3, 7), (5, 3), (9, 7), (1, 1)]:
        g.add_edge(*e, weight=e[0] + e[1])
    g.graph["name"] = "shuffled"
    return g


def build_inputs():
    random.seed(4242)
    np.random.seed(4242)
    graphs = {
        "single": nx.empty_graph(1),
        "isolated5": nx.empty_graph(5),
        "one_edge": nx.path_graph(2),
        "path10": nx.path_graph(10),
        "star20": nx.star_graph(20),
        "star200": nx.star_graph(200),
        "complete8": nx.complete_graph(8),
        "cycle15": nx.cycle_graph(15),
        "two_cliques": nx.disjoint_union(nx.complete_graph(4), nx.complete_graph(6)),
        "equal_comps": nx.disjoint_union(nx.complete_graph(5), nx.cycle_graph(5)),
        "er300": nx.gnp_random_graph(300, 0.01, seed=7),
        "ba150": nx.barabasi_albert_graph(150, 2, seed=11),
        "grid": nx.grid_2d_graph(6, 7),
        "strnodes": nx.relabel_nodes(nx.petersen_graph(), lambda n: "v%d" % n),
        "shuffled": shuffled_insert_graph(),
        "multigraph": nx.MultiGraph([(0, 1), (0, 1), (1, 2), (2, 3), (3, 3), (4, 5)]),
    }
    return graphs


PHIS = [0, 1, 0.0, 1.0, 0.5, 0.25, 0.9, 0.013, -0.5, 1.5, float("nan"),
        np.float64(0.37), True, False]


def call(label, g, phi):
    before = graph_state(g)
    try:
        out = bond_percolate(g, phi)
        res = ("ok", type(out).__name__, repr(out))
    except BaseException as exc:  # noqa: BLE001 - the exception type is part of the behaviour
        res = ("exc", type(exc).__name__, str(exc))
    after = graph_state(g)
    print(label, repr(phi), res, "input_unchanged=%s" % (before == after),
          digest(after), rng_state())


def main():
    print("exported_same_object", gcmpy.bond_percolate is bond_percolate)
    graphs = build_inputs()

    # 1. every graph x every phi, one shared RNG stream (call-history dependence)
    random.seed(1234)
    np.random.seed(1234)
    for name, g in graphs.items():
        for phi in PHIS:
            call("grid:" + name, g, phi)

    # 2. repeated calls on the star: exact sequence of outcomes
    random.seed(99)
    star = graphs["star200"]
    seq = [bond_percolate(star, 0.3) for _ in range(200)]
    print("star_seq", digest(seq), seq[:8], rng_state())
    seq = [bond_percolate(graphs["er300"], p / 50.0) for p in range(51)]
    print("er_sweep", digest(seq), seq[::10], rng_state())

    # 3. number of draws == number of edges of the copy, draw order == edge order
    random.seed(5)
    g = graphs["shuffled"]
    state0 = random.getstate()
    s = bond_percolate(g, 0.6)
    state_after = random.getstate()
    random.setstate(state0)
    draws = [random.random() for _ in range(g.number_of_edges())]
    print("draw_count_matches", random.getstate() == state_after, s, digest(draws))

    # 4. edge cases / error behaviour
    random.seed(77)
    np.random.seed(77)
    call("edge:null_graph", nx.Graph(), 0.5)
    call("edge:null_graph_phi_str", nx.Graph(), "x")
    call("edge:isolated_phi_str", nx.empty_graph(3), "x")
    call("edge:path_phi_str", nx.path_graph(3), "x")
    call("edge:path_phi_none", nx.path_graph(3), None)
    call("edge:digraph", nx.DiGraph([(0, 1), (1, 2)]), 0.5)
    call("edge:digraph_empty", nx.DiGraph(), 0.5)
    call("edge:multidigraph", nx.MultiDiGraph([(0, 1), (0, 1)]), 1.0)
    frozen = nx.freeze(nx.path_graph(6))
    call("edge:frozen", frozen, 0.5)
    print("frozen_still_frozen", nx.is_frozen(frozen))
    call("edge:not_a_graph", [(0, 1)], 0.5)
    call("edge:none_graph", None, 0.5)
    view = nx.subgraph_view(nx.path_graph(8), filter_node=lambda n: n != 3)
    call("edge:subgraph_view", view, 1.0)
    call("edge:subgraph_view", view, 0.4)

    # 5. result is always a multiple of 1/N within [1/N, 1]
    random.seed(31337)
    ok = True
    vals = []
    for name, g in graphs.items():
        n = g.number_of_nodes()
        for k in range(25):
            s = bond_percolate(g, k / 24.0)
            vals.append(s)
            ok &= isinstance(s, float) and 1.0 / n <= s <= 1.0 and abs(s * n - round(s * n)) < 1e-9
    print("range_ok", ok, digest(vals), rng_state())

    # 6. monkeypatched random.random is honoured per call, one draw per edge
    calls = []
    real = random.random

    def fake():
        calls.append(1)
        return 0.5

    random.random = fake
    try:
        r1 = bond_percolate(nx.complete_graph(6), 0.5)   # 0.5 > 0.5 False: keep all
        r2 = bond_percolate(nx.complete_graph(6), 0.49)  # remove all
    finally:
        random.random = real
    print("patched", r1, r2, len(calls))
    print("final", rng_state())


if __name__ == "__main__":
    main()
