"""
Equivalence digest for the C03 refactoring (stub matching in GCMAlgorithmFast and
GCMAlgorithmCustomMotifs).  Run with cwd = a checkout of gcmpy:

    /venv/bin/python /tmp/wt3/C03.out/equiv.py

Seeds the RNGs, runs the generators on several inputs (including repeated calls on
one object and error inputs) and prints deterministic digests of everything
observable: edge list, topologies, motif ids, joint degrees identity and the RNG
state left behind.
"""
import hashlib
import os
import random
import sys

sys.path.insert(0, os.getcwd())

import numpy as np

from gcmpy.gcm_algorithm.gcm_algorithm_fast import GCMAlgorithmFast
from gcmpy.gcm_algorithm.gcm_algorithm_custom_motifs import GCMAlgorithmCustomMotifs
from gcmpy.gcm_algorithm.gcm_algorithm_network import GCMAlgorithmNetwork
from gcmpy.motif_generators.clique_motif import clique_motif
from gcmpy.names.gcm_algorithm_names import GCMAlgorithmNames


def digest(obj) -> str:
    return hashlib.sha256(repr(obj).encode()).hexdigest()[:16]


def rng_digest() -> str:
    return digest((random.getstate(), np.random.get_state()[1].tolist()))


def seed(s: int) -> None:
    random.seed(s)
    np.random.seed(s)


def show(tag, g, jds, full=False):
    print(
        tag,
        "n_edges", len(g.edge_list),
        "edges", digest(g.edge_list),
        "topo", digest(g.topologies),
        "ids", digest(g.motif_id),
        "jds_is", g.joint_degrees is jds,
        "rng", rng_digest(),
    )
    if full:
        print("   ", g.edge_list, g.topologies, g.motif_id)


def fast_params(sizes, names, builders):
    return {
        GCMAlgorithmNames.MOTIF_SIZES: sizes,
        GCMAlgorithmNames.EDGE_NAMES: names,
        GCMAlgorithmNames.BUILD_FUNCTIONS: builders,
    }


def run_fast():
    print("== GCMAlgorithmFast")
    # four degree-1 vertices: the three perfect matchings
    alg = GCMAlgorithmFast(fast_params([2], ["2-clique"], [clique_motif]))
    jds = [(1,), (1,), (1,), (1,)]
    counts = {}
    seed(1)
    for _ in range(3000):
        g = alg.random_clustered_graph(jds)
        key = tuple(sorted(tuple(sorted(e)) for e in g.edge_list))
        counts[key] = counts.get(key, 0) + 1
    print("matchings", sorted(counts.items()), "rng", rng_digest())

    for s in (0, 7, 12345):
        seed(s)
        g = alg.random_clustered_graph(jds)
        show("four-deg1 seed=%d" % s, g, jds, full=True)

    # two topologies, odd stub counts (truncated last group), zero degrees
    alg2 = GCMAlgorithmFast(
        fast_params([2, 3], ["2-clique", "3-clique"], [clique_motif, clique_motif])
    )
    rs = random.Random(99)
    jds2 = [(rs.randrange(0, 5), rs.randrange(0, 3)) for _ in range(200)]
    seed(3)
    for rep in range(3):  # call history on the same object
        g = alg2.random_clustered_graph(jds2)
        show("two-topo rep=%d" % rep, g, jds2)

    # lists instead of tuples, numpy integer degrees, three topologies
    alg3 = GCMAlgorithmFast(
        fast_params(
            [2, 3, 4],
            ["2-clique", "3-clique", "4-clique"],
            [clique_motif, clique_motif, clique_motif],
        )
    )
    arr = np.random.RandomState(5).randint(0, 4, size=(150, 3))
    jds3 = [list(row) for row in arr]
    seed(11)
    g = alg3.random_clustered_graph(jds3)
    show("three-topo numpy", g, jds3)

    # builder that uses the RNG itself: order of draws matters
    def noisy_builder(vs):
        random.random()
        return clique_motif(vs)

    alg4 = GCMAlgorithmFast(fast_params([2, 3], ["a", "b"], [noisy_builder, clique_motif]))
    seed(21)
    g = alg4.random_clustered_graph(jds2)
    show("noisy builder", g, jds2)

    # empty input
    seed(2)
    g = alg2.random_clustered_graph([])
    show("empty", g, [], full=True)

    # all-zero trailing topology with too few builders: must still work
    alg5 = GCMAlgorithmFast(fast_params([2, 3], ["2-clique"], [clique_motif]))
    jds5 = [(2, 0), (1, 0), (1, 0)]
    seed(4)
    g = alg5.random_clustered_graph(jds5)
    show("short builders, zero column", g, jds5, full=True)

    # error inputs: exception type and RNG state afterwards
    bad_inputs = [
        ("float degree", alg2, [(1, 1), (1.5, 1), (1, 1)]),
        ("missing size", GCMAlgorithmFast(fast_params([2], ["x", "y"], [clique_motif] * 2)), [(1, 1), (1, 2)]),
        ("missing builder", alg5, [(1, 3), (1, 0)]),
        ("missing name", GCMAlgorithmFast(fast_params([2, 3], ["x"], [clique_motif] * 2)), [(1, 3), (1, 0)]),
        ("generator edges + missing name",
         GCMAlgorithmFast(fast_params([2], [], [lambda vs: (e for e in clique_motif(vs))])),
         [(1,), (1,)]),
        ("not iterable", alg2, 5),
    ]
    for tag, a, bad in bad_inputs:
        seed(8)
        try:
            a.random_clustered_graph(bad)
            print("bad", tag, "no error", "rng", rng_digest())
        except Exception as e:  # noqa
            print("bad", tag, type(e).__name__, str(e), "rng", rng_digest())

    # via the network wrapper
    seed(31)
    net = GCMAlgorithmNetwork(
        fast_params([2, 3], ["2-clique", "3-clique"], [clique_motif, clique_motif])
    ).random_clustered_graph(jds2)
    G = getattr(net, "_G", None) or getattr(net, "G", None)
    if G is not None and hasattr(G, "edges"):
        print("network", digest(sorted(map(str, G.edges(data=True)))), "rng", rng_digest())
    else:
        print("network", type(net).__name__, "rng", rng_digest())


def run_custom():
    print("== GCMAlgorithmCustomMotifs")

    def diamond(vs):
        return (
            (vs[0], vs[1]),
            (vs[1], vs[2]),
            (vs[2], vs[3]),
            (vs[3], vs[1]),
            (vs[0], vs[2]),
        )

    def diamond_names():
        return ("d-outer", "d-outer", "d-outer", "d-outer", "d-inner")

    def twoclique(vs):
        return (vs[0], vs[1])

    def twoclique_names():
        return "2-clique"

    def threeclique(vs):
        return (vs[0], vs[1]), (vs[0], vs[2]), (vs[1], vs[2])

    def threeclique_names():
        return "3-clique", "3-clique", "3-clique"

    def pentagon(vs):
        return (
            (vs[0], vs[1]),
            (vs[1], vs[2]),
            (vs[2], vs[3]),
            (vs[3], vs[4]),
            (vs[0], vs[4]),
            (vs[1], vs[3]),
        )

    def pentagon_names():
        return "p01", "p12", "p23", "p34", "p40", "p13"

    jds = [
        (2, 1, 0, 1, 1, 0, 0),
        (1, 1, 0, 1, 1, 0, 0),
        (3, 1, 1, 0, 0, 1, 0),
        (2, 0, 1, 0, 0, 1, 0),
        (0, 0, 0, 1, 0, 0, 1),
        (1, 0, 0, 1, 0, 0, 0),
        (1, 0, 1, 0, 0, 0, 0),
        (1, 0, 1, 0, 0, 0, 0),
        (1, 0, 0, 1, 0, 0, 0),
        (1, 0, 0, 1, 0, 0, 0),
        (1, 0, 1, 0, 0, 0, 0),
        (0, 0, 1, 0, 0, 0, 0),
    ]
    params = {
        GCMAlgorithmNames.MOTIF_SIZES: [2, 3, 2, 2, 2, 2, 1],
        GCMAlgorithmNames.EDGE_NAMES: [
            twoclique_names, threeclique_names, diamond_names, pentagon_names,
        ],
        GCMAlgorithmNames.BUILD_FUNCTIONS: [twoclique, threeclique, diamond, pentagon],
        GCMAlgorithmNames.MOTIF_INDICES: [[0], [1], [2, 3], [4, 5, 6]],
    }
    alg = GCMAlgorithmCustomMotifs(params)
    for s in (0, 5, 77):
        seed(s)
        g = alg.random_clustered_graph(jds)
        show("manuscript seed=%d" % s, g, jds, full=(s == 0))
    seed(6)
    for rep in range(3):
        g = alg.random_clustered_graph(jds)
        show("manuscript rep=%d" % rep, g, jds)

    # partition helper
    print("partition", alg.partition(list(range(7)), 3), alg.partition([], 2))

    # four degree-1 vertices with the custom generator
    p2 = {
        GCMAlgorithmNames.MOTIF_SIZES: [2],
        GCMAlgorithmNames.EDGE_NAMES: [twoclique_names],
        GCMAlgorithmNames.BUILD_FUNCTIONS: [twoclique],
        GCMAlgorithmNames.MOTIF_INDICES: [[0]],
    }
    alg2 = GCMAlgorithmCustomMotifs(p2)
    jds2 = [(1,), (1,), (1,), (1,)]
    counts = {}
    seed(1)
    for _ in range(3000):
        g = alg2.random_clustered_graph(jds2)
        key = tuple(sorted(tuple(sorted(e)) for e in g.edge_list))
        counts[key] = counts.get(key, 0) + 1
    print("matchings", sorted(counts.items()), "rng", rng_digest())

    # larger 2-clique + triangle input, list-valued builders (no re-pack branch for
    # triangles, re-pack branch for 2-cliques), odd stub count (silent remainder)
    p3 = {
        GCMAlgorithmNames.MOTIF_SIZES: [2, 3],
        GCMAlgorithmNames.EDGE_NAMES: [twoclique_names, threeclique_names],
        GCMAlgorithmNames.BUILD_FUNCTIONS: [twoclique, clique_motif],
        GCMAlgorithmNames.MOTIF_INDICES: [[0], [1]],
    }
    rs = random.Random(42)
    jds3 = [(rs.randrange(0, 4), rs.randrange(0, 3)) for _ in range(101)]
    # pad so that both stub counts are divisible by the motif sizes
    while sum(r[0] for r in jds3) % 2:
        jds3.append((1, 0))
    while sum(r[1] for r in jds3) % 3:
        jds3.append((0, 1))
    seed(13)
    g = GCMAlgorithmCustomMotifs(p3).random_clustered_graph(jds3)
    show("clique+triangle", g, jds3)
    # odd stub count: the short remainder partition is popped first
    jds3_odd = jds3 + [(1, 0)]
    seed(14)
    try:
        g = GCMAlgorithmCustomMotifs(p3).random_clustered_graph(jds3_odd)
        show("clique+triangle odd", g, jds3_odd)
    except Exception as e:  # noqa
        print("clique+triangle odd", type(e).__name__, str(e), "rng", rng_digest())
    jds3_odd = jds3 + [(0, 1)]
    seed(15)
    try:
        g = GCMAlgorithmCustomMotifs(p3).random_clustered_graph(jds3_odd)
        show("clique+triangle odd3", g, jds3_odd)
    except Exception as e:  # noqa
        print("clique+triangle odd3", type(e).__name__, str(e), "rng", rng_digest())

    # a 2-edge motif made of tuples (path of length two) must NOT be re-packed
    def path2(vs):
        return [(vs[0], vs[1]), (vs[1], vs[2])]

    p4 = {
        GCMAlgorithmNames.MOTIF_SIZES: [2, 1],
        GCMAlgorithmNames.EDGE_NAMES: [lambda: ("end", "end")],
        GCMAlgorithmNames.BUILD_FUNCTIONS: [lambda vs: path2([vs[0], vs[2], vs[1]])],
        GCMAlgorithmNames.MOTIF_INDICES: [[0, 1]],
    }
    jds4 = [(1, 0), (1, 0), (0, 1), (1, 1), (1, 0)]
    seed(17)
    g = GCMAlgorithmCustomMotifs(p4).random_clustered_graph(jds4)
    show("path2", g, jds4, full=True)

    # error inputs
    bad_inputs = [
        ("float degree", alg2, [(1,), (1.5,)]),
        ("orbit runs out", GCMAlgorithmCustomMotifs(p4), [(1, 0), (1, 0), (1, 0), (1, 0), (0, 1)]),
        ("zero size", GCMAlgorithmCustomMotifs({**p2, GCMAlgorithmNames.MOTIF_SIZES: [0]}), jds2),
        ("not iterable", alg2, 3),
    ]
    for tag, a, bad in bad_inputs:
        seed(8)
        try:
            a.random_clustered_graph(bad)
            print("bad", tag, "no error", "rng", rng_digest())
        except Exception as e:  # noqa
            print("bad", tag, type(e).__name__, str(e), "rng", rng_digest())


if __name__ == "__main__":
    run_fast()
    run_custom()
