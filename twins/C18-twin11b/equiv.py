import sys, os; sys.path.insert(0, os.getcwd())
import hashlib, random
import numpy as np
import networkx as nx

random.seed(1802)
np.random.seed(1802)

from gcmpy import diamond_motif, cycle_motif, Network, bond_percolate
import gcmpy.motif_generators as mg
from gcmpy.motif_generators.diamond_motif import diamond_motif as dm2

out = []


def emit(*a):
    out.append(" | ".join(repr(x) for x in a))


def attempt(tag, make):
    """make() builds a fresh argument; call twice on one object."""
    try:
        arg = make()
    except BaseException as ex:
        emit(tag, "MAKE-EXC", type(ex).__name__)
        return None
    res = None
    for rep in range(2):
        try:
            r = diamond_motif(arg)
        except BaseException as ex:
            emit(tag, rep, "EXC", type(ex).__name__)
            continue
        emit(tag, rep, type(r).__name__, len(r), r,
             [type(e).__name__ for e in r])
        if res is not None:
            emit(tag, "fresh-list", r is not res, repr(r) == repr(res))
        res = r
    try:
        emit(tag, "arg-after", repr(arg) if not hasattr(arg, "__next__") else list(arg))
    except BaseException as ex:
        emit(tag, "arg-after-EXC", type(ex).__name__)
    return res


emit("same-function", diamond_motif is dm2, mg.diamond_motif is dm2)

# ---- regular inputs -------------------------------------------------------
attempt("0123", lambda: [0, 1, 2, 3])
attempt("tuple", lambda: (7, 5, 3, 1))
attempt("strs", lambda: ["a", "b", "c", "d"])
attempt("str4", lambda: "wxyz")
attempt("dups", lambda: [1, 1, 1, 1])
attempt("mixed", lambda: [0, "a", (1, 2), None])
attempt("unhashable", lambda: [[0], [1], {2}, {3: 3}])
attempt("range", lambda: range(10, 14))
attempt("nparray", lambda: np.array([4, 3, 2, 1]))
attempt("floats", lambda: [0.5, float("nan"), float("inf"), -0.0])
attempt("bytes", lambda: b"abcd")

for t in range(60):
    n = random.randint(4, 50)
    vs = random.sample(range(n), 4)
    r = attempt("rand%d" % t, lambda: list(vs))
    # hand the motif to a Network and percolate it
    net = Network()
    net.add_edges_from(r)
    before = (list(net.G.nodes()), list(net.G.edges()))
    S = [bond_percolate(net.G, phi) for phi in (0.0, 0.25, 0.5, 0.75, 1.0)]
    emit("rand%d" % t, "perc", S, before,
         (list(net.G.nodes()), list(net.G.edges())) == before,
         net.find_cliques(), net.has_edges())
    # result list is the caller's: mutate it, call again
    r.append("junk")
    emit("rand%d" % t, "after-mutation", diamond_motif(list(vs)))

# ---- malformed ------------------------------------------------------------
attempt("empty", lambda: [])
attempt("three", lambda: [0, 1, 2])
attempt("five", lambda: [0, 1, 2, 3, 4])
attempt("hundred", lambda: list(range(100)))
attempt("None", lambda: None)
attempt("int", lambda: 4)
attempt("set4", lambda: {0, 1, 2, 3})
attempt("frozenset4", lambda: frozenset([0, 1, 2, 3]))
attempt("dict4", lambda: {0: "a", 1: "b", 2: "c", 3: "d"})
attempt("dict4-neg", lambda: {0: "a", 1: "b", 2: "c", -1: "d"})
attempt("iter4", lambda: iter([0, 1, 2, 3]))
attempt("gen4", lambda: (x for x in range(4)))
attempt("gen5", lambda: (x for x in range(5)))
attempt("nparray2d", lambda: np.arange(8).reshape(4, 2))
attempt("nparray5", lambda: np.arange(5))
attempt("str3", lambda: "abc")
attempt("str5", lambda: "abcde")


class Seq4:
    """sequence whose iteration is observable"""

    def __init__(self):
        self.log = []

    def __repr__(self):
        return "Seq4(log=%r)" % (self.log,)

    def __len__(self):
        self.log.append("len")
        return 4

    def __iter__(self):
        self.log.append("iter")
        return iter([10, 11, 12, 13])

    def __getitem__(self, i):
        self.log.append(("get", i))
        return [10, 11, 12, 13][i]


class LenLies:
    def __repr__(self):
        return "LenLies()"

    def __len__(self):
        return 4

    def __iter__(self):
        return iter([1, 2])


class NoLen:
    def __repr__(self):
        return "NoLen()"

    def __iter__(self):
        return iter([1, 2, 3, 4])


class IterRaises:
    def __repr__(self):
        return "IterRaises()"

    def __len__(self):
        return 4

    def __iter__(self):
        yield 1
        raise ZeroDivisionError


attempt("Seq4", Seq4)
attempt("LenLies", LenLies)
attempt("NoLen", NoLen)
attempt("IterRaises", IterRaises)

for bad in ((), ([1, 2, 3, 4], 2)):
    try:
        diamond_motif(*bad)
        emit("arity", len(bad), "ok")
    except BaseException as ex:
        emit("arity", len(bad), "EXC", type(ex).__name__)

emit("cycle-untouched", cycle_motif([0, 1, 2, 3]), cycle_motif([5, 6]))

emit("random", hashlib.sha256(repr(random.getstate()).encode()).hexdigest())
st = np.random.get_state()
emit("numpy", hashlib.sha256(repr((st[0], st[1].tolist(), st[2:])).encode()).hexdigest())

text = "\n".join(out)
print(text)
print("DIGEST", hashlib.sha256(text.encode()).hexdigest())
