import sys, os; sys.path.insert(0, os.getcwd())
import random, hashlib, itertools, decimal, fractions
import numpy as np
from gcmpy.message_passing.equations.chordless_cycle_equation import chordless_cycle_equation

random.seed(1601)
np.random.seed(1601)


def show(x):
    if isinstance(x, np.ndarray) and x.dtype == object:
        return "ndo:%s:[%s]" % (x.shape, ",".join(show(e) for e in x.ravel().tolist()))
    if isinstance(x, np.ndarray):
        return "nd:%s:%s:%s" % (x.dtype, x.shape, x.tobytes().hex())
    if isinstance(x, np.generic):
        return "npg:%s:%s" % (type(x).__name__, x.tobytes().hex())
    if isinstance(x, float):
        return "f:" + x.hex()
    if isinstance(x, complex):
        return "c:%s:%s" % (x.real.hex(), x.imag.hex())
    return "%s:%r" % (type(x).__name__, x)


class Log:
    """Number-like object that records every operator call made on it."""
    trace = []

    def __init__(self, v, tag):
        self.v = v
        self.tag = tag

    def _w(self, name, other, res):
        Log.trace.append((name, self.tag, show(other.v if isinstance(other, Log) else other)))
        return Log(res, self.tag + name[2])

    def __mul__(self, o): return self._w("__mul__", o, self.v * (o.v if isinstance(o, Log) else o))
    def __rmul__(self, o): return self._w("__rmul__", o, o * self.v)
    def __add__(self, o): return self._w("__add__", o, self.v + (o.v if isinstance(o, Log) else o))
    def __radd__(self, o): return self._w("__radd__", o, o + self.v)
    def __rsub__(self, o): return self._w("__rsub__", o, o - self.v)
    def __sub__(self, o): return self._w("__sub__", o, self.v - (o.v if isinstance(o, Log) else o))
    def __pow__(self, o, mod=None):
        Log.trace.append(("__pow__", self.tag, show(o), repr(mod)))
        return Log(self.v ** o, self.tag + "p")
    def __rpow__(self, o, mod=None):
        Log.trace.append(("__rpow__", self.tag, show(o), repr(mod)))
        return Log(o ** self.v, self.tag + "q")


out = []


def run(n, u, phi):
    Log.trace = []
    try:
        r = chordless_cycle_equation(n, u, phi)
        if isinstance(r, Log):
            res = "Log:" + show(r.v)
        else:
            res = show(r)
    except BaseException as e:
        res = "EXC:" + type(e).__name__
    tr = hashlib.sha256(repr(Log.trace).encode()).hexdigest()[:12] if Log.trace else "-"
    out.append("%r|%s|%s -> %s [%s]" % (n, show(u) if not isinstance(u, Log) else "Log", show(phi) if not isinstance(phi, Log) else "Log", res, tr))


ns = [-3, -1, 0, 1, 2, 3, 4, 5, 7, 12, 40, True, False, 3.0, None, "4", 2 ** 70 * 0 + 6]
vals = [0.0, 1.0, 0.5, 0.3, 1e-300, 1e300, -0.7, 2.5, float("inf"), float("nan"), -0.0,
        0, 1, 2, -3, True,
        fractions.Fraction(1, 3), fractions.Fraction(-5, 7),
        decimal.Decimal("0.25"),
        0.5 + 0.25j,
        np.float64(0.37), np.float32(0.37), np.int64(3), np.int8(100),
        np.array([0.1, 0.9]), np.array([1, 2, 3]), np.array([[0.5]]),
        None, "x", [1.0]]
for n in ns:
    for u, phi in itertools.product(vals, repeat=2):
        run(n, u, phi)

for _ in range(3000):
    n = random.randint(-2, 25)
    u = random.random() if random.random() < 0.8 else random.uniform(-5, 5)
    phi = random.random() if random.random() < 0.8 else random.uniform(-5, 5)
    run(n, u, phi)
    run(n, float(np.random.rand()), np.float64(np.random.rand()))

for n in [0, 1, 2, 3, 5, 8]:
    run(n, Log(0.4, "u"), 0.6)
    run(n, 0.4, Log(0.6, "f"))
    run(n, Log(0.4, "u"), Log(0.6, "f"))
    run(n, Log(fractions.Fraction(2, 5), "u"), Log(fractions.Fraction(3, 5), "f"))

with np.errstate(all="raise"):
    for n in [2, 3, 6]:
        for u, phi in [(np.float64(1e200), np.float64(1e200)), (np.float64(0.0), np.float64(1.0)),
                       (np.array([1e200]), np.array([1e200])), (np.int8(100), np.int8(100))]:
            run(n, u, phi)

blob = "\n".join(out)
print(len(out), hashlib.sha256(blob.encode()).hexdigest())
for line in out[::997]:
    print(line)
print("EXC count", sum("EXC:" in l for l in out))
print("exc types", sorted({l.split("EXC:")[1].split(" ")[0] for l in out if "EXC:" in l}))
print("random state", hashlib.sha256(repr(random.getstate()).encode()).hexdigest())
st = np.random.get_state()
print("numpy state", hashlib.sha256(st[1].tobytes() + repr(st[2:]).encode()).hexdigest())
