"""
Equivalence digest for the C04 commit (edge list <-> network conversion).

Run with cwd = a checkout of gcmpy. Exercises every function the commit touched
through its PRE-EXISTING signature only (EdgeListToNetwork.convert(edgelist),
NetworkToEdgeList.convert(network), LightWeightEdgeList properties, and the
caller GCMAlgorithmNetwork.random_clustered_graph) and prints a deterministic
digest: results in iteration order, exception types and arguments, mutated
inputs, RNG states afterwards.
"""
import hashlib
import os
import random
import sys
import warnings

warnings.simplefilter("ignore")
sys.path.insert(0, os.getcwd())

import networkx as nx
import numpy as np

from gcmpy.gcm_algorithm.gcm_algorithm_fast import GCMAlgorithmFast
from gcmpy.gcm_algorithm.gcm_algorithm_network import GCMAlgorithmNetwork
from gcmpy.motif_generators.clique_motif import clique_motif
from gcmpy.names.gcm_algorithm_names import GCMAlgorithmNames
from gcmpy.names.network_names import NetworkNames
from gcmpy.network.edge_list import LightWeightEdgeList
from gcmpy.network.edge_list_to_network import EdgeListToNetwork
from gcmpy.network.network import Network
from gcmpy.network.network_to_edge_list import NetworkToEdgeList


def rng_state():
    h = hashlib.sha256()
    h.update(repr(random.getstate()).encode())
    s = np.random.get_state()
    h.update(repr((s[0], s[1].tolist(), s[2], s[3], repr(s[4]))).encode())
    return h.hexdigest()[:16]


def short(text, limit=400):
    if len(text) <= limit:
        return text
    return "sha256:%s len=%d head=%s" % (
        hashlib.sha256(text.encode()).hexdigest()[:20],
        len(text),
        text[:120],
    )


def dump_network(g):
    nodes = repr(list(g.G.nodes(data=True)))
    if g.G.is_multigraph():
        edges = repr(list(g.G.edges(keys=True, data=True)))
    else:
        edges = repr(list(g.G.edges(data=True)))
    return "%s nodes=%s edges=%s" % (type(g.G).__name__, short(nodes), short(edges))


def dump_edge_list(el):
    parts = []
    for name in ("edge_list", "topologies", "joint_degrees", "motif_id"):
        value = getattr(el, name)
        parts.append("%s:%s=%s" % (name, type(value).__name__, short(repr(value))))
    return " ".join(parts)


def attempt(label, fn, dump):
    try:
        out = fn()
    except BaseException as exc:  # noqa: digest wants every exception
        print("%s -> EXC %s %r" % (label, type(exc).__name__, exc.args))
        return None
    print("%s -> %s" % (label, dump(out)))
    return out


def params():
    p = {}
    p[GCMAlgorithmNames.MOTIF_SIZES] = [2, 3]
    p[GCMAlgorithmNames.EDGE_NAMES] = ["2-clique", "3-clique"]
    p[GCMAlgorithmNames.BUILD_FUNCTIONS] = [clique_motif, clique_motif]
    return p


def make_jds(n, seed):
    random.seed(seed)
    np.random.seed(seed)
    choices = [(0, 0), (1, 0), (2, 1), (3, 0), (0, 1), (5, 1)]
    return [random.choice(choices) for _ in range(n)]


def hand_made(edges, topologies, motif_id, jds):
    el = LightWeightEdgeList()
    el.edge_list = edges
    el.topologies = topologies
    el.motif_id = motif_id
    el.joint_degrees = jds
    return el


def section(title):
    print("== " + title)


# --------------------------------------------------------------------------
section("fresh LightWeightEdgeList")
el = LightWeightEdgeList()
print(dump_edge_list(el))
el2 = LightWeightEdgeList()
print("independent lists:", el.edge_list is not el2.edge_list,
      el.topologies is not el2.topologies, el.motif_id is not el2.motif_id)
print("public names:", sorted(n for n in dir(LightWeightEdgeList)
                              if not n.startswith("_") and n != "annotated_edges"))
g = attempt("empty -> network", lambda: EdgeListToNetwork.convert(el), dump_network)
attempt("empty network -> edge list", lambda: NetworkToEdgeList.convert(g), dump_edge_list)
attempt("bare Network -> edge list", lambda: NetworkToEdgeList.convert(Network()), dump_edge_list)

# --------------------------------------------------------------------------
section("generated edge lists, round trips, repeated calls")
for n, seed in [(1, 0), (2, 11), (7, 1), (40, 2), (300, 3), (1000, 5)]:
    jds = make_jds(n, seed)
    el = GCMAlgorithmFast(params()).random_clustered_graph(jds)
    print("N=%d seed=%d" % (n, seed), dump_edge_list(el), "rng", rng_state())
    before = dump_edge_list(el)
    g = attempt("  convert", lambda: EdgeListToNetwork.convert(el), dump_network)
    g_again = attempt("  convert again", lambda: EdgeListToNetwork.convert(el), dump_network)
    print("  input unchanged:", dump_edge_list(el) == before, "distinct results:", g is not g_again)
    first = [
        (e, g.G.edges[e].get(NetworkNames.TOPOLOGY, "<none>"),
         g.G.edges[e].get(NetworkNames.MOTIF_IDS, "<none>"))
        for e in el.edge_list[:4]
    ]
    print("  first entries in network:", first)
    gdump = dump_network(g)
    back = attempt("  back", lambda: NetworkToEdgeList.convert(g), dump_edge_list)
    back2 = attempt("  back again", lambda: NetworkToEdgeList.convert(g), dump_edge_list)
    print("  network unchanged:", dump_network(g) == gdump,
          "fresh lists:", back.edge_list is not back2.edge_list,
          back.topologies is not back2.topologies)
    back.topologies.append("tamper")
    back.motif_id.append(-1)
    back.edge_list.append((0, 0))
    print("  network unchanged after tampering:", dump_network(g) == gdump)
    g2 = attempt("  there again", lambda: EdgeListToNetwork.convert(back2), dump_network)
    print("  rng", rng_state())

section("GCMAlgorithmNetwork (calls EdgeListToNetwork.convert)")
for n, seed in [(1, 0), (9, 4), (60, 6)]:
    jds = make_jds(n, seed)
    attempt("N=%d seed=%d" % (n, seed),
            lambda: GCMAlgorithmNetwork(params()).random_clustered_graph(jds), dump_network)
    print("  rng", rng_state())

# --------------------------------------------------------------------------
section("hand-made edge lists: falsy annotations, lengths, duplicates")
E4 = [(0, 1), (1, 2), (0, 2), (0, 3)]
J4 = [(1, 1), (0, 1), (0, 1), (1, 0)]
cases = {
    "falsy values": (list(E4), ["", None, 0, False], [0, None, "", 0.0], list(J4)),
    "motif id zero everywhere": (list(E4), ["a"] * 4, [0] * 4, list(J4)),
    "topologies short": (list(E4), ["t"] * 3, [7] * 4, list(J4)),
    "motif ids short": (list(E4), ["t"] * 4, [7, 0], list(J4)),
    "both short, uneven": (list(E4), ["t"] * 3, [0], list(J4)),
    "no annotations": (list(E4), [], [], list(J4)),
    "no topologies": (list(E4), [], [1, 2, 3, 4], list(J4)),
    "annotations in excess": (list(E4), ["t"] * 6, list(range(9)), list(J4)),
    "no edges, annotations": ([], ["t"], [3], list(J4)),
    "duplicates and reversed": ([(0, 1), (1, 0), (0, 1), (2, 2), (2, 2)],
                                ["a", "b", "c", "d", "e"], [0, 1, 2, 3, 4], list(J4)),
    "vertices beyond jds": ([(0, 5), (5, 6)], ["a", "b"], [0, 1], [(1, 0)]),
    "no jds": ([(0, 1)], ["a"], [0], []),
    "tuples as containers": (tuple(E4), ("a", "b", "c", "d"), (0, 1, 2, 3), tuple(J4)),
    "string vertices": ([("u", "v"), ("v", "w")], ["a", "b"], [0, 0], [(1, 0)] * 2),
    "edges as lists": ([[0, 1], [1, 2]], ["a", "b"], [0, 1], list(J4)),
    "edges with data": ([(0, 1, {"w": 1})], ["a"], [0], list(J4)),
    "edge None": ([(0, 1), None], ["a", "b"], [0, 1], list(J4)),
    "edge of length 1": ([(0,)], ["a"], [0], list(J4)),
    "unhashable annotations": (list(E4), [["x"], {"y": 1}, None, "z"], [[0], {}, 0, 1], list(J4)),
    "jds not sized": ([(0, 1)], ["a"], [0], iter(J4)),
    "edge list None": (None, ["a"], [0], list(J4)),
    "topologies None": (list(E4), None, [0], list(J4)),
    "motif ids None": (list(E4), ["a"], None, list(J4)),
}
for label, (edges, tops, mids, jds) in cases.items():
    el = hand_made(edges, tops, mids, jds)
    before = dump_edge_list(el)
    g = attempt(label, lambda: EdgeListToNetwork.convert(el), dump_network)
    print("  input unchanged:", dump_edge_list(el) == before)
    if g is None:
        continue
    back = attempt("  back", lambda: NetworkToEdgeList.convert(g), dump_edge_list)
    g1 = attempt("  convert again", lambda: EdgeListToNetwork.convert(el), dump_network)
    if back is not None:
        attempt("  there again", lambda: EdgeListToNetwork.convert(back), dump_network)

section("annotations given as one-shot iterators")
for label, ne, nt, nm in [("equal", 3, 3, 3), ("topologies short", 3, 1, 3),
                          ("motif ids short", 3, 3, 1), ("edges short", 2, 4, 4)]:
    tops = iter(["t%d" % i for i in range(nt)])
    mids = iter(list(range(nm)))
    el = hand_made(E4[:ne], tops, mids, list(J4))
    attempt(label, lambda: EdgeListToNetwork.convert(el), dump_network)
    print("  left over:", list(tops), list(mids))
    attempt("  again (exhausted)", lambda: EdgeListToNetwork.convert(el), dump_network)

# --------------------------------------------------------------------------
section("networks edited by hand")


def base_network():
    el = hand_made(list(E4), ["3-clique"] * 3 + ["2-clique"], [0, 0, 0, 1], list(J4))
    return EdgeListToNetwork.convert(el)


g = base_network()
g.add_edge((2, 3))
attempt("unannotated edge", lambda: NetworkToEdgeList.convert(g), dump_edge_list)
attempt("unannotated edge, again", lambda: NetworkToEdgeList.convert(g), dump_edge_list)
print("  network:", dump_network(g))

g = base_network()
g.G.add_edge(1, 3, **{"x": 1})
g.G.edges[1, 3][NetworkNames.TOPOLOGY] = "only topology"
attempt("motif id missing", lambda: NetworkToEdgeList.convert(g), dump_edge_list)

g = base_network()
g.G.add_edge(1, 3)
g.G.edges[1, 3][NetworkNames.MOTIF_IDS] = 0
attempt("topology missing", lambda: NetworkToEdgeList.convert(g), dump_edge_list)

g = base_network()
del g.G.edges[0, 1][NetworkNames.MOTIF_IDS]      # earlier edge lacks the motif id
del g.G.edges[0, 3][NetworkNames.TOPOLOGY]       # later edge lacks the topology
attempt("motif id missing first, topology later", lambda: NetworkToEdgeList.convert(g), dump_edge_list)

g = base_network()
g.G.edges[0, 1][NetworkNames.TOPOLOGY] = None
g.G.edges[0, 2][NetworkNames.MOTIF_IDS] = None
g.G.edges[1, 2][NetworkNames.TOPOLOGY] = ""
attempt("None / empty annotations present", lambda: NetworkToEdgeList.convert(g), dump_edge_list)

g = base_network()
g.G.edges[0, 1]["topology"] = "string key is not the enum key"
g.G.edges[0, 1]["extra"] = 3.5
attempt("extra attributes", lambda: NetworkToEdgeList.convert(g), dump_edge_list)

g = base_network()
g.G.add_node(4)
attempt("vertex without joint degree", lambda: NetworkToEdgeList.convert(g), dump_edge_list)

g = base_network()
g.G.add_node("x", **{"joint_degree": (0, 0)})
attempt("vertex with another label", lambda: NetworkToEdgeList.convert(g), dump_edge_list)

g = base_network()
g.remove_edge(0, 1)
g.remove_edge(0, 1)
attempt("edge removed", lambda: NetworkToEdgeList.convert(g), dump_edge_list)

g = base_network()
g.G.remove_node(1)
attempt("vertex removed", lambda: NetworkToEdgeList.convert(g), dump_edge_list)

for kind in (nx.DiGraph, nx.MultiGraph, nx.MultiDiGraph):
    g = Network()
    g.G = kind()
    g.G.add_nodes_from(range(3))
    nx.set_node_attributes(g.G, {0: (1, 0), 1: (2, 0), 2: (1, 0)}, NetworkNames.JOINT_DEGREE)
    g.G.add_edge(0, 1, **{})
    g.G.add_edge(1, 2)
    g.G.add_edge(1, 0)
    for e in list(g.G.edges(keys=True) if g.G.is_multigraph() else g.G.edges()):
        g.G.edges[e][NetworkNames.TOPOLOGY] = "2-clique"
        g.G.edges[e][NetworkNames.MOTIF_IDS] = 0
    attempt("G is a %s" % kind.__name__, lambda: NetworkToEdgeList.convert(g), dump_edge_list)

attempt("network None", lambda: NetworkToEdgeList.convert(None), dump_edge_list)
attempt("edge list None", lambda: EdgeListToNetwork.convert(None), dump_network)
attempt("a graph instead of a Network", lambda: NetworkToEdgeList.convert(nx.path_graph(3)), dump_edge_list)
attempt("positional arity", lambda: EdgeListToNetwork.convert(), dump_network)
attempt("positional arity", lambda: NetworkToEdgeList.convert(), dump_edge_list)

# --------------------------------------------------------------------------
section("floats and final RNG state")
random.seed(99)
np.random.seed(99)
el = hand_made([(0, 1), (1, 2)], [0.1 + 0.2, 1e-320], [float("nan"), -0.0], [(0.5, 1 / 3)] * 3)
g = attempt("float annotations", lambda: EdgeListToNetwork.convert(el), dump_network)
attempt("  back", lambda: NetworkToEdgeList.convert(g), dump_edge_list)
print("rng", rng_state(), repr(random.random()), repr(float(np.random.random())))
