import sys, os; sys.path.insert(0, os.getcwd())

import hashlib
import random
import warnings

warnings.simplefilter("ignore")

import networkx as nx
import numpy as np

from gcmpy import bond_percolate
from gcmpy.tools.bond_percolate import bond_percolate as bp_direct


def rng_digest():
    h = hashlib.sha256()
    h.update(repr(random.getstate()).encode())
    st = np.random.get_state()
    h.update(repr((st[0], st[1].tobytes(), st[2:])).encode())
    return h.hexdigest()[:16]


def snapshot(g):
    h = hashlib.sha256()
    h.update(type(g).__name__.encode())
    h.update(repr(list(g.nodes(data=True))).encode())
    if g.is_multigraph():
        h.update(repr(list(g.edges(keys=True, data=True))).encode())
    else:
        h.update(repr(list(g.edges(data=True))).encode())
    h.update(repr([(n, list(nb)) for n, nb in g.adjacency()]).encode())
    h.update(repr(sorted(g.graph.items())).encode())
    return h.hexdigest()[:16]


def call(label, g, phi, f=bond_percolate):
    try:
        r = f(g, phi)
        out = "%s %r" % (type(r).__name__, r)
    except BaseException as e:  # noqa
        out = "EXC " + type(e).__name__
    snap = snapshot(g) if isinstance(g, nx.Graph) else "-"
    print("%-34s phi=%-8r -> %-36s rng=%s g=%s" % (label, phi, out, rng_digest(), snap))


def shuffled_graph(seed):
    """Graph whose adjacency insertion order is scrambled w.r.t. node order."""
    r = random.Random(seed)
    base = nx.gnm_random_graph(40, 90, seed=seed)
    nodes = list(base.nodes())
    edges = [(v, u) if r.random() < 0.5 else (u, v) for u, v in base.edges()]
    r.shuffle(nodes)
    r.shuffle(edges)
    g = nx.Graph(name="shuffled")
    g.add_nodes_from(nodes[:25])
    g.add_edges_from(edges)
    g.add_nodes_from(nodes[25:])
    return g


def graphs():
    gs = []
    gs.append(("empty", nx.Graph()))
    gs.append(("single", nx.empty_graph(1)))
    gs.append(("isolated5", nx.empty_graph(5)))
    g = nx.Graph(); g.add_edge(0, 0)
    gs.append(("selfloop", g))
    g = nx.path_graph(6); g.add_edge(2, 2); g.add_edge(5, 5)
    gs.append(("path+loops", g))
    gs.append(("star30", nx.star_graph(30)))
    gs.append(("gnm60_70", nx.gnm_random_graph(60, 70, seed=3)))
    gs.append(("gnp200", nx.gnp_random_graph(200, 0.012, seed=11)))
    gs.append(("complete12", nx.complete_graph(12)))
    gs.append(("grid5x4(tuple nodes)", nx.grid_2d_graph(5, 4)))
    gs.append(("shuffledA", shuffled_graph(1)))
    gs.append(("shuffledB", shuffled_graph(2)))
    g = nx.Graph(tag="attrs")
    g.add_node("a", colour="red"); g.add_node("b"); g.add_node(3.5)
    g.add_edge("a", "b", weight=2.0); g.add_edge("b", 3.5, motif="3-clique"); g.add_edge(3.5, "z")
    gs.append(("attrs/mixed-nodes", g))
    g = nx.MultiGraph()
    g.add_edges_from([(0, 1), (0, 1), (0, 1), (1, 2), (2, 3), (2, 3), (3, 3), (4, 5)])
    g.add_node(9)
    gs.append(("multigraph", g))
    gs.append(("digraph", nx.gnp_random_graph(15, 0.2, seed=5, directed=True)))
    gs.append(("empty digraph", nx.DiGraph()))
    g = nx.gnm_random_graph(30, 50, seed=8)
    gs.append(("subgraph view", g.subgraph(range(3, 25))))
    gs.append(("edge_subgraph view", g.edge_subgraph(list(g.edges())[::2])))
    gs.append(("frozen", nx.freeze(nx.cycle_graph(9))))
    h = nx.cycle_graph(12); h.remove_node(4); h.add_edge(20, 0); h.remove_edge(0, 1); h.add_edge(1, 0)
    gs.append(("edited cycle", h))
    return gs


PHIS = [0.0, 1.0, 0.5, 0.1, 0.9, 0.3, -0.2, 1.7, 0, 1, True,
        float("nan"), float("inf"), float("-inf"), np.float64(0.4), None, "0.5"]


def main():
    random.seed(987654321)
    np.random.seed(2468)
    print("start rng=%s" % rng_digest())
    for name, g in graphs():
        for phi in PHIS:
            call(name, g, phi)
        # repeated calls on the same object
        for k in range(4):
            call(name + " rep%d" % k, g, 0.45, bp_direct)

    # non-graph inputs
    for bad in (None, 5, [(0, 1)], {0: [1]}):
        call("bad input %s" % type(bad).__name__, bad, 0.5)

    # draw-sequence check: exact sequences of results after reseeding
    star = nx.star_graph(50)
    g = nx.gnm_random_graph(80, 120, seed=21)
    for seed in (0, 1, 2, 3):
        random.seed(seed)
        seq = [bond_percolate(star, 0.35) for _ in range(6)] + \
              [bond_percolate(g, p / 10.0) for p in range(11)]
        print("seed %d: %s rng=%s" % (seed, " ".join(repr(x) for x in seq), rng_digest()))
        print("   next draw %r" % random.random())
    print("end rng=%s star=%s g=%s" % (rng_digest(), snapshot(star), snapshot(g)))


if __name__ == "__main__":
    main()
